# -*- coding: utf-8 -*-
"""Reference model of diatonic harmony, roman numerals and chord types.  Never imports mingus.

Everything is derived from mc/ref/pitch.py (keys from the line of fifths, interval arithmetic on
letters + semitones):

* the seven diatonic triads / sevenths of a key are stacks of thirds inside the key's notes;
* a numeral string is  <accidentals><I..VII in either case><suffix>;  it denotes the diatonic chord
  (no suffix / "7") or the chord type `suffix` built on the degree's root, every note then moved by
  one semitone per accidental on its own letter;
* a chord type is a list of interval shorthands over the root's major scale (textbook formulas;
  the handful of mingus-specific readings are marked).
"""
import functools
import re

from mc.ref import pitch as P

NUMERALS = ["I", "II", "III", "IV", "V", "VI", "VII"]
FUNCTIONS = ["tonic", "supertonic", "mediant", "subdominant", "dominant", "submediant", "subtonic"]
# quality of the diatonic triad / seventh on each degree of a MAJOR key (textbook)
MAJOR_TRIAD_QUALITY = ["M", "m", "m", "M", "M", "m", "dim"]
MAJOR_SEVENTH_QUALITY = ["M7", "m7", "m7", "M7", "7", "m7", "m7b5"]
# conventional case of the numerals in a major key (upper = major, lower = minor/diminished)
MAJOR_CASE = ["I", "ii", "iii", "IV", "V", "vi", "vii"]

# chord type -> interval shorthands above the root (number 1..7 in the root's major scale, b/# = -/+ 1)
FORMULAS = {
    # triads
    "": "1 3 5", "M": "1 3 5", "m": "1 b3 5", "dim": "1 b3 b5", "aug": "1 3 #5", "+": "1 3 #5",
    # suspended
    "sus2": "1 2 5", "sus4": "1 4 5", "sus": "1 4 5", "sus47": "1 4 5 b7", "7sus4": "1 4 5 b7",
    "sus4b9": "1 4 5 b2", "susb9": "1 4 5 b2",
    # sevenths
    "M7": "1 3 5 7", "m7": "1 b3 5 b7", "7": "1 3 5 b7", "dom7": "1 3 5 b7", "m7b5": "1 b3 b5 b7",
    "dim7": "1 b3 b5 bb7", "m/M7": "1 b3 5 7", "mM7": "1 b3 5 7",
    # augmented sevenths.  mingus documents '7#5' = 'M7+5' = 'm7+' = "augmented minor seventh"
    # (aug triad + minor 7th) and 'M7+' = '7+' = "augmented major seventh"; that documented reading
    # is followed (C06 is the property about what a shorthand means)
    "7#5": "1 3 #5 b7", "M7+5": "1 3 #5 b7", "m7+": "1 3 #5 b7", "M7+": "1 3 #5 7", "7+": "1 3 #5 7",
    # sixths
    "6": "1 3 5 6", "M6": "1 3 5 6", "m6": "1 b3 5 6", "6/7": "1 3 5 6 b7", "67": "1 3 5 6 b7",
    "6/9": "1 3 5 6 2", "69": "1 3 5 6 2",
    # ninths
    "9": "1 3 5 b7 2", "add9": "1 3 5 b7 2", "M9": "1 3 5 7 2", "m9": "1 b3 5 b7 2",
    "7b9": "1 3 5 b7 b2", "7#9": "1 3 5 b7 #2",
    # elevenths.  mingus documents '11' as root, fifth, minor seventh, fourth (no third)
    "11": "1 5 b7 4", "add11": "1 5 b7 4", "7#11": "1 3 5 b7 #4", "m11": "1 b3 5 b7 4",
    # thirteenths
    "13": "1 3 5 b7 2 6", "add13": "1 3 5 b7 2 6", "M13": "1 3 5 7 2 6", "m13": "1 b3 5 b7 2 6",
    # altered / special
    "7b5": "1 3 b5 b7", "hendrix": "1 3 5 b7 b3", "7b12": "1 3 5 b7 b3", "5": "1 5",
}
SUFFIXES = sorted(FORMULAS)                       # 51 incl. the empty suffix
# documented in chord_shorthand_meaning but (F06, property C06) possibly not constructible
C06_SUBJECT = ["7sus4", "add9", "add11", "add13"]


def build(root, suffix):
    return [P.apply_shorthand_up(root, sh) for sh in FORMULAS[suffix].split()]


def shift(name, k):
    """The same letter, k semitones higher (k may be negative)."""
    return P.spell(name[0], P.net(name) + k)


def ln(name):
    """(letter, net accidental): what a note name denotes, whatever the order of its accidentals."""
    return (name[0], P.net(name))


def same_notes(got, want):
    return (isinstance(got, list) and len(got) == len(want) and all(P.is_name(g) for g in got)
            and [ln(g) for g in got] == [ln(w) for w in want])


@functools.lru_cache(maxsize=None)
def key_notes(key):
    """The seven notes of the key (memoised tuple; pure function of the key name)."""
    return tuple(P.notes_of_key(key))


def triads(key):
    n = key_notes(key)
    return [[n[i], n[(i + 2) % 7], n[(i + 4) % 7]] for i in range(7)]


def sevenths(key):
    n = key_notes(key)
    return [[n[i], n[(i + 2) % 7], n[(i + 4) % 7], n[(i + 6) % 7]] for i in range(7)]


_NUM_RE = re.compile(r"^([#b]*)([IViv]*)(.*)$", re.S)


def parse(s):
    """(net accidentals, degree index 0..6 or None, suffix).  The numeral is the maximal run of
    I/V letters (either case) after the accidentals; degree is None when that run is not I..VII."""
    m = _NUM_RE.match(s)
    acc, num, suffix = m.group(1), m.group(2).upper(), m.group(3)
    deg = NUMERALS.index(num) if num in NUMERALS else None
    return acc.count("#") - acc.count("b"), deg, suffix


def fmt(deg, acc, suffix="", lower=False):
    num = NUMERALS[deg].lower() if lower else NUMERALS[deg]
    return ("#" * acc if acc > 0 else "b" * (-acc)) + num + suffix


def degree_root(key, deg, acc=0):
    return shift(key_notes(key)[deg], acc)


def denote(s, key):
    """The chord a numeral string denotes in key, or None for an unrecognised numeral / suffix."""
    got = _denote(s, key)
    return None if got is None else list(got)


@functools.lru_cache(maxsize=200000)
def _denote(s, key):
    acc, deg, suffix = parse(s)
    if deg is None:
        return None
    if suffix == "":
        chord = triads(key)[deg]
    elif suffix == "7":
        chord = sevenths(key)[deg]
    elif suffix in FORMULAS:
        chord = build(key_notes(key)[deg], suffix)
    else:
        return None
    return tuple(shift(n, acc) for n in chord)


def pcs(chord):
    return set(P.pc(n) for n in chord)


def selftest():
    assert len(FORMULAS) == 51 and "" in FORMULAS
    # textbook anchors (not taken from the library)
    assert triads("C") == [["C", "E", "G"], ["D", "F", "A"], ["E", "G", "B"], ["F", "A", "C"], ["G", "B", "D"],
                           ["A", "C", "E"], ["B", "D", "F"]]
    assert sevenths("C")[4] == ["G", "B", "D", "F"] and sevenths("C")[6] == ["B", "D", "F", "A"]
    assert triads("a")[0] == ["A", "C", "E"] and triads("Eb")[4] == ["Bb", "D", "F"]
    assert sevenths("f#")[1] == ["G#", "B", "D", "F#"]
    assert triads("C#")[6] == ["B#", "D#", "F#"] and triads("Cb")[3] == ["Fb", "Ab", "Cb"]
    # diatonic chords of a major key have the textbook qualities
    for key in P.KEYS30[:15]:
        for i in range(7):
            assert same_notes(triads(key)[i], build(P.notes_of_key(key)[i], MAJOR_TRIAD_QUALITY[i])), (key, i)
            assert same_notes(sevenths(key)[i], build(P.notes_of_key(key)[i], MAJOR_SEVENTH_QUALITY[i])), (key, i)
    assert build("C", "m7") == ["C", "Eb", "G", "Bb"] and build("C", "dim7") == ["C", "Eb", "Gb", "Bbb"]
    assert build("A", "m/M7") == ["A", "C", "E", "G#"] and build("C", "7b9") == ["C", "E", "G", "Bb", "Db"]
    assert build("C", "13") == ["C", "E", "G", "Bb", "D", "A"] and build("F", "7#11") == ["F", "A", "C", "Eb", "B"]
    assert build("B#", "dim7") == ["B#", "D#", "F#", "A"] and build("Fb", "dim7") == ["Fb", "Abb", "Cbb", "Ebbb"]
    assert build("D", "sus4") == ["D", "G", "A"] and build("E", "aug") == ["E", "G#", "B#"]
    assert parse("bbVIIdim7") == (-2, 6, "dim7") and parse("#ivm7b5") == (1, 3, "m7b5") and parse("X")[1] is None
    assert parse("VIII")[1] is None and parse("")[1] is None and parse("iii7") == (0, 2, "7")
    assert fmt(6, -2, "dim") == "bbVIIdim" and fmt(1, 1, lower=True) == "#ii"
    assert denote("bII", "C") == ["Db", "Fb", "Ab"] and denote("#I", "C") == ["C#", "E#", "G#"]
    assert denote("V7", "C") == ["G", "B", "D", "F"] and denote("Vdom7", "F") == ["C", "E", "G", "Bb"]
    assert denote("bVIIM7", "C") == ["Bb", "D", "F", "A"] and denote("VIII", "C") is None
    assert shift("Cb", 1) == "C" and shift("F#", 2) == "F###" and shift("Ebb", -1) == "Ebbb"
    assert same_notes(["C#b", "E"], ["C", "E"]) and not same_notes(["Db", "E"], ["C#", "E"])
    return True


if __name__ == "__main__":
    selftest()
    print("ref.harmony ok")
