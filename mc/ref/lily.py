# -*- coding: utf-8 -*-
"""Reader of the LilyPond subset that a score exporter needs.  Never imports mingus.

Written from the LilyPond notation reference (absolute octave entry, Dutch note names):

* pitch      ``c d e f g a b`` + any run of ``is`` (sharp) / ``es`` (flat); the contractions
             ``es``/``as`` (= ``ees``/``aes``) are accepted too.  Without octave marks the note lies in
             the octave *below* middle C (scientific octave 3); each ``'`` raises, each ``,`` lowers
             one octave, so ``c'`` is middle C (C4).
* duration   a power of two ``1 2 4 ... 128`` = that fraction of a whole note, ``\\breve`` = two and
             ``\\longa`` = four whole notes, followed by any number of augmentation dots.
* chord      ``< pitch pitch ... >`` + duration, rest ``r`` + duration.
* grouping   ``{ ... }`` sequential music, ``\\times n/d { ... }`` multiplies the duration of what it
             encloses by n/d (so ``\\times 2/3`` is a 3:2 tuplet).
* ``\\time n/d``, ``\\key <pitch> \\major|\\minor``, ``\\header { field = "string" ... }``,
  ``%`` comments, ``"..."`` strings with ``\\"`` and ``\\\\`` escapes.

Anything else is a ``LilyError``: the reader is strict on purpose, an exporter that emits something
outside the subset must not be silently "understood".

The value of a duration is reported the way musicians write it: ``base`` is the reciprocal of the
length in whole notes as a Fraction (quarter = 4, breve = 1/2, longa = 1/4).
"""
from fractions import Fraction
import re

LETTERS = "cdefgab"


class LilyError(Exception):
    pass


# ---------------------------------------------------------------------------------------
# tokens: (kind, text, start, end)
# ---------------------------------------------------------------------------------------
def tokenize(text):
    toks = []
    i, n = 0, len(text)
    while i < n:
        c = text[i]
        if c in " \t\r\n":
            i += 1
        elif c == "%":
            if text.startswith("%{", i):
                j = text.find("%}", i + 2)
                if j < 0:
                    raise LilyError("unterminated block comment at %d" % i)
                i = j + 2
            else:
                while i < n and text[i] != "\n":
                    i += 1
        elif c in "{}<>=/.":
            toks.append(("sym", c, i, i + 1))
            i += 1
        elif c in "',":
            j = i
            while j < n and text[j] in "',":
                j += 1
            toks.append(("oct", text[i:j], i, j))
            i = j
        elif c == '"':
            j = i + 1
            buf = []
            while True:
                if j >= n:
                    raise LilyError("unterminated string starting at %d" % i)
                if text[j] == "\\":
                    if j + 1 >= n:
                        raise LilyError("dangling backslash in string at %d" % j)
                    buf.append(text[j + 1])
                    j += 2
                elif text[j] == '"':
                    j += 1
                    break
                else:
                    buf.append(text[j])
                    j += 1
            toks.append(("str", "".join(buf), i, j))
            i = j
        elif c == "\\":
            j = i + 1
            while j < n and text[j].isalpha():
                j += 1
            if j == i + 1:
                raise LilyError("backslash without a command name at %d" % i)
            toks.append(("cmd", text[i + 1:j], i, j))
            i = j
        elif c.isalpha():
            j = i
            while j < n and text[j].isalpha():
                j += 1
            toks.append(("word", text[i:j], i, j))
            i = j
        elif c.isdigit():
            j = i
            while j < n and text[j].isdigit():
                j += 1
            toks.append(("num", text[i:j], i, j))
            i = j
        else:
            raise LilyError("unexpected character %r at %d" % (c, i))
    return toks


_PITCH_RE = re.compile(r"^([a-g])((?:is|es)*)$")


def parse_pitch_word(word):
    """'cisis' -> 'C##', 'bes' -> 'Bb', 'es' -> 'Eb'.  None if the word is not a pitch name."""
    if word in ("es", "as"):
        return word[0].upper() + "b"
    if word in ("eses", "ases"):
        return word[0].upper() + "bb"
    m = _PITCH_RE.match(word)
    if not m:
        return None
    acc = m.group(2)
    out = m.group(1).upper()
    for k in range(0, len(acc), 2):
        out += "#" if acc[k:k + 2] == "is" else "b"
    return out


def octave_of(marks):
    if "'" in marks and "," in marks:
        raise LilyError("mixed octave marks %r" % marks)
    return 3 + marks.count("'") - marks.count(",")


# ---------------------------------------------------------------------------------------
# recursive descent
# ---------------------------------------------------------------------------------------
class _Parser(object):
    def __init__(self, text):
        self.toks = tokenize(text)
        self.i = 0

    def peek(self, k=0):
        j = self.i + k
        return self.toks[j] if j < len(self.toks) else None

    def next(self):
        t = self.peek()
        if t is None:
            raise LilyError("unexpected end of input")
        self.i += 1
        return t

    def expect(self, kind, text=None):
        t = self.next()
        if t[0] != kind or (text is not None and t[1] != text):
            raise LilyError("expected %s %r, found %s %r at %d" % (kind, text, t[0], t[1], t[2]))
        return t

    def glued(self, prev):
        """the next token, if it starts exactly where prev ended"""
        t = self.peek()
        return t if (t is not None and t[2] == prev[3]) else None

    # document := (header | music)*
    def document(self):
        header = None
        blocks = []
        while self.peek() is not None:
            t = self.peek()
            if t[0] == "cmd" and t[1] == "header":
                if header is not None:
                    raise LilyError("second \\header block")
                header = self.header()
            elif t[0] == "cmd" and t[1] == "version":
                self.next()
                self.expect("str")
            elif t == ("sym", "{", t[2], t[3]):
                blocks.append(self.music())
            else:
                raise LilyError("unexpected %s %r at top level (%d)" % (t[0], t[1], t[2]))
        return {"header": header, "blocks": blocks}

    def header(self):
        self.expect("cmd", "header")
        self.expect("sym", "{")
        fields = {}
        while True:
            t = self.next()
            if t[0] == "sym" and t[1] == "}":
                return fields
            if t[0] != "word":
                raise LilyError("header field name expected at %d, found %r" % (t[2], t[1]))
            self.expect("sym", "=")
            s = self.expect("str")
            if t[1] in fields:
                raise LilyError("header field %r given twice" % t[1])
            fields[t[1]] = s[1]

    def fraction(self):
        a = self.expect("num")
        self.expect("sym", "/")
        b = self.expect("num")
        return int(a[1]), int(b[1])

    # music := '{' item* '}'
    def music(self):
        self.expect("sym", "{")
        items = []
        while True:
            t = self.peek()
            if t is None:
                raise LilyError("unclosed {")
            if t[0] == "sym" and t[1] == "}":
                self.next()
                return ("seq", items)
            items.append(self.item())

    def item(self):
        t = self.peek()
        if t[0] == "sym" and t[1] == "{":
            return self.music()
        if t[0] == "cmd":
            self.next()
            if t[1] == "time":
                n, d = self.fraction()
                return ("time", n, d)
            if t[1] == "key":
                w = self.expect("word")
                tonic = parse_pitch_word(w[1])
                if tonic is None:
                    raise LilyError("\\key wants a pitch, found %r" % w[1])
                m = self.expect("cmd")
                if m[1] not in ("major", "minor"):
                    raise LilyError("\\key mode %r not in the subset" % m[1])
                return ("key", tonic, m[1])
            if t[1] == "times":
                n, d = self.fraction()
                if n <= 0 or d <= 0:
                    raise LilyError("\\times %d/%d" % (n, d))
                body = self.music()
                return ("times", n, d, body)
            raise LilyError("command \\%s not in the subset (at %d)" % (t[1], t[2]))
        if t[0] == "sym" and t[1] == "<":
            return self.chord()
        if t[0] == "word":
            return self.note_or_rest()
        raise LilyError("unexpected %s %r at %d" % (t[0], t[1], t[2]))

    def pitch(self):
        w = self.expect("word")
        name = parse_pitch_word(w[1])
        if name is None:
            raise LilyError("%r is not a pitch (at %d)" % (w[1], w[2]))
        last = w
        marks = ""
        o = self.glued(last)
        if o is not None and o[0] == "oct":
            self.next()
            marks = o[1]
            octave_of(marks)            # rejects mixed marks at parse time
            last = o
        return (name, marks), last

    def duration(self, last):
        """optional duration glued to the token `last` -> (None | (base, dots))"""
        t = self.glued(last)
        if t is None:
            return None
        if t[0] == "num":
            self.next()
            v = int(t[1])
            if v < 1 or v & (v - 1) or v > 1024:
                raise LilyError("duration %d is not a power of two" % v)
            base = Fraction(v)
        elif t[0] == "cmd" and t[1] in ("breve", "longa", "maxima"):
            self.next()
            base = {"breve": Fraction(1, 2), "longa": Fraction(1, 4), "maxima": Fraction(1, 8)}[t[1]]
        else:
            return None
        dots = 0
        last = t
        while True:
            d = self.glued(last)
            if d is not None and d[0] == "sym" and d[1] == ".":
                self.next()
                dots += 1
                last = d
            else:
                break
        return (base, dots)

    def note_or_rest(self):
        t = self.peek()
        if t[1] == "r":
            self.next()
            return ("event", None, self.duration(t))
        (name, marks), last = self.pitch()
        return ("event", [(name, marks)], self.duration(last))

    def chord(self):
        self.expect("sym", "<")
        notes = []
        while True:
            t = self.peek()
            if t is None:
                raise LilyError("unclosed <")
            if t[0] == "sym" and t[1] == ">":
                close = self.next()
                break
            p, _ = self.pitch()
            notes.append(p)
        if not notes:
            raise LilyError("empty chord")
        return ("event", notes, self.duration(close))


def parse_document(text):
    """-> {'header': dict | None, 'blocks': [music tree, ...]}"""
    return _Parser(text).document()


def parse_music(text):
    """exactly one ``{ ... }`` block -> music tree"""
    d = parse_document(text)
    if d["header"] is not None or len(d["blocks"]) != 1:
        raise LilyError("expected exactly one music block, got %d (+header: %s)" % (len(d["blocks"]), d["header"] is not None))
    return d["blocks"][0]


def parse_fragment(text):
    """music items without the enclosing braces (what an exporter returns for embedding)"""
    return parse_music("{ " + text + " }")


# ---------------------------------------------------------------------------------------
# interpretation
# ---------------------------------------------------------------------------------------
def _event(ev, scale, with_octaves=True):
    notes = None
    if ev[1] is not None:
        notes = []
        for name, marks in ev[1]:
            notes.append((name, octave_of(marks)) if with_octaves else (name, marks))
    dur = ev[2]
    out = {"notes": notes, "base": None, "dots": None, "scale": scale}
    if dur is not None:
        out["base"], out["dots"] = dur
    return out


def flatten(tree, scale=Fraction(1)):
    """Sequence of time/key/event items in reading order; every event carries the product of the
    enclosing ``\\times`` fractions in 'scale' (2/3 for a 3:2 tuplet)."""
    out = []
    for it in tree[1]:
        if it[0] == "seq":
            out.extend(flatten(it, scale))
        elif it[0] == "times":
            out.extend(flatten(it[3], scale * Fraction(it[1], it[2])))
        elif it[0] == "event":
            out.append(("event", _event(it, scale)))
        else:
            out.append(it)
    return out


def read_bar(tree):
    """One bar = one brace group: {'times': [(n,d)..], 'keys': [(tonic, mode)..], 'entries': [...],
    'late': number of \\time/\\key commands that follow an entry of the bar (they would only take
    effect after those entries)}.

    An entry is {'notes': None | [(name, octave)..], 'base': Fraction|None, 'dots': int|None,
    'scale': Fraction}.  The tuplet ratio r1:r2 of an entry is 1/scale."""
    flat = flatten(tree)
    out = {"times": [], "keys": [], "entries": [], "late": 0}
    for x in flat:
        if x[0] == "event":
            out["entries"].append(x[1])
        else:
            out["times" if x[0] == "time" else "keys"].append((x[1], x[2]))
            if out["entries"]:
                out["late"] += 1          # a signature written after entries of its own bar
    return out


def read_track(tree):
    """A track = a brace group whose items are the bars (brace groups)."""
    bars = []
    for it in tree[1]:
        if it[0] != "seq":
            raise LilyError("track level item %r is not a bar group" % (it[0],))
        bars.append(read_bar(it))
    return bars


def read_composition(text):
    d = parse_document(text)
    return {"header": d["header"], "tracks": [read_track(b) for b in d["blocks"]]}


# ---------------------------------------------------------------------------------------
def _ent(notes, base=None, dots=None, scale=Fraction(1)):
    return {"notes": notes, "base": None if base is None else Fraction(base), "dots": dots, "scale": scale}


def selftest():
    # --- anchors from the LilyPond notation reference (absolute octaves, durations, tuplets)
    assert parse_pitch_word("c") == "C" and parse_pitch_word("cis") == "C#" and parse_pitch_word("bes") == "Bb"
    assert parse_pitch_word("ees") == "Eb" and parse_pitch_word("es") == "Eb" and parse_pitch_word("as") == "Ab"
    assert parse_pitch_word("fisis") == "F##" and parse_pitch_word("ceses") == "Cbb" and parse_pitch_word("cises") == "C#b"
    assert parse_pitch_word("composer") is None and parse_pitch_word("r") is None and parse_pitch_word("h") is None
    assert octave_of("") == 3 and octave_of("'") == 4 and octave_of(",,,") == 0 and octave_of("''''") == 7
    b = read_bar(parse_music("{ \\times 2/3 { c'8 d'8 e'8 } f'4 r2. <c e g>\\breve % comment\n }"))
    assert [e["scale"] for e in b["entries"]] == [Fraction(2, 3)] * 3 + [1, 1, 1]
    assert b["entries"][3] == _ent([("F", 4)], 4, 0) and b["entries"][4] == _ent(None, 2, 1)
    assert b["entries"][5] == _ent([("C", 3), ("E", 3), ("G", 3)], Fraction(1, 2), 0)
    b = read_bar(parse_music("{ \\times 2/3 {c8 \\times 4/5 {d16 }}e\\longa.. }"))
    assert [e["scale"] for e in b["entries"]] == [Fraction(2, 3), Fraction(8, 15), 1]
    assert b["entries"][2]["base"] == Fraction(1, 4) and b["entries"][2]["dots"] == 2
    for bad in ["{ c'3 }", "{ c'4", "{ h4 }", "{ <> }", "{ c'4 } }", "{ \\foo c }", "{ c,' }", "{ \\key x \\major }",
                "\\header { title = \"x }", "{ c#4 }", "{ \\times 2/0 { c } }"]:
        try:
            parse_document(bad)
        except LilyError:
            continue
        raise AssertionError("accepted malformed input %r" % bad)
    # a duration separated from its note is not attached to it
    assert read_bar(parse_music("{ c' }"))["entries"] == [_ent([("C", 4)])]
    h = read_composition('\\header { title = "a \\"q\\" {%}" composer = "" opus = "<&>\'" } { { c4 } { } } { }')
    assert h["header"] == {"title": 'a "q" {%}', "composer": "", "opus": "<&>'"}
    assert [len(t) for t in h["tracks"]] == [2, 0]

    # --- the literal expected strings of /repo/tests/integration/test_lilypond.py, decoded to the
    #     music those tests build (written out here as plain data)
    def frag(s):
        e = read_bar(parse_fragment(s))["entries"]
        assert len(e) == 1
        return e[0]

    for s, name, octv in [("c'", "C", 4), ("cis'", "C#", 4), ("cisis'", "C##", 4), ("ces'", "Cb", 4),
                          ("ceses'", "Cbb", 4), ("c,,,", "C", 0), ("c,,", "C", 1), ("c,", "C", 2), ("c", "C", 3),
                          ("c'", "C", 4), ("c''", "C", 5), ("c'''", "C", 6), ("c''''", "C", 7)]:
        assert frag(s) == _ent([(name, octv)]), s
    assert frag("c'4") == _ent([("C", 4)], 4, 0)
    assert frag("<c' e'>") == _ent([("C", 4), ("E", 4)])
    assert frag("<c' e'>4") == _ent([("C", 4), ("E", 4)], 4, 0)
    assert frag("c'16") == _ent([("C", 4)], 16, 0) and frag("c'16.") == _ent([("C", 4)], 16, 1)
    assert frag("c'\\longa") == _ent([("C", 4)], Fraction(1, 4), 0)
    assert frag("c'\\breve") == _ent([("C", 4)], Fraction(1, 2), 0)
    assert frag("c'8.") == _ent([("C", 4)], 8, 1) and frag("c'4..") == _ent([("C", 4)], 4, 2)

    def cegb(v):
        return [_ent([(n, 4)], v, 0) for n in "CEGB"]

    for s, time, key, ents in [
        ("{ \\time 4/4 \\key c \\major c'4 e'4 g'4 b'4 }", (4, 4), ("C", "major"), cegb(4)),
        ("{ \\time 4/4 \\key e \\major c'4 e'4 g'4 b'4 }", (4, 4), ("E", "major"), cegb(4)),
        ("{ \\time 6/8 \\key f \\major c'8 e'8 g'8 b'8 }", (6, 8), ("F", "major"), cegb(8)),
        ("{ \\time 4/4 \\key a \\minor }", (4, 4), ("A", "minor"), []),
        ("{ \\time 4/4 \\key bes \\minor }", (4, 4), ("Bb", "minor"), []),
        ("{ \\time 4/4 \\key fis \\minor }", (4, 4), ("F#", "minor"), []),
    ]:
        b = read_bar(parse_music(s))
        assert b == {"times": [time], "keys": [key], "entries": ents, "late": 0}, s
    t = read_track(parse_music("{ { c'4 e'4 g'4 b'4 } }"))
    assert t == [{"times": [], "keys": [], "entries": cegb(4), "late": 0}]
    t = read_track(parse_music("{ { c'4 e'4 g'4 b'4 } { \\key e \\major c'4 e'4 g'4 b'4 } }"))
    assert t == [{"times": [], "keys": [], "entries": cegb(4), "late": 0},
                 {"times": [], "keys": [("E", "major")], "entries": cegb(4), "late": 0}]
    c = read_composition('\\header { title = "Untitled" composer = "" opus = "" } { { c\'4 e\'4 g\'4 b\'4 } }')
    assert c["header"] == {"title": "Untitled", "composer": "", "opus": ""}
    assert c["tracks"] == [[{"times": [], "keys": [], "entries": cegb(4), "late": 0}]]
    c = read_composition("\\header { title = \"Untitled\" composer = \"\" opus = \"\" } { { c'4 e'4 g'4 b'4 } } "
                         "{ { c'4 e'4 g'4 b'4 } { \\key e \\major c'4 e'4 g'4 b'4 } }")
    assert [len(tr) for tr in c["tracks"]] == [1, 2]
    assert c["tracks"][1][1] == {"times": [], "keys": [("E", "major")], "entries": cegb(4), "late": 0}
    assert read_bar(parse_music("{ c4 \\key d \\minor e4 \\time 3/4 }"))["late"] == 2
    return True


if __name__ == "__main__":
    selftest()
    print("ref.lily ok")
