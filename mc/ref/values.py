# -*- coding: utf-8 -*-
"""The documented note-value vocabulary with exact rational lengths.  Never imports mingus.

An item is (label, float_value, exact_value) where exact_value is the note value as a Fraction
(the reciprocal of the duration in whole notes) and float_value is what a caller obtains from the
plain arithmetic the documentation prescribes (base*3/2 for a triplet, the dotted formula, ...).
The float is computed here with the documented formula, not by calling the library; C09 checks
separately that the library's helpers return these floats.
"""
from fractions import Fraction

BASES = [("longa", Fraction(1, 4)), ("breve", Fraction(1, 2)), ("1", Fraction(1)), ("2", Fraction(2)),
         ("4", Fraction(4)), ("8", Fraction(8)), ("16", Fraction(16)), ("32", Fraction(32)),
         ("64", Fraction(64)), ("128", Fraction(128))]


def dotted_exact(base, dots):
    dur = 1 / Fraction(base)
    return 1 / (dur * (2 - Fraction(1, 2 ** dots)))


def dotted_float(base, dots):
    # the documented formula: (0.5*value) / (1 - 0.5**(dots+1))
    return (0.5 * float(base)) / (1.0 - 0.5 ** (dots + 1))


def _num(fr):
    return int(fr) if fr.denominator == 1 else float(fr)


def vocabulary():
    out = []
    for name, b in BASES:
        out.append((name, _num(b), b, (b, 0, 1, 1)))
        for d in range(1, 5):
            out.append((name + "." * d, dotted_float(b, d), dotted_exact(b, d), (b, d, 1, 1)))
        for (r1, r2) in ((3, 2), (5, 4), (7, 4)):
            out.append(("%s*%d:%d" % (name, r1, r2), (r1 * _num(b)) / float(r2), b * r1 / r2, (b, 0, r1, r2)))
    return out


VALUES = vocabulary()
BY_LABEL = {v[0]: v for v in VALUES}

# quick BFS subset (DESIGN section 3)
VQ_LABELS = ["1", "2", "4", "8", "16", "4.", "8.", "2..", "2*3:2", "4*3:2", "8*3:2", "16*3:2",
             "4*5:4", "8*5:4", "16*5:4", "4*7:4", "8*7:4", "breve"]
VQ = [BY_LABEL[l] for l in VQ_LABELS]


def selftest():
    assert len(VALUES) == 80
    assert BY_LABEL["8."][2] == Fraction(16, 3) and abs(BY_LABEL["8."][1] - 16 / 3.0) < 1e-12
    assert BY_LABEL["4*3:2"][1] == 6.0 and BY_LABEL["16*5:4"][1] == 20.0
    assert [v[1] for v in VQ][:5] == [1, 2, 4, 8, 16]
    return True


if __name__ == "__main__":
    selftest()
    print("ref.values ok")
