# -*- coding: utf-8 -*-
"""Independent reader of ASCII tablature.  Never imports mingus.

Written from the notation, not from the renderer: a *string line* is

    <space><Helmholtz label of the open string><spaces>||<body>

whose body consists of filler (``-`` or blank), fret numbers (runs of decimal digits) and bar
lines (``|``) and ends with a bar line.  A *system* is a maximal run of consecutive string lines;
all its lines must be equally long, start their body in the same column and carry their bar lines
in the same columns.  Everything else in the text (titles, beat marks ``*``, the ``||`` connectors
between the staves of simultaneous tracks, blank lines) is not a string line.

Reading is column by column: inside one bar, fret numbers on different strings that share at
least one column belong to the same *entry* (a chord); entries are ordered by their first column.
The pitch of a fret number is the open string's pitch -- decoded from the label printed on that
very line (Helmholtz: ``C,`` ``C`` ``c`` ``c'`` = octaves 1 2 3 4) -- plus the fret.

Pitch numbering: ``12 * octave + semitone above C`` (c' = C-4 = 48; MIDI key = pitch + 12).
"""
import re

NAT = {"C": 0, "D": 2, "E": 4, "F": 5, "G": 7, "A": 9, "B": 11}


class TabError(Exception):
    """The text is not a well-formed tablature (the message says which rule is broken)."""


_LABEL = re.compile(r"^([A-Ga-g])([#b]*)(,*|'*)$")
_STRING_LINE = re.compile(r"^ ([A-Ga-g][#b]*[,']*) *\|\|(.*)$")


def helmholtz_pitch(label):
    """'E,' -> 16, 'E' -> 28, 'e' -> 40, "e'" -> 52, 'Bb' -> 34."""
    m = _LABEL.match(label)
    if not m:
        raise TabError("not a Helmholtz pitch label: %r" % (label,))
    letter, acc, marks = m.groups()
    if letter.isupper():
        if "'" in marks:
            raise TabError("upper-case Helmholtz label with primes: %r" % (label,))
        octave = 2 - len(marks)
    else:
        if "," in marks:
            raise TabError("lower-case Helmholtz label with commas: %r" % (label,))
        octave = 3 + len(marks)
    return 12 * octave + NAT[letter.upper()] + acc.count("#") - acc.count("b")


def helmholtz_label(name, octave):
    """('E', 2) -> 'E'; ('E', 4) -> "e'"; ('B', 0) -> 'B,,' (the inverse, for test fixtures)."""
    if octave >= 3:
        return name[0].lower() + name[1:] + "'" * (octave - 3)
    return name + "," * (2 - octave)


def _tokens(segment):
    """Maximal digit runs of one string's bar segment: [(first column, last column, number)]."""
    return [(m.start(), m.end() - 1, int(m.group())) for m in re.finditer(r"[0-9]+", segment)]


def _read_bar(segments, opens):
    """segments: the same bar on every string (top line first).  Returns the list of entries, each
    a dict {"pitches": sorted list, "frets": [(row, fret)], "column": first column}."""
    toks = []
    for row, seg in enumerate(segments):
        for (a, b, val) in _tokens(seg):
            toks.append((a, b, row, val))
    toks.sort()
    groups = []
    for t in toks:
        if groups and t[0] <= groups[-1]["last"]:
            g = groups[-1]
            g["last"] = max(g["last"], t[1])
            g["toks"].append(t)
        else:
            groups.append({"first": t[0], "last": t[1], "toks": [t]})
    entries = []
    for g in groups:
        rows = [t[2] for t in g["toks"]]
        if len(set(rows)) != len(rows):
            raise TabError("two fret numbers on one string run into the same entry (columns %d-%d)" % (g["first"], g["last"]))
        fr = sorted((t[2], t[3]) for t in g["toks"])
        entries.append({"pitches": sorted(opens[r] + f for r, f in fr), "frets": fr, "column": g["first"]})
    return entries


def _read_system(lines, first_line_no, read_entries=True):
    labels, bodies = [], []
    for ln in lines:
        m = _STRING_LINE.match(ln)
        labels.append(m.group(1))
        bodies.append(m.group(2))
    where = "system at line %d" % (first_line_no + 1)
    lengths = [len(ln) for ln in lines]
    if len(set(lengths)) != 1:
        raise TabError("%s: string lines are not equally long: %r" % (where, lengths))
    starts = [ln.index("||") for ln in lines]
    if len(set(starts)) != 1:
        raise TabError("%s: bodies do not start in the same column: %r" % (where, starts))
    for b in bodies:
        bad = set(b) - set("-0123456789| ")
        if bad:
            raise TabError("%s: unexpected characters in a string line: %r" % (where, sorted(bad)))
        if not b.endswith("|"):
            raise TabError("%s: a string line does not end with a bar line" % where)
    barcols = [tuple(i for i, c in enumerate(b) if c == "|") for b in bodies]
    if len(set(barcols)) != 1:
        raise TabError("%s: bar lines are not in the same columns on every string" % where)
    opens = [helmholtz_pitch(l) for l in labels]
    bars = []
    prev = 0
    for col in barcols[0]:
        if col == prev:
            # two adjacent bar lines (a double bar): there is no bar in between
            prev = col + 1
            continue
        segs = [b[prev:col] for b in bodies]
        bars.append(_read_bar(segs, opens) if read_entries else None)
        prev = col + 1
    return {"line": first_line_no, "labels": labels, "open": opens, "rows": len(lines),
            "length": lengths[0], "bars": bars}


def parse(text, read_entries=True):
    """All systems of the text, top to bottom (read_entries=False: line structure only, the bars
    are not read -- every bar is None).  Each system: {"labels", "open" (pitches, top line
    first), "rows", "length", "bars": [[entry, ...], ...], "joined": bool}; "joined" is True when
    the system is tied to the previous one by ``||`` connector lines (simultaneous tracks)."""
    lines = text.replace("\r\n", "\n").replace("\r", "\n").split("\n")
    systems = []
    i = 0
    last_end = None
    while i < len(lines):
        if _STRING_LINE.match(lines[i]):
            j = i
            while j < len(lines) and _STRING_LINE.match(lines[j]):
                j += 1
            sysm = _read_system(lines[i:j], i, read_entries)
            between = lines[last_end:i] if last_end is not None else []
            sysm["joined"] = bool(between) and all("||" in b for b in between)
            systems.append(sysm)
            last_end = j
            i = j
        else:
            i += 1
    return systems


def entries(system):
    """The entries of a system, flattened over its bars: list of sorted pitch lists."""
    return [e["pitches"] for bar in system["bars"] for e in bar]


def flat(text):
    """All entries of a text in reading order (systems top to bottom, left to right)."""
    out = []
    for s in parse(text):
        out.extend(entries(s))
    return out


# ------------------------------------------------------------------------------------------
_SMOKE = """
 e' ||-----------------|--0--------------|
 b  ||-----------------|-----3---------1-|
 g  ||-----------------|--------0--------|
 d  ||--0--3--5--0--3--|-----------12----|
 A  ||-----------------|-----------10----|
 E  ||-----------------|--3--------------|
"""

_TWO_TRACKS = """
         *      *      *
 e' ||---0-----------------|
 b  ||---1-------- 9-------|
 g  ||---0--------10-------|
    ||
    ||   *      *      *
 G  ||----------2----------|
 D  ||---------------------|
 A, ||---3-----------------|
 E, ||---------------------|


 e' ||--12--|
 b  ||------|
 g  ||------|
"""


def selftest():
    # anchors: Helmholtz notation (E A d g b e' is the standard guitar, E2 A2 D3 G3 B3 E4), a' = 440 Hz = A4
    assert [helmholtz_pitch(l) for l in ["E", "A", "d", "g", "b", "e'"]] == [28, 33, 38, 43, 47, 52]
    assert helmholtz_pitch("a'") + 12 == 69 and helmholtz_pitch("c'") == 48
    assert helmholtz_pitch("B,,") == 11 and helmholtz_pitch("E,") == 16 and helmholtz_pitch("e''") == 64
    assert helmholtz_pitch("Bb") == 34 and helmholtz_pitch("f#'") == 54
    for name, octave in (("E", 2), ("B", 0), ("A", 4), ("F#", 3), ("Bb", 1)):
        assert helmholtz_pitch(helmholtz_label(name, octave)) == 12 * octave + NAT[name[0]] + name.count("#") - name.count("b")
    s = parse(_SMOKE)
    assert len(s) == 1 and s[0]["rows"] == 6 and len(s[0]["bars"]) == 2 and not s[0]["joined"]
    # bar 1: d string 0 3 5 0 3 = D3 F3 G3 D3 F3
    assert [e["pitches"] for e in s[0]["bars"][0]] == [[38], [41], [43], [38], [41]]
    # bar 2: chord G2+E4, then D4 on the b string, open g, power chord G3+D4 (A10, d12), C4
    assert [e["pitches"] for e in s[0]["bars"][1]] == [[31, 52], [50], [43], [43, 50], [48]]
    t = parse(_TWO_TRACKS)
    assert [x["rows"] for x in t] == [3, 4, 3] and [x["joined"] for x in t] == [False, True, False]
    # a right-aligned ' 9' over '10' is one entry
    assert entries(t[0]) == [[43, 48, 52], [53, 56]] and entries(t[1]) == [[24], [33]]
    assert flat(_TWO_TRACKS)[-1] == [64]
    for bad in (" e' ||--3--|\n b  ||--3---|", " e' ||--3--|--|\n b  ||--3-|---|",
                " e' ||--x--|", " e' ||--3--", " e' ||--3--|\n b ||--3---|"):
        try:
            parse(bad)
        except TabError:
            pass
        else:
            raise AssertionError("accepted malformed tab %r" % (bad,))
    try:
        parse(" e' ||-1-2-|\n b  ||-123-|")
    except TabError:
        pass
    else:
        raise AssertionError("accepted colliding entries")
    return True


if __name__ == "__main__":
    selftest()
    print("ref.tab ok")
