# -*- coding: utf-8 -*-
"""Structural reader of MusicXML ``score-partwise`` documents.  Never imports mingus.

Written from the MusicXML element reference: a ``score-partwise`` has a ``part-list`` of
``score-part`` elements (attribute ``id``, child ``part-name``, optional ``score-instrument`` with
``instrument-name``) and one ``part`` (attribute ``id``, referring to a score-part) per instrument;
a part is a sequence of ``measure`` elements (attribute ``number``); a measure holds ``attributes``
(``divisions`` = how many duration units make one quarter note, ``key`` with ``fifths`` and ``mode``,
``time`` with ``beats`` / ``beat-type``, ``clef``) and ``note`` elements; a note has either a
``pitch`` (``step``, optional ``alter`` in semitones, ``octave`` with 4 = the octave of middle C) or
a ``rest``, a ``duration`` in division units, one ``dot`` per augmentation dot, and an empty
``chord`` element when it sounds together with the preceding note.

The reader is structural: it uses a real XML parser (``xml.etree``; a document that is not
well-formed raises ``MxmlError``), keeps text exactly as the parser delivers it (entities
unescaped, no stripping) and never looks at generated identifiers beyond comparing them with each
other.  Numbers are parsed as exact ``Fraction``s ("32.0" is a legal decimal in MusicXML).
"""
from fractions import Fraction
import xml.etree.ElementTree as ET


class MxmlError(Exception):
    pass


def _text(el):
    """Text content of a leaf element exactly as parsed ('' for an empty element)."""
    if el is None:
        return None
    return "".join(el.itertext())


def _one(parent, tag, required=False):
    found = parent.findall(tag)
    if len(found) > 1:
        raise MxmlError("<%s> occurs %d times in <%s>" % (tag, len(found), parent.tag))
    if not found:
        if required:
            raise MxmlError("<%s> missing in <%s>" % (tag, parent.tag))
        return None
    return found[0]


def _number(el, what):
    if el is None:
        return None
    t = _text(el).strip()
    try:
        return Fraction(t)
    except (ValueError, ZeroDivisionError):
        raise MxmlError("%s is not a number: %r" % (what, t))


def _integer(el, what):
    v = _number(el, what)
    if v is None:
        return None
    if v.denominator != 1:
        raise MxmlError("%s is not an integer: %s" % (what, v))
    return int(v)


def read_note(el):
    pitch = _one(el, "pitch")
    rest = _one(el, "rest")
    if (pitch is None) == (rest is None):
        raise MxmlError("a <note> needs exactly one of <pitch> and <rest>")
    out = {"rest": rest is not None, "step": None, "alter": Fraction(0), "octave": None}
    if pitch is not None:
        step = _text(_one(pitch, "step", True)).strip()
        if step not in ("A", "B", "C", "D", "E", "F", "G"):
            raise MxmlError("<step> %r" % step)
        out["step"] = step
        a = _number(_one(pitch, "alter"), "<alter>")
        out["alter"] = Fraction(0) if a is None else a
        out["octave"] = _integer(_one(pitch, "octave", True), "<octave>")
    out["chord"] = _one(el, "chord") is not None
    out["dots"] = len(el.findall("dot"))
    out["duration"] = _number(_one(el, "duration"), "<duration>")
    out["type"] = _text(_one(el, "type"))
    tm = _one(el, "time-modification")
    out["tuplet"] = None
    if tm is not None:
        out["tuplet"] = (_integer(_one(tm, "actual-notes", True), "<actual-notes>"),
                         _integer(_one(tm, "normal-notes", True), "<normal-notes>"))
    return out


def read_measure(el):
    out = {"number": el.get("number"), "divisions": None, "fifths": None, "mode": None,
           "beats": None, "beat_type": None, "clef": None, "notes": []}
    for child in el:
        if child.tag == "attributes":
            d = _one(child, "divisions")
            if d is not None:
                out["divisions"] = _number(d, "<divisions>")
            key = _one(child, "key")
            if key is not None:
                out["fifths"] = _integer(_one(key, "fifths", True), "<fifths>")
                m = _one(key, "mode")
                out["mode"] = None if m is None else _text(m).strip()
            time = _one(child, "time")
            if time is not None:
                out["beats"] = _text(_one(time, "beats", True)).strip()
                out["beat_type"] = _text(_one(time, "beat-type", True)).strip()
            clef = _one(child, "clef")
            if clef is not None:
                out["clef"] = (_text(_one(clef, "sign", True)).strip(), _text(_one(clef, "line")))
        elif child.tag == "note":
            out["notes"].append(read_note(child))
    return out


def read_score(text):
    """-> {'title', 'creators': [(type, text)], 'part_list': [...], 'parts': [...]}"""
    try:
        root = ET.fromstring(text)
    except ET.ParseError as e:
        raise MxmlError("not well-formed: %s" % e)
    if root.tag != "score-partwise":
        raise MxmlError("root element is <%s>, not <score-partwise>" % root.tag)
    title = _one(root, "movement-title")
    if title is None:
        work = _one(root, "work")
        title = None if work is None else _one(work, "work-title")
    creators = []
    ident = _one(root, "identification")
    if ident is not None:
        for c in ident.findall("creator"):
            creators.append((c.get("type"), _text(c)))
    pl = _one(root, "part-list", True)
    part_list = []
    for sp in pl.findall("score-part"):
        part_list.append({
            "id": sp.get("id"),
            "name": _text(_one(sp, "part-name")),
            "instruments": [{"id": si.get("id"), "name": _text(_one(si, "instrument-name"))}
                            for si in sp.findall("score-instrument")],
            "midi": [{"id": mi.get("id"), "channel": _text(_one(mi, "midi-channel")), "program": _text(_one(mi, "midi-program"))}
                     for mi in sp.findall("midi-instrument")],
        })
    parts = []
    for p in root.findall("part"):
        parts.append({"id": p.get("id"), "measures": [read_measure(m) for m in p.findall("measure")]})
    return {"title": None if title is None else _text(title), "creators": creators,
            "part_list": part_list, "parts": parts}


def effective_attributes(measures):
    """MusicXML attributes stay in force until changed: per measure the values in force."""
    cur = {"divisions": None, "fifths": None, "mode": None, "beats": None, "beat_type": None}
    out = []
    for m in measures:
        if m["divisions"] is not None:
            cur["divisions"] = m["divisions"]
        if m["fifths"] is not None:
            cur["fifths"], cur["mode"] = m["fifths"], m["mode"]
        if m["beats"] is not None:
            cur["beats"], cur["beat_type"] = m["beats"], m["beat_type"]
        out.append(dict(cur))
    return out


_ANCHOR = """<?xml version="1.0" encoding="UTF-8"?>
<score-partwise version="3.1">
  <work><work-title>A &amp; B &lt;"x"&gt; 'y'</work-title></work>
  <identification><creator type="composer">J. S. &#66;ach</creator></identification>
  <part-list>
    <score-part id="P1"><part-name>Music</part-name>
      <score-instrument id="P1-I1"><instrument-name>Tin &amp; whistle</instrument-name></score-instrument>
    </score-part>
  </part-list>
  <part id="P1">
    <measure number="1">
      <attributes>
        <divisions>2</divisions>
        <key><fifths>-3</fifths><mode>minor</mode></key>
        <time><beats>3</beats><beat-type>4</beat-type></time>
        <clef><sign>G</sign><line>2</line></clef>
      </attributes>
      <note><pitch><step>C</step><octave>4</octave></pitch><duration>3</duration><type>quarter</type><dot/></note>
      <note><pitch><step>E</step><alter>-1</alter><octave>4</octave></pitch><duration>1</duration><type>eighth</type></note>
      <note><chord/><pitch><step>G</step><octave>4</octave></pitch><duration>1</duration><type>eighth</type></note>
      <note><rest/><duration>2</duration></note>
    </measure>
    <measure number="2">
      <note><pitch><step>F</step><alter>2</alter><octave>0</octave></pitch><duration>12</duration><dot/><dot/></note>
    </measure>
  </part>
</score-partwise>
"""


def selftest():
    s = read_score(_ANCHOR)
    assert s["title"] == "A & B <\"x\"> 'y'" and s["creators"] == [("composer", "J. S. Bach")]
    assert [p["id"] for p in s["part_list"]] == ["P1"] and s["part_list"][0]["name"] == "Music"
    assert s["part_list"][0]["instruments"] == [{"id": "P1-I1", "name": "Tin & whistle"}]
    ms = s["parts"][0]["measures"]
    assert [m["number"] for m in ms] == ["1", "2"]
    m = ms[0]
    assert (m["divisions"], m["fifths"], m["mode"], m["beats"], m["beat_type"], m["clef"]) == (2, -3, "minor", "3", "4", ("G", "2"))
    n = m["notes"]
    assert [(x["step"], x["alter"], x["octave"], x["chord"], x["dots"], x["duration"], x["rest"]) for x in n] == [
        ("C", 0, 4, False, 1, 3, False), ("E", -1, 4, False, 0, 1, False), ("G", 0, 4, True, 0, 1, False),
        (None, 0, None, False, 0, 2, True)]
    assert n[0]["duration"] / m["divisions"] == Fraction(3, 2)
    eff = effective_attributes(ms)
    assert eff[1]["divisions"] == 2 and eff[1]["fifths"] == -3 and eff[1]["beats"] == "3"
    assert ms[1]["notes"][0]["dots"] == 2 and ms[1]["notes"][0]["alter"] == 2 and ms[1]["divisions"] is None
    for bad in ["<score-partwise><part-list></score-partwise>", "<score-partwise>a & b</score-partwise>",
                "<score-timewise><part-list/></score-timewise>", "<score-partwise/>", "",
                "<score-partwise><part-list/><part id='x'><measure number='1'><note><duration>1</duration></note></measure></part></score-partwise>",
                "<score-partwise><part-list/><part id='x'><measure number='1'><note><rest/><duration>x</duration></note></measure></part></score-partwise>"]:
        try:
            read_score(bad)
        except MxmlError:
            continue
        raise AssertionError("accepted malformed document %r" % bad)
    assert read_score("<score-partwise><part-list/></score-partwise>")["parts"] == []
    assert read_score("<score-partwise><part-list><score-part id='a'><part-name/></score-part></part-list></score-partwise>")["part_list"][0]["name"] == ""
    return True


if __name__ == "__main__":
    selftest()
    print("ref.mxml ok")
