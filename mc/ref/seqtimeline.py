# -*- coding: utf-8 -*-
"""Expected event timeline, in seconds, of playing a score through a sequencer, and the judge
that compares an observed (play / stop / sleep / instrument) stream with it.  Never imports
mingus; written from the definitions, not from the library's code:

* a whole note lasts 240/bpm seconds (a quarter note 60/bpm);
* an entry of note value v lasts 1/v whole notes, entries of a bar follow each other without
  gaps from the bar's beginning, the bars of a voice follow each other;
* MIDI key number = 12 * (octave + 1) + pitch class offset  (middle C = C-4 = 60, A-4 = 69);
* a container carrying a tempo sets the tempo from its own onset on, for everything that sounds
  from then on in any voice;
* voices played together start each bar together (bar k of every voice starts when the longest
  bar k-1 has ended).  Programs for which "every voice runs on its own" would give a different
  timeline are refused with ``Ambiguous`` so that the caller never judges them.

A *program* is JSON-able:

    voices := [voice, ...]                 voice := [bar, ...]            bar := [entry, ...]
    entry  := [value_label, notes, bpm]    notes := None (rest) | [[name, octave, channel, velocity], ...]
    bpm    := None | number  (tempo carried by the entry's container; never on a rest)

An observed *stream* is a list of tuples
    ("on", key, channel, velocity) | ("off", key, channel) | ("sleep", seconds)
    | ("instr", channel, program, bank) | ("cc", channel, control, value)
"""
from __future__ import division

import collections
from fractions import Fraction

from mc.ref import pitch as P
from mc.ref import values as V

TOL_ABS = 1e-7          # seconds; the smallest genuine error in the explored spaces is > 5e-3 s
TOL_REL = 1e-9

# General MIDI level 1 program numbers (0-based) of a few instrument names -- anchors from the
# GM1 sound set, not from the library's table.
GM_PROGRAM = {
    "Acoustic Grand Piano": 0,
    "Harpsichord": 6,
    "Church Organ": 19,
    "Violin": 40,
    "Flute": 73,
    "Gunshot": 127,
}


class Ambiguous(Exception):
    """The program has no single timeline under the readings the statement allows."""


def midi_key(name, octave):
    return P.note_int(name, octave) + 12


_LENGTHS = dict((v[0], 1 / Fraction(v[2])) for v in V.VALUES)


def entry_length(label):
    """Exact duration in whole notes of a vocabulary value."""
    return _LENGTHS[label]


def bar_length(bar):
    return sum((entry_length(e[0]) for e in bar), Fraction(0))


def layout(voices):
    """-> (items, end) with items = [(onset, length, voice, bar index, entry index, notes, bpm)], positions
    in whole notes from the beginning, in voice order then time order."""
    nbars = max([len(v) for v in voices] or [0])
    offset = Fraction(0)
    items = []
    end = Fraction(0)
    for k in range(nbars):
        present = [(vi, v[k]) for vi, v in enumerate(voices) if k < len(v)]
        longest = max(bar_length(b) for _, b in present)
        for vi, b in present:
            if bar_length(b) != longest and k + 1 < len(voices[vi]):
                raise Ambiguous("voice %d continues after a bar shorter than its neighbours" % vi)
            pos = offset
            for ei, e in enumerate(b):
                ln = entry_length(e[0])
                items.append((pos, ln, vi, k, ei, e[1], e[2]))
                pos += ln
            end = max(end, pos)
        offset += longest
    return items, end


def tempo_map(items, bpm):
    """-> sorted [(position, bpm)] starting with (0, initial)."""
    at = {}
    for (pos, ln, vi, k, ei, notes, b) in items:
        if b is None:
            continue
        if notes is None:
            raise Ambiguous("a rest cannot carry a tempo")
        if pos in at and at[pos] != b:
            raise Ambiguous("two tempi at position %s" % pos)
        at[pos] = b
    out = [(Fraction(0), bpm)]
    for pos in sorted(at):
        if pos == 0:
            out[0] = (Fraction(0), at[pos])
        else:
            out.append((pos, at[pos]))
    return out


def seconds_at(tmap, pos):
    """Seconds elapsed from position 0 to ``pos`` under the tempo map (exact)."""
    t = Fraction(0)
    for i, (p, b) in enumerate(tmap):
        nxt = tmap[i + 1][0] if i + 1 < len(tmap) else None
        hi = pos if (nxt is None or nxt > pos) else nxt
        if hi > p:
            t += (hi - p) * Fraction(240) / Fraction(b)
        if nxt is None or nxt >= pos:
            break
    return t


class Expected(object):
    """notes: [(t_on, t_off, key, channel, velocity, voice)] in voice order / entry order / container order;
    total: seconds of the whole program; final_bpm; on_sequence: [(key, channel, velocity)] (only meaningful for a
    single voice)."""

    def __init__(self, voices, bpm):
        items, end = layout(voices)
        self.tmap = tempo_map(items, bpm)
        self.final_bpm = self.tmap[-1][1]
        self.total = seconds_at(self.tmap, end)
        self.end = end
        self.notes = []
        self.entries = len(items)
        self.rests = 0
        for (pos, ln, vi, k, ei, notes, b) in items:
            if notes is None:
                self.rests += 1
                continue
            t0, t1 = seconds_at(self.tmap, pos), seconds_at(self.tmap, pos + ln)
            for (name, octave, channel, velocity) in notes:
                self.notes.append((t0, t1, midi_key(name, octave), channel, velocity, vi))
        self.on_sequence = [(n[2], n[3], n[4]) for n in self.notes]


def close(a, b):
    a, b = float(a), float(b)
    return abs(a - b) <= TOL_ABS + TOL_REL * max(abs(a), abs(b))


def fold(stream):
    """-> (ons [(t, key, ch, vel, index)], offs [(t, key, ch, index)], instr, cc, total slept, bad sleeps)."""
    t = 0.0
    ons, offs, instr, cc, bad = [], [], [], [], []
    for i, ev in enumerate(stream):
        kind = ev[0]
        if kind == "sleep":
            s = ev[1]
            if not isinstance(s, (int, float)) or isinstance(s, bool) or s != s or s < 0 or s == float("inf"):
                bad.append((i, s))
                continue
            t += s
        elif kind == "on":
            ons.append((t, ev[1], ev[2], ev[3], i))
        elif kind == "off":
            offs.append((t, ev[1], ev[2], i))
        elif kind == "instr":
            instr.append((ev[1], ev[2], ev[3], i))
        elif kind == "cc":
            cc.append((ev[1], ev[2], ev[3], i))
        else:
            raise ValueError("unknown stream event %r" % (ev,))
    return ons, offs, instr, cc, t, bad


def _name(key, ch, vel=None):
    return "key %d ch %d" % (key, ch) + ("" if vel is None else " vel %d" % vel)


def judge(exp, stream, sequential):
    """Compare the observed stream with the expected timeline.  Returns a list of
    (site, expected, observed) -- empty when the stream is what the statement demands."""
    out = []
    ons, offs, instr, cc, slept, bad = fold(stream)
    for (i, s) in bad:
        out.append(("sleep #%d" % i, "a non-negative number of seconds", s))
    # -- exactly one play event per sounding note (key, own channel, own velocity) ------------
    want_on = collections.Counter((n[2], n[3], n[4]) for n in exp.notes)
    got_on = collections.Counter((o[1], o[2], o[3]) for o in ons)
    for k in sorted(set(want_on) | set(got_on)):
        if want_on[k] != got_on[k]:
            out.append(("play events for " + _name(*k), want_on[k], got_on[k]))
            break
    # -- exactly one stop event per sounding note (key, channel) ------------------------------
    want_off = collections.Counter((n[2], n[3]) for n in exp.notes)
    got_off = collections.Counter((o[1], o[2]) for o in offs)
    for k in sorted(set(want_off) | set(got_off)):
        if want_off[k] != got_off[k]:
            out.append(("stop events for " + _name(*k), want_off[k], got_off[k]))
            break
    if out:
        return out
    # -- timing: the i-th play/stop of a (key, channel[, velocity]) happens when the model says ----
    e_on = sorted((n[2], n[3], n[4], float(n[0])) for n in exp.notes)
    o_on = sorted((o[1], o[2], o[3], o[0]) for o in ons)
    for e, o in zip(e_on, o_on):
        if not close(e[3], o[3]):
            out.append(("time of a play event for " + _name(*e[:3]), e[3], o[3]))
            break
    e_off = sorted((n[2], n[3], float(n[1])) for n in exp.notes)
    o_off = sorted((o[1], o[2], o[0]) for o in offs)
    for e, o in zip(e_off, o_off):
        if not close(e[2], o[2]):
            out.append(("time of a stop event for " + _name(*e[:2]), e[2], o[2]))
            break
    # -- total time slept ---------------------------------------------------------------------------
    if not close(exp.total, slept):
        out.append(("total time slept", float(exp.total), slept))
    # -- per (key, channel): play and stop alternate, beginning with play, nothing left sounding --
    # (only where the score itself never has the same key sounding twice at once on a channel)
    spans = collections.defaultdict(list)
    for n in exp.notes:
        spans[(n[2], n[3])].append((n[0], n[1]))
    overlapping = set()
    for k, lst in spans.items():
        lst.sort()
        for a, b in zip(lst, lst[1:]):
            if b[0] < a[1]:
                overlapping.add(k)
    seq = collections.defaultdict(list)
    for ev_i, ev in enumerate(stream):
        if ev[0] == "on":
            seq[(ev[1], ev[2])].append("on")
        elif ev[0] == "off":
            seq[(ev[1], ev[2])].append("off")
    for k in sorted(seq):
        if k in overlapping:
            continue
        want = ["on", "off"] * (len(seq[k]) // 2)
        if seq[k] != want:
            out.append(("alternation of play/stop for " + _name(*k), "play, stop, play, stop ...", seq[k]))
            break
    # -- a single voice: the play events come in the order of the notes ---------------------------
    if sequential:
        got_seq = [(o[1], o[2], o[3]) for o in ons]
        if got_seq != exp.on_sequence:
            out.append(("order of the play events", exp.on_sequence, got_seq))
    return out


def expected_program(instrument):
    """instrument := None | ["plain", class name] | ["midi", name, instrument_nr | None]  ->  set of acceptable programs.

    'the MIDI instrument's program, otherwise 1': a MIDI instrument can be identified by its GM name
    (0-based GM1 program) or by its instrument number (1 when never set); where the two disagree
    either is accepted -- the statement does not say which one "the program" is."""
    if instrument is not None and instrument[0] == "bank":
        # ["bank", name, instrument_nr, names]: the instrument's own table decides (recipes keep the number equal to the index)
        return {instrument[3].index(instrument[1]) if instrument[1] in instrument[3] else 1, instrument[2]}
    if instrument is None or instrument[0] != "midi":
        return {1}
    name, nr = instrument[1], instrument[2]
    return {GM_PROGRAM.get(name, 1), 1 if nr is None else nr}


def selftest():
    q = ["4", [["C", 4, 1, 64]], None]
    e = Expected([[[q]]], 120)
    assert e.total == Fraction(1, 2) and e.notes == [(0, Fraction(1, 2), 60, 1, 64, 0)]
    assert midi_key("A", 4) == 69 and midi_key("C", -1) == 0 and midi_key("G", 9) == 127
    # a whole note at 60 bpm lasts four seconds
    assert Expected([[[["1", None, None]]]], 60).total == 4
    # four quarters, the third one switches to 240 bpm: 0.5 + 0.5 + 0.25 + 0.25
    bar = [q, q, ["4", [["E", 4, 1, 64]], 240], q]
    e = Expected([[bar]], 120)
    assert e.total == Fraction(3, 2) and e.final_bpm == 240
    assert [n[0] for n in e.notes] == [0, Fraction(1, 2), 1, Fraction(5, 4)]
    # two voices: halves against quarter triplets (6 per whole note ... three in a half)
    v1 = [[["2", [["C", 4, 1, 64]], None]]]
    v2 = [[["4*3:2", [["E", 4, 2, 64]], None]] * 3]
    e = Expected([v1, v2], 60)
    assert e.total == 2 and sorted(n[1] for n in e.notes) == [Fraction(2, 3), Fraction(4, 3), 2, 2]
    # the judge accepts the right stream and rejects a re-triggered / unbalanced one
    good = [("on", 60, 1, 64), ("on", 64, 2, 64), ("sleep", 2 / 3.0), ("off", 64, 2), ("on", 64, 2, 64),
            ("sleep", 2 / 3.0), ("off", 64, 2), ("on", 64, 2, 64), ("sleep", 2 / 3.0), ("off", 60, 1), ("off", 64, 2)]
    assert judge(e, good, False) == []
    bad = list(good)
    bad.insert(5, ("on", 60, 1, 64))
    assert judge(e, bad, False)
    assert judge(e, good[:-1], False)
    assert judge(e, [g if g[0] != "sleep" else ("sleep", 0.5) for g in good], False)
    # a tempo carried in one voice changes the other voice's clock too
    v1 = [[["4", [["C", 4, 1, 64]], None], ["4", [["D", 4, 1, 64]], 240]]]
    v2 = [[["2", [["E", 4, 2, 64]], None]]]
    e = Expected([v1, v2], 120)
    assert e.total == Fraction(3, 4)
    # bar-synchronous start of the second bars; ambiguity is refused
    full = [q, q, q, q]
    e = Expected([[full, [q]], [full]], 120)
    assert e.total == Fraction(5, 2)
    try:
        Expected([[[q], [q]], [full, [q]]], 120)
        raise AssertionError("ambiguous program accepted")
    except Ambiguous:
        pass
    assert expected_program(None) == {1} and expected_program(["plain", "Piano"]) == {1}
    assert expected_program(["midi", "Violin", None]) == {1, 40} and expected_program(["midi", "Violin", 40]) == {40}
    assert expected_program(["midi", "", 13]) == {1, 13}
    return True


if __name__ == "__main__":
    selftest()
    print("ref.seqtimeline ok")
