# -*- coding: utf-8 -*-
"""Reference pitch arithmetic, written from music-theory definitions.  Never imports mingus."""
from fractions import Fraction
import itertools

LETTERS = "CDEFGAB"
NAT = {"C": 0, "D": 2, "E": 4, "F": 5, "G": 7, "A": 9, "B": 11}
MAJOR_SIZE = [0, 2, 4, 5, 7, 9, 11]          # semitones of major/perfect interval number 1..7
FIFTHS = "FCGDAEB"                           # line of fifths, one letter block


# ---------------------------------------------------------------- names
def is_name(s):
    return isinstance(s, str) and len(s) >= 1 and s[0] in NAT and all(c in "#b" for c in s[1:])


def net(name):
    return name.count("#") - name.count("b")


def pc(name):
    return (NAT[name[0]] + net(name)) % 12


def letter_index(name):
    return LETTERS.index(name[0])


def letter_up(letter, steps):
    return LETTERS[(LETTERS.index(letter) + steps) % 7]


def spell(letter, n):
    """letter with n net accidentals (n>0 sharps, n<0 flats)."""
    return letter + ("#" * n if n > 0 else "b" * (-n))


def canonical(name):
    return spell(name[0], net(name))


def names(k):
    """7 letters x every string over {#, b} of length <= k, all orders."""
    out = []
    for L in LETTERS:
        for n in range(k + 1):
            for acc in itertools.product("#b", repeat=n):
                out.append(L + "".join(acc))
    return out


def canon_names(k):
    """letters x homogeneous runs bb..## (|accidentals| <= k)."""
    return [spell(L, n) for L in LETTERS for n in range(-k, k + 1)]


def homogeneous(name):
    return not ("#" in name and "b" in name)


# ---------------------------------------------------------------- intervals
def interval_up(name, number, semis):
    """The note `number` (1..7) letters above on the letter required, `semis` above in pitch.

    Returns (letter, net accidental) with net normalised into -6..+6 relative to the letter."""
    L = letter_up(name[0], number - 1)
    want = (pc(name) + semis) % 12
    d = (want - NAT[L]) % 12
    if d > 6:
        d -= 12
    return L, d


SHORTHAND_SIZE = {}


def shorthand_semitones(sh):
    """'b3' -> (3, 3); '#4' -> (4, 6); returns (number, semitones)"""
    acc = sh[:-1]
    num = int(sh[-1])
    return num, MAJOR_SIZE[num - 1] + acc.count("#") - acc.count("b")


SH35 = [a + str(d) for a in ("bb", "b", "", "#", "##") for d in range(1, 8)]
SH49 = [a + str(d) for a in ("bb", "b", "", "#", "##", "#b", "b#") for d in range(1, 8)]


def apply_shorthand_up(name, sh):
    """Exact result string of applying interval shorthand upward, canonical spelling."""
    num, semis = shorthand_semitones(sh)
    L = letter_up(name[0], num - 1)
    # net accidentals: do it without modular wrap -- count semitones along the letters
    span = (NAT[L] - NAT[name[0]]) % 12          # natural letter distance ascending
    n = net(name) + semis - span
    return spell(L, n)


def apply_shorthand_down(name, sh):
    num, semis = shorthand_semitones(sh)
    L = letter_up(name[0], -(num - 1))
    span = (NAT[name[0]] - NAT[L]) % 12          # natural distance from L up to name's letter
    n = net(name) - semis + span
    return spell(L, n)


def span_distance(a, b):
    """Ascending distance from a to b counted along the letters they span (may be <0 or >11)."""
    span = (NAT[b[0]] - NAT[a[0]]) % 12
    return span + net(b) - net(a)


QUALITY_NAMES = ["unison", "second", "third", "fourth", "fifth", "sixth", "seventh"]
PERFECT = {1, 4, 5}


def interval_name(a, b):
    """(number 1..7, offset from major/perfect size, long name) for a span distance in 0..11."""
    number = (letter_index(b) - letter_index(a)) % 7 + 1
    D = span_distance(a, b)
    off = D - MAJOR_SIZE[number - 1]
    if off == 0:
        q = "perfect" if number in PERFECT else "major"
    elif off == -1:
        q = "minor"
    elif off < -1:
        q = "diminished"
    else:
        q = "augmented"
    return number, off, q + " " + QUALITY_NAMES[number - 1]


# ---------------------------------------------------------------- keys (line of fifths arithmetic)
def fifths_name(pos):
    """Name at line-of-fifths position pos (C = 0, G = 1, F = -1, F# = 6, Cb = -7...)."""
    idx = pos + 1                      # F is index 0
    return spell(FIFTHS[idx % 7], idx // 7)


def major_key(sig):
    return fifths_name(sig)


def minor_key(sig):
    return fifths_name(sig + 3).lower() if False else _lower_tonic(fifths_name(sig + 3))


def _lower_tonic(n):
    return n[0].lower() + n[1:]


def key_signature_accidentals(sig):
    if sig >= 0:
        return [FIFTHS[i] + "#" for i in range(sig)]
    return [FIFTHS[::-1][i] + "b" for i in range(-sig)]


def key_notes(sig, minor=False):
    """Seven note names of the key with signature sig."""
    tonic = fifths_name(sig + 3) if minor else fifths_name(sig)
    alt = {}
    for a in key_signature_accidentals(sig):
        alt[a[0]] = a[1]
    out = []
    for i in range(7):
        L = letter_up(tonic[0], i)
        out.append(L + alt.get(L, ""))
    return out


MAJOR_KEYS = [(s, major_key(s)) for s in range(-7, 8)]
MINOR_KEYS = [(s, _lower_tonic(fifths_name(s + 3))) for s in range(-7, 8)]
KEYS30 = [k for _, k in MAJOR_KEYS] + [k for _, k in MINOR_KEYS]
KEY_SIG = dict([(k, s) for s, k in MAJOR_KEYS] + [(k, s) for s, k in MINOR_KEYS])


def key_is_minor(key):
    return key[0].islower()


def notes_of_key(key):
    return key_notes(KEY_SIG[key], key_is_minor(key))


# ---------------------------------------------------------------- note values
BASE_VALUES = [Fraction(1, 4), Fraction(1, 2), 1, 2, 4, 8, 16, 32, 64, 128]   # longa .. 128th


def dotted(base, dots):
    """value (a reciprocal-of-duration number) of `base` with `dots` dots, exact."""
    dur = Fraction(1) / Fraction(base)
    total = dur * (2 - Fraction(1, 2 ** dots))
    return 1 / total


def tuplet(base, ratio_num, ratio_den):
    """value of a `ratio_num`:`ratio_den` tuplet of base (3:2 triplet => base*3/2)."""
    return Fraction(base) * ratio_num / ratio_den


# ---------------------------------------------------------------- misc
def note_int(name, octave):
    return 12 * octave + NAT[name[0]] + net(name)


def selftest():
    assert len(names(2)) == 49 and len(names(4)) == 217
    assert pc("Cb") == 11 and pc("B#") == 0 and pc("E##") == 6
    assert KEYS30[:15] == ["Cb", "Gb", "Db", "Ab", "Eb", "Bb", "F", "C", "G", "D", "A", "E", "B", "F#", "C#"]
    assert KEYS30[15:] == ["ab", "eb", "bb", "f", "c", "g", "d", "a", "e", "b", "f#", "c#", "g#", "d#", "a#"]
    assert notes_of_key("D") == ["D", "E", "F#", "G", "A", "B", "C#"]
    assert notes_of_key("c") == ["C", "D", "Eb", "F", "G", "Ab", "Bb"]
    assert notes_of_key("Cb") == ["Cb", "Db", "Eb", "Fb", "Gb", "Ab", "Bb"]
    assert apply_shorthand_up("C", "b3") == "Eb" and apply_shorthand_up("B", "5") == "F#"
    assert apply_shorthand_down("C", "3") == "Ab" and apply_shorthand_down("E", "5") == "A"
    assert apply_shorthand_up("Cb", "bb7") == "Bbbb"
    assert interval_name("C", "E")[2] == "major third" and interval_name("C", "Gb")[2] == "minor fifth"
    assert interval_name("C", "C##")[1] == 2
    assert interval_up("B", 4, 5) == ("E", 0) and interval_up("F", 4, 6) == ("B", 0)
    assert dotted(4, 1) == Fraction(8, 3) and dotted(8, 2) == Fraction(32, 7)
    assert tuplet(4, 3, 2) == 6 and tuplet(4, 5, 4) == 5 and tuplet(4, 7, 4) == 7
    return True


if __name__ == "__main__":
    selftest()
    print("ref.pitch ok")
