# -*- coding: utf-8 -*-
"""Reference data for named intervals, interval names and consonance (C02, C03).

Written from the music-theory definitions; never imports mingus.  Builds on mc.ref.pitch.

Convention taken from the property statements (C03): the size of a named interval is the
major/perfect size of its number plus a quality offset -- 0 for major and perfect, -1 for minor,
+1 for augmented.  That makes a "minor fourth" 4 semitones, a "minor fifth" 6 and a "minor unison"
-1 (i.e. 11 modulo the octave), which is how the library names its constructors.
"""
import re

from mc.ref import pitch as P

NUMBER_WORD = ["unison", "second", "third", "fourth", "fifth", "sixth", "seventh"]
QUALITY_OFFSET = {"minor": -1, "major": 0, "perfect": 0, "augmented": 1}
PERFECT_NUMBERS = (1, 4, 5)

# the 17 named constructors of the statement: (quality, number word)
CONSTRUCTOR_NAMES = (
    [q + "_unison" for q in ("minor", "major", "augmented")]
    + [q + "_" + w for w in ("second", "third") for q in ("minor", "major")]
    + [q + "_" + w for w in ("fourth", "fifth") for q in ("minor", "major", "perfect")]
    + [q + "_" + w for w in ("sixth", "seventh") for q in ("minor", "major")]
)


def constructor_spec(cname):
    """'minor_third' -> (number 3, semitones 3).  Semitones may be -1 (minor unison)."""
    q, w = cname.split("_")
    number = NUMBER_WORD.index(w) + 1
    return number, P.MAJOR_SIZE[number - 1] + QUALITY_OFFSET[q]


CONSTRUCTORS = [(c,) + constructor_spec(c) for c in CONSTRUCTOR_NAMES]
NON_UNISON = [c for c in CONSTRUCTOR_NAMES if not c.endswith("_unison")]
UNISON = [c for c in CONSTRUCTOR_NAMES if c.endswith("_unison")]


def measure(a, b):
    return (P.pc(b) - P.pc(a)) % 12


def perfect_consonant(m, include_fourths):
    return m in (0, 7) or (bool(include_fourths) and m == 5)


def imperfect_consonant(m):
    return m in (3, 4, 8, 9)


def consonant(m, include_fourths):
    return perfect_consonant(m, include_fourths) or imperfect_consonant(m)


def quality_words(number, off):
    """Acceptable quality words for an interval of this number, `off` semitones from the
    major/perfect size.  At offset 0 the statement allows 'major or perfect': both words are
    accepted for the numbers music theory calls perfect (1, 4, 5), 'major' only for the others."""
    if off == 0:
        return ("major", "perfect") if number in PERFECT_NUMBERS else ("major",)
    if off == -1:
        return ("minor",)
    if off < -1:
        return ("diminished",)
    return ("augmented",)


def accepted_long_names(a, b):
    number, off, _ = P.interval_name(a, b)
    return [q + " " + NUMBER_WORD[number - 1] for q in quality_words(number, off)]


_SH = re.compile(r"^([#b]*)([1-7])$")


def parse_shorthand(s):
    """'bb3' -> (3, -2); None when s is not accidentals + one digit 1-7."""
    if not isinstance(s, str):
        return None
    m = _SH.match(s)
    if not m:
        return None
    return int(m.group(2)), m.group(1).count("#") - m.group(1).count("b")


def same_note(x, y):
    """Equal as (letter, net accidentals) -- string equality modulo redundant accidentals."""
    return P.is_name(x) and P.is_name(y) and x[0] == y[0] and P.net(x) == P.net(y)


def is_canonical(name):
    return P.is_name(name) and P.canonical(name) == name


def selftest():
    assert len(CONSTRUCTORS) == 17 and len(NON_UNISON) == 14 and len(UNISON) == 3
    spec = dict((c, (n, s)) for c, n, s in CONSTRUCTORS)
    # textbook sizes (Grove / any harmony primer): m2 1, M2 2, m3 3, M3 4, P4 5, P5 7, m6 8, M6 9, m7 10, M7 11
    for c, want in [("minor_second", (2, 1)), ("major_second", (2, 2)), ("minor_third", (3, 3)),
                    ("major_third", (3, 4)), ("perfect_fourth", (4, 5)), ("perfect_fifth", (5, 7)),
                    ("minor_sixth", (6, 8)), ("major_sixth", (6, 9)), ("minor_seventh", (7, 10)),
                    ("major_seventh", (7, 11))]:
        assert spec[c] == want, (c, spec[c])
    # the library-style names: one semitone below / above the major-perfect size
    assert spec["minor_fifth"] == (5, 6) and spec["minor_fourth"] == (4, 4)      # tritone, = M3 in size
    assert spec["major_fourth"] == spec["perfect_fourth"] and spec["major_fifth"] == spec["perfect_fifth"]
    assert spec["minor_unison"] == (1, -1) and spec["major_unison"] == (1, 0) and spec["augmented_unison"] == (1, 1)
    assert measure("C", "D") == 2 and measure("D", "C") == 10 and measure("B#", "Dbb") == 0
    assert perfect_consonant(5, True) and not perfect_consonant(5, False) and perfect_consonant(7, False)
    assert [m for m in range(12) if consonant(m, True)] == [0, 3, 4, 5, 7, 8, 9]
    assert [m for m in range(12) if not consonant(m, False)] == [1, 2, 5, 6, 10, 11]
    assert accepted_long_names("C", "E") == ["major third"]
    assert accepted_long_names("C", "G") == ["major fifth", "perfect fifth"]
    assert accepted_long_names("C", "Gb") == ["minor fifth"]
    assert accepted_long_names("C", "Ebb") == ["diminished third"]
    assert accepted_long_names("B#", "C") == ["diminished second"]
    assert accepted_long_names("C", "C##") == ["augmented unison"]
    assert parse_shorthand("bb3") == (3, -2) and parse_shorthand("#b4") == (4, 0) and parse_shorthand("7") == (7, 0)
    assert parse_shorthand("8") is None and parse_shorthand("3b") is None and parse_shorthand("") is None
    assert same_note("C#b#", "C#") and not same_note("C#", "Db")
    assert is_canonical("Cbb") and not is_canonical("C#b")
    return True


if __name__ == "__main__":
    selftest()
    print("ref.ivl ok")
