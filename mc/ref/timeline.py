# -*- coding: utf-8 -*-
"""Expected MIDI timeline of a written score, and its comparison with a decoded track.

Never imports mingus.  Input is a neutral *score* (plain tuples/dicts read off the object graph):

    bar   = {"key": "f#", "meter": (6, 8), "entries": [(value, content), ...]}
    content = None (rest) | [] (empty container: nothing sounds) | [(name, octave, channel, velocity), ...]
    track = {"name": str | None, "instrument_nr": int | None, "bars": [bar, ...]}

Definitions used (all from the MIDI / SMF conventions and the property statement, none from the
library's code): 72 ticks per quarter note, hence a whole note is 288 ticks and an entry of value v
lasts round(288 / v) ticks; entries are laid end to end; a rest (or an empty container) only
advances time; MIDI key number = 12 * octave + semitone of the name + 12; key signature = number
of sharps (positive) / flats (negative) of the key on the line of fifths and 0/1 for major/minor.

round() at an exact tie (v = 64 gives 4.5 ticks) is ambiguous between round-half-even (Python) and
round-half-up (textbook); the model is built under one convention at a time and the caller accepts
either (see `conventions_needed`).
"""
import collections
from fractions import Fraction

from mc.ref import pitch as P

TICKS_PER_QUARTER = 72
TICKS_PER_WHOLE = 4 * TICKS_PER_QUARTER
STANDALONE_TICKS = 72
INF = float("inf")


def ticks_exact(value):
    return Fraction(TICKS_PER_WHOLE) / Fraction(value)


def is_tie(value):
    return ticks_exact(value) % 1 == Fraction(1, 2)


def ticks_of(value, convention="even"):
    q = ticks_exact(value)
    fl = q.numerator // q.denominator
    frac = q - fl
    if frac < Fraction(1, 2):
        return fl
    if frac > Fraction(1, 2):
        return fl + 1
    if convention == "up":
        return fl + 1
    return fl if fl % 2 == 0 else fl + 1


def midi_key(name, octave):
    return P.note_int(name, octave) + 12


def key_signature(key):
    """(sf, mi) of a key name such as 'Bb' or 'f#'."""
    return (P.KEY_SIG[key], 1 if P.key_is_minor(key) else 0)


def log2_exact(d):
    n = 0
    while (1 << n) < d:
        n += 1
    if (1 << n) != d:
        raise ValueError("meter unit %r is not a power of two" % (d,))
    return n


def has_tie(bars):
    return any(is_tie(v) for b in bars for (v, _c) in b["entries"])


def sounding(content):
    return content is not None and len(content) > 0


class Timeline(object):
    """Incremental expected timeline of one MIDI track (one MidiTrack / one track chunk)."""

    def __init__(self, convention="even"):
        self.convention = convention
        self.now = 0                  # end of everything written so far, rests included
        self.last_sound_end = 0       # end tick of the last sounding entry
        self.notes = []               # (on tick, off tick, channel, key number, velocity), in writing order
        self.bars = []                # {"start","lo","hi","timesig","keysig"}; window [lo, hi] explained in compare
        self.names = []               # track names that had to be emitted
        self.pending_instrument = None
        self.instruments = []         # (index into self.notes of the first note it applies to, channel, nr)
        self.requested_programs = set()
        self.entries = 0
        self.rest_entries = 0

    # -- writing operations ------------------------------------------------------------
    def _sound(self, notes, length):
        if self.pending_instrument is not None:
            self.instruments.append((len(self.notes), notes[0][2], self.pending_instrument))
            self.pending_instrument = None
        for b in self.bars:
            if b["hi"] is None:
                b["hi"] = self.now
        for (name, octave, channel, velocity) in notes:
            self.notes.append((self.now, self.now + length, channel, midi_key(name, octave), velocity))
        self.now += length
        self.last_sound_end = self.now

    def play_bar(self, bar):
        self.bars.append({"start": self.now, "lo": self.last_sound_end, "hi": None,
                          "timesig": (bar["meter"][0], log2_exact(bar["meter"][1])),
                          "keysig": key_signature(bar["key"])})
        for (value, content) in bar["entries"]:
            length = ticks_of(value, self.convention)
            self.entries += 1
            if sounding(content):
                self._sound(content, length)
            else:
                self.rest_entries += 1
                self.now += length

    def play_track(self, track):
        if track.get("name") is not None:
            self.names.append(track["name"])
        if track.get("instrument_nr") is not None:
            self.pending_instrument = track["instrument_nr"]
            self.requested_programs.add(track["instrument_nr"])
        for bar in track["bars"]:
            self.play_bar(bar)

    def advance_to(self, tick):
        """Silence up to `tick` (used for the reading in which the repeats of the tracks of a
        composition are aligned on the longest track)."""
        self.now = max(self.now, tick)

    def play_standalone(self, notes):
        """A note or a container written on its own: 72 ticks."""
        if sounding(notes):
            self._sound(notes, STANDALONE_TICKS)


def conventions_needed(values):
    """The statement's round(288/value) is the interpreter's round(): half-even at an exact tie (4.5 -> 4).  (The
    round-half-up timeline is still built by the self-test, it is no longer an accepted reading.)"""
    return ["even"]


# ---------------------------------------------------------------------------------------
# comparison of a decoded event list (mc.ref.smf Events) with an expected Timeline
# ---------------------------------------------------------------------------------------
def compare_notes(events, tl):
    """Clause 'decoded notes = written notes'.  Returns a list of (site, expected, observed)."""
    problems = []
    ons = collections.Counter((e.tick, e.channel, e.a, e.b) for e in events if e.kind == "on")
    offs = collections.Counter((e.tick, e.channel, e.a, e.b) for e in events if e.kind == "off")
    want_on = collections.Counter((n[0], n[2], n[3], n[4]) for n in tl.notes)
    want_off = collections.Counter((n[1], n[2], n[3], n[4]) for n in tl.notes)
    if ons != want_on:
        problems.append(("note-on events (tick, channel, key, velocity)",
                         {"missing": sorted((want_on - ons).elements())[:6], "count": sum(want_on.values())},
                         {"unexpected": sorted((ons - want_on).elements())[:6], "count": sum(ons.values())}))
    if offs != want_off:
        problems.append(("note-off events (tick, channel, key, velocity)",
                         {"missing": sorted((want_off - offs).elements())[:6], "count": sum(want_off.values())},
                         {"unexpected": sorted((offs - want_off).elements())[:6], "count": sum(offs.values())}))
    # no note hangs or overlaps itself: per (channel, key) strict on/off alternation ending off
    state = {}
    for e in events:
        if e.kind == "on":
            if state.get((e.channel, e.a)):
                problems.append(("note-on while the same (channel, key) is still sounding", "strict on/off alternation",
                                 {"tick": e.tick, "channel": e.channel, "key": e.a}))
                break
            state[(e.channel, e.a)] = True
        elif e.kind == "off":
            if not state.get((e.channel, e.a)):
                problems.append(("note-off for a (channel, key) that is not sounding", "strict on/off alternation",
                                 {"tick": e.tick, "channel": e.channel, "key": e.a}))
                break
            state[(e.channel, e.a)] = False
    else:
        hanging = sorted(k for k, v in state.items() if v)
        if hanging:
            problems.append(("notes still sounding at end of track", [], hanging[:6]))
    return problems


def compare_meta(events, tl, bpm=None):
    """Tempo, track name, per-bar time/key signature, instrument change."""
    from mc.ref import smf
    problems = []
    # tempo
    if bpm is not None:
        tempos = [(i, e.tick, smf.tempo_of(e)) for i, e in enumerate(events) if e.kind == "meta" and e.a == smf.META_TEMPO]
        want = 60000000 // bpm
        if not tempos:
            problems.append(("set-tempo event", want, "none"))
        else:
            bad = [t[2] for t in tempos if t[2] != want]
            if bad:
                problems.append(("set-tempo value (microseconds per quarter)", want, bad[:4]))
    # names
    names = [e.data for e in events if e.kind == "meta" and e.a == smf.META_NAME]
    if tl.names:
        wanted = set(n.encode("ascii") for n in tl.names)
        if not names:
            problems.append(("track name event", sorted(wanted), "none"))
        elif set(names) != wanted:
            problems.append(("track name event", sorted(wanted), sorted(set(names))))
    # time / key signatures: one pair per bar, in order, with the bar's values; each lies between
    # the end of the last sounding entry before the bar and the start of the next sounding entry
    # (weaker than "exactly at the bar line": inside a rest the statement does not fix the tick)
    tss = [(e.tick, smf.timesig_of(e)[:2]) for e in events if e.kind == "meta" and e.a == smf.META_TIMESIG]
    kss = [(e.tick, smf.keysig_of(e)) for e in events if e.kind == "meta" and e.a == smf.META_KEYSIG]
    for label, got, field in (("time signature", tss, "timesig"), ("key signature", kss, "keysig")):
        want_vals = [b[field] for b in tl.bars]
        got_vals = [g[1] for g in got]
        if got_vals != want_vals:
            problems.append(("%s events, one per bar in order" % label, want_vals[:12], got_vals[:12]))
            continue
        for b, (tick, _v) in zip(tl.bars, got):
            hi = INF if b["hi"] is None else b["hi"]
            if not (b["lo"] <= tick <= hi):
                problems.append(("%s position (tick)" % label,
                                 {"between": [b["lo"], b["hi"]], "bar_starts_at": b["start"]}, tick))
                break
    return problems


def compare_instruments(events, tl):
    """For MIDI instruments: when the first note of the track sounds, the program in effect on that
    note's channel (the last program change on the channel before the note-on) is the instrument
    number, and a bank select (controller 0, any value) on that channel precedes the note.
    Only meaningful when compare_notes found nothing (the note events then are exactly tl.notes)."""
    problems = []
    on_idx = [i for i, e in enumerate(events) if e.kind == "on"]
    for (k, channel, nr) in tl.instruments:
        # the k-th written note is the k-th note-on of the stream (entries are sequential)
        if k >= len(on_idx):
            problems.append(("instrument change", "a note-on number %d" % k, "stream too short"))
            continue
        before = events[:on_idx[k]]
        banks = [(e.channel, e.a, e.b) for e in before if e.kind == "cc"]
        progs = [(e.channel, e.a) for e in before if e.kind == "pc"]
        if not any(c == channel and ctl == 0 for (c, ctl, _v) in banks):
            problems.append(("bank select before the first note", {"controller": 0, "channel": channel},
                             {"controller_events (channel, controller, value)": banks[-4:]}))
        on_channel = [p for (c, p) in progs if c == channel]
        if not on_channel or on_channel[-1] != nr:
            problems.append(("program change before the first note", {"channel": channel, "program": nr},
                             {"program_changes (channel, program)": progs[-4:]}))
    if tl.requested_programs:
        stray = sorted(set(e.a for e in events if e.kind == "pc") - tl.requested_programs)
        if stray:
            problems.append(("program change numbers", sorted(tl.requested_programs), stray))
    return problems


def selftest():
    assert TICKS_PER_WHOLE == 288
    # whole-tick values
    for v, t in ((1, 288), (2, 144), (4, 72), (8, 36), (16, 18), (32, 9), (3, 96), (6, 48), (12, 24), (24, 12),
                 (8 / 3.0, 108), (16 / 3.0, 54), (4 / 3.0, 216), (0.5, 576)):
        assert ticks_of(v) == t and ticks_of(v, "up") == t and not is_tie(v), (v, t)
    # rounding values: 288/20 = 14.4, 288/5 = 57.6, 288/7 = 41.14, 288/128 = 2.25, tie 288/64 = 4.5
    assert ticks_of(20) == 14 and ticks_of(5) == 58 and ticks_of(7) == 41 and ticks_of(128) == 2
    assert is_tie(64) and ticks_of(64, "even") == 4 and ticks_of(64, "up") == 5
    assert is_tie(192) and ticks_of(192, "even") == 2 and ticks_of(192, "up") == 2
    assert conventions_needed([4, 8]) == ["even"] and conventions_needed([4, 64]) == ["even"]
    # middle C = 60, A-4 = 69 (440 Hz), lowest piano A-0 = 21, G-9 = 127 (MIDI 1.0 key numbers)
    assert midi_key("C", 4) == 60 and midi_key("A", 4) == 69 and midi_key("A", 0) == 21 and midi_key("G", 9) == 127
    assert midi_key("Cb", 4) == 59 and midi_key("B#", 3) == 60
    # key signatures (any harmony textbook): D major 2 sharps, Eb major 3 flats, f# minor 3 sharps, c minor 3 flats
    assert key_signature("D") == (2, 0) and key_signature("Eb") == (-3, 0)
    assert key_signature("f#") == (3, 1) and key_signature("c") == (-3, 1) and key_signature("a") == (0, 1)
    assert key_signature("Cb") == (-7, 0) and key_signature("a#") == (7, 1)
    assert log2_exact(4) == 2 and log2_exact(8) == 3 and log2_exact(1) == 0
    # a small score: | r4 C4 (quarter rest, quarter note) | E2 r2 |, track repeated once
    bars = [{"key": "G", "meter": (2, 4), "entries": [(4, None), (4, [("C", 4, 1, 64)])]},
            {"key": "G", "meter": (4, 4), "entries": [(2, [("E", 4, 2, 90)]), (2, None)]}]
    tl = Timeline()
    tl.play_track({"name": "x", "instrument_nr": 5, "bars": bars})
    tl.play_track({"name": "x", "instrument_nr": 5, "bars": bars})
    assert tl.notes == [(72, 144, 1, 60, 64), (144, 288, 2, 64, 90), (504, 576, 1, 60, 64), (576, 720, 2, 64, 90)]
    assert [(b["start"], b["lo"], b["hi"]) for b in tl.bars] == [(0, 0, 72), (144, 144, 144), (432, 288, 504), (576, 576, 576)]
    assert tl.instruments == [(0, 1, 5), (2, 1, 5)] and tl.now == 864 and tl.names == ["x", "x"]
    assert tl.bars[0]["timesig"] == (2, 2) and tl.bars[0]["keysig"] == (1, 0)
    return True


if __name__ == "__main__":
    selftest()
    print("ref.timeline ok")
