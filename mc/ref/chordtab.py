# -*- coding: utf-8 -*-
"""Reference chord table: shorthand -> textual meaning -> formula.  Never imports mingus.

Written from the music-theory definition of each chord *name*.  Which name a shorthand stands for
is taken from the library's documentation (the grouping in the ``from_shorthand`` docstring, e.g.
"'7#5' or 'M7+5'", "'9' or 'add9'", and the published name table), which is the specification of
the notation; what notes a name denotes is theory:

    a formula is a list of (degree, semitones): the note is spelled on the letter ``degree - 1``
    letters above the root's letter and sounds ``semitones`` above the root.

Compound degrees are written on their simple letter (9th = 2, 11th = 4, 13th = 6, the Hendrix
chord's "flat twelfth" = the minor third an octave up = 3).
"""
import itertools

from mc.ref import pitch as P

# ---------------------------------------------------------------- interval vocabulary (degree, semitones)
R = (1, 0)
m2, M2, A2 = (2, 1), (2, 2), (2, 3)
m3, M3 = (3, 3), (3, 4)
P4, A4 = (4, 5), (4, 6)
d5, P5, A5 = (5, 6), (5, 7), (5, 8)
M6 = (6, 9)
d7, m7, M7 = (7, 9), (7, 10), (7, 11)

MAJ = [R, M3, P5]
MIN = [R, m3, P5]
DIM = [R, m3, d5]
AUG = [R, M3, A5]
SUS4 = [R, P4, P5]
DOM7 = MAJ + [m7]
MAJ7 = MAJ + [M7]
MIN7 = MIN + [m7]

# meaning (the chord's name) -> formula
FORMULA = {
    "major triad": MAJ,
    "minor triad": MIN,
    "diminished triad": DIM,
    "augmented triad": AUG,
    "augmented minor seventh": AUG + [m7],
    "augmented major seventh": AUG + [M7],
    "suspended fourth triad": SUS4,
    "suspended second triad": [R, M2, P5],
    "suspended seventh": SUS4 + [m7],
    "suspended fourth ninth": SUS4 + [m2],            # sus4 with a flat ninth
    # the library documents its "eleventh" as the open voicing root, fifth, minor seventh,
    # eleventh (no third, no ninth): eleventh('C') == ['C', 'G', 'Bb', 'F']
    "eleventh": [R, P5, m7, P4],
    "minor seventh": MIN7,
    "major seventh": MAJ7,
    "dominant seventh": DOM7,
    "half diminished seventh": DIM + [m7],
    "diminished seventh": DIM + [d7],
    "minor/major seventh": MIN + [M7],
    "minor sixth": MIN + [M6],
    "major sixth": MAJ + [M6],
    "dominant sixth": MAJ + [M6, m7],
    "sixth ninth": MAJ + [M6, M2],
    "dominant ninth": DOM7 + [M2],
    "dominant flat ninth": DOM7 + [m2],
    "dominant sharp ninth": DOM7 + [A2],
    "major ninth": MAJ7 + [M2],
    "minor ninth": MIN7 + [M2],
    "lydian dominant seventh": DOM7 + [A4],
    "minor eleventh": MIN7 + [P4],
    "major thirteenth": MAJ7 + [M2, M6],
    "minor thirteenth": MIN7 + [M2, M6],
    "dominant thirteenth": DOM7 + [M2, M6],
    "dominant flat five": [R, M3, d5, m7],
    "hendrix chord": DOM7 + [m3],
    "perfect fifth": [R, P5],
    # not documented by the library today (its recogniser emits the name 'M11'); used only when
    # the tree under test knows the shorthand
    "major eleventh": MAJ7 + [M2, P4],
}

# shorthand -> meaning, as documented (51 entries)
MEANING = {
    "m": "minor triad", "M": "major triad", "": "major triad", "dim": "diminished triad",
    "aug": "augmented triad", "+": "augmented triad",
    "7#5": "augmented minor seventh", "M7+5": "augmented minor seventh", "m7+": "augmented minor seventh",
    "M7+": "augmented major seventh", "7+": "augmented major seventh",
    "sus47": "suspended seventh", "7sus4": "suspended seventh",
    "sus4": "suspended fourth triad", "sus": "suspended fourth triad", "sus2": "suspended second triad",
    "11": "eleventh", "add11": "eleventh",
    "sus4b9": "suspended fourth ninth", "susb9": "suspended fourth ninth",
    "m7": "minor seventh", "M7": "major seventh", "7": "dominant seventh", "dom7": "dominant seventh",
    "m7b5": "half diminished seventh", "dim7": "diminished seventh",
    "m/M7": "minor/major seventh", "mM7": "minor/major seventh",
    "m6": "minor sixth", "M6": "major sixth", "6": "major sixth",
    "6/7": "dominant sixth", "67": "dominant sixth", "6/9": "sixth ninth", "69": "sixth ninth",
    "9": "dominant ninth", "add9": "dominant ninth",
    "7b9": "dominant flat ninth", "7#9": "dominant sharp ninth", "M9": "major ninth", "m9": "minor ninth",
    "7#11": "lydian dominant seventh", "m11": "minor eleventh",
    "M13": "major thirteenth", "m13": "minor thirteenth", "13": "dominant thirteenth",
    "add13": "dominant thirteenth",
    "7b5": "dominant flat five", "hendrix": "hendrix chord", "7b12": "hendrix chord",
    "5": "perfect fifth",
}
# shorthands the library does not document; judged only when the tree under test knows them
OPTIONAL_MEANING = {"M11": "major eleventh"}

SHORTHANDS = sorted(MEANING)

# meaning -> names of the builder functions documented for it
BUILDERS = {
    "major triad": ["major_triad"], "minor triad": ["minor_triad"],
    "diminished triad": ["diminished_triad"], "augmented triad": ["augmented_triad"],
    "augmented minor seventh": ["augmented_minor_seventh"],
    "augmented major seventh": ["augmented_major_seventh"],
    "suspended fourth triad": ["suspended_fourth_triad", "suspended_triad"],
    "suspended second triad": ["suspended_second_triad"],
    "suspended seventh": ["suspended_seventh"], "suspended fourth ninth": ["suspended_fourth_ninth"],
    "eleventh": ["eleventh"], "minor seventh": ["minor_seventh"], "major seventh": ["major_seventh"],
    "dominant seventh": ["dominant_seventh"],
    "half diminished seventh": ["half_diminished_seventh", "minor_seventh_flat_five"],
    "diminished seventh": ["diminished_seventh"], "minor/major seventh": ["minor_major_seventh"],
    "minor sixth": ["minor_sixth"], "major sixth": ["major_sixth"], "dominant sixth": ["dominant_sixth"],
    "sixth ninth": ["sixth_ninth"], "dominant ninth": ["dominant_ninth"],
    "dominant flat ninth": ["dominant_flat_ninth"], "dominant sharp ninth": ["dominant_sharp_ninth"],
    "major ninth": ["major_ninth"], "minor ninth": ["minor_ninth"],
    "lydian dominant seventh": ["lydian_dominant_seventh"], "minor eleventh": ["minor_eleventh"],
    "major thirteenth": ["major_thirteenth"], "minor thirteenth": ["minor_thirteenth"],
    "dominant thirteenth": ["dominant_thirteenth"], "dominant flat five": ["dominant_flat_five"],
    "hendrix chord": ["hendrix_chord"],
}

ORDINALS = ["", "first", "second", "third", "fourth", "fifth", "sixth"]


def meaning_of(sh):
    return MEANING.get(sh, OPTIONAL_MEANING.get(sh))


def formula_of(sh):
    m = meaning_of(sh)
    return None if m is None else FORMULA[m]


def slots(root, formula):
    """[(letter, pitch class)] a chord with this formula must have on this root."""
    return [(P.letter_up(root[0], deg - 1), (P.pc(root) + semi) % 12) for deg, semi in formula]


def spelled(root, formula):
    """Exact names, no enharmonic wrap: accidentals = root's + (semitones - natural letter span)."""
    out = []
    for deg, semi in formula:
        L = P.letter_up(root[0], deg - 1)
        span = (P.NAT[L] - P.NAT[root[0]]) % 12
        out.append(P.spell(L, P.net(root) + semi - span))
    return out


def matches(root, formula, chord):
    """None if chord realises formula on root (first note is the root string itself, every other
    note a valid name on the right letter with the right pitch class), else a short reason."""
    if not isinstance(chord, list):
        return "not a list"
    if len(chord) != len(formula):
        return "%d notes instead of %d" % (len(chord), len(formula))
    if chord[0] != root:
        return "first note %r is not the root" % (chord[0],)
    for i, ((L, pc), n) in enumerate(zip(slots(root, formula), chord)):
        if not P.is_name(n):
            return "note %d (%r) is not a note name" % (i, n)
        if n[0] != L:
            return "note %d (%r) is not spelled on %s" % (i, n, L)
        if P.pc(n) != pc:
            return "note %d (%r) has pitch class %d instead of %d" % (i, n, P.pc(n), pc)
    return None


# ---------------------------------------------------------------- alias spellings
M_ALIASES = ["m", "min", "mi", "-"]
MAJ_ALIASES = ["M", "maj", "ma"]
# the 'm' of these is not the minor sign
NO_ALIAS = {"dim", "dim7", "dom7"}


def alias_spellings(sh):
    """Every spelling obtained by writing each quality letter m / M of sh in each documented way."""
    if sh in NO_ALIAS:
        return [sh]
    parts = []
    for c in sh:
        if c == "m":
            parts.append(M_ALIASES)
        elif c == "M":
            parts.append(MAJ_ALIASES)
        else:
            parts.append([c])
    return ["".join(p) for p in itertools.product(*parts)]


_REWRITES = [("min", "m"), ("mi", "m"), ("-", "m"), ("maj", "M"), ("ma", "M")]


def liberal_forms(s):
    """All strings reachable from s by replacing alias spellings by m / M in any order (closure)."""
    seen = {s}
    todo = [s]
    while todo:
        x = todo.pop()
        for a, b in _REWRITES:
            if a in x:
                # replace-all and replace-one-occurrence variants
                cands = {x.replace(a, b)}
                i = x.find(a)
                while i != -1:
                    cands.add(x[:i] + b + x[i + len(a):])
                    i = x.find(a, i + 1)
                for y in cands:
                    if y not in seen:
                        seen.add(y)
                        todo.append(y)
    return seen


def split_root(s):
    """(root, rest) with root = letter + maximal run of accidentals, or None if s has no root."""
    if not s or s[0] not in P.NAT:
        return None
    i = 1
    while i < len(s) and s[i] in "#b":
        i += 1
    return s[:i], s[i:]


def could_be_chord(s, known):
    """Liberal recogniser: True if *some* reading of s is a chord expression over the shorthand
    set ``known`` (simple chord, any number of '/bass' suffixes, any number of '|' partners, NC).
    Only strings for which this is False are 'clearly malformed'."""
    if s in ("NC", "N.C."):
        return True
    for form in liberal_forms(s):
        if _could(form, known):
            return True
    return False


def _could(s, known):
    if "|" in s:
        return all(p in ("NC", "N.C.") or _could(p, known) for p in s.split("|"))
    sr = split_root(s)
    if sr is None:
        return False
    root, rest = sr
    for k in known:
        if not rest.startswith(k):
            continue
        tail = rest[len(k):]
        if tail == "":
            return True
        if tail[0] != "/":
            continue
        if tail.count("/") >= 2:
            return True                  # several '/bass' suffixes: the notation does not define them
        if P.is_name(tail[1:]):
            return True
    return False


def selftest():
    assert len(MEANING) == 51 and set(MEANING.values()) | {"major eleventh"} == set(FORMULA)
    assert set(BUILDERS) == set(MEANING.values()) - {"perfect fifth"}
    # textbook chords (anchors that do not come from the library under test)
    book = {
        ("G", "7"): ["G", "B", "D", "F"], ("B", "dim7"): ["B", "D", "F", "Ab"],
        ("F#", "m7b5"): ["F#", "A", "C", "E"], ("Eb", "M7"): ["Eb", "G", "Bb", "D"],
        ("Db", "M9"): ["Db", "F", "Ab", "C", "Eb"], ("A", "m6"): ["A", "C", "E", "F#"],
        ("Bb", "sus4"): ["Bb", "Eb", "F"], ("D", "13"): ["D", "F#", "A", "C", "E", "B"],
        ("E", "7#9"): ["E", "G#", "B", "D", "F##"], ("C", "dim7"): ["C", "Eb", "Gb", "Bbb"],
        ("F", "7#11"): ["F", "A", "C", "Eb", "B"], ("Ab", "aug"): ["Ab", "C", "E"],
        ("D", "m/M7"): ["D", "F", "A", "C#"], ("E", "sus2"): ["E", "F#", "B"],
        ("B", "7b9"): ["B", "D#", "F#", "A", "C"], ("Gb", "6"): ["Gb", "Bb", "Db", "Eb"],
        ("C#", "m11"): ["C#", "E", "G#", "B", "F#"], ("F", "M13"): ["F", "A", "C", "E", "G", "D"],
        ("A", "5"): ["A", "E"], ("G", "7b5"): ["G", "B", "Db", "F"], ("D", "M7+"): ["D", "F#", "A#", "C#"],
        ("Cb", "dim7"): ["Cb", "Ebb", "Gbb", "Bbbb"], ("C##", "dim7"): ["C##", "E#", "G#", "B"],
    }
    for (root, sh), want in book.items():
        got = spelled(root, formula_of(sh))
        assert got == want, (root, sh, got, want)
        assert matches(root, formula_of(sh), want) is None
    # the documentation's own examples on C (docstrings of the builder functions)
    doc = {
        "m": "C Eb G", "dim": "C Eb Gb", "aug": "C E G#", "M7": "C E G B", "m7": "C Eb G Bb",
        "7": "C E G Bb", "m7b5": "C Eb Gb Bb", "dim7": "C Eb Gb Bbb", "mM7": "C Eb G B",
        "m6": "C Eb G A", "6": "C E G A", "67": "C E G A Bb", "69": "C E G A D", "m9": "C Eb G Bb D",
        "M9": "C E G B D", "9": "C E G Bb D", "7b9": "C E G Bb Db", "7#9": "C E G Bb D#",
        "11": "C G Bb F", "m11": "C Eb G Bb F", "m13": "C Eb G Bb D A", "M13": "C E G B D A",
        "13": "C E G Bb D A", "sus2": "C D G", "sus4": "C F G", "sus47": "C F G Bb",
        "sus4b9": "C F G Db", "M7+": "C E G# B", "m7+": "C E G# Bb", "7b5": "C E Gb Bb",
        "7#11": "C E G Bb F#", "hendrix": "C E G Bb Eb",
    }
    for sh, want in doc.items():
        assert spelled("C", formula_of(sh)) == want.split(), (sh, spelled("C", formula_of(sh)))
    assert matches("C", formula_of("m"), ["C", "E", "G"]) is not None
    assert matches("C", formula_of("dim7"), ["C", "Eb", "Gb", "A"]) is not None      # right pitch, wrong letter
    assert sorted(alias_spellings("m/M7"))[:3] == ["-/M7", "-/ma7", "-/maj7"] and len(alias_spellings("m/M7")) == 12
    assert alias_spellings("dim") == ["dim"] and len(alias_spellings("m7")) == 4
    known = set(MEANING)
    assert could_be_chord("Cmin7", known) and could_be_chord("C#m/M7/G", known) and could_be_chord("Dm|G7", known)
    assert could_be_chord("Cdi-", known) and could_be_chord("Cb5", known)
    assert could_be_chord("C/E/G", known) and could_be_chord("C/E/H", known) and could_be_chord("C6/9/E", known)
    for bad in ["", "H", "c7", "Cx", "C7x", "C/", "C/H", "C|", "|C", "Cmm", "C 7", "C7/9", "Cx/E/G"]:
        assert not could_be_chord(bad, known), bad
    return True


if __name__ == "__main__":
    selftest()
    print("ref.chordtab ok")
