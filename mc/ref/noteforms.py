# -*- coding: utf-8 -*-
"""Reference forms of a single note: pitch number, Hz, Helmholtz text, and the effect of
transposition / augmenting / diminishing on (letter, pitch number).  Never imports mingus.

Octave numbering is the one the property statements use: pitch number = 12 x octave + natural
pitch of the letter + sharps - flats, so C-4 (middle C) = 48 and A-4 = 57.
"""
from mc.ref.pitch import LETTERS, NAT, MAJOR_SIZE, net, letter_up

A4 = 12 * 4 + 9          # 57


# ---------------------------------------------------------------- pitch number
def pitch_number(name, octave):
    return 12 * octave + NAT[name[0]] + name.count("#") - name.count("b")


def octave_of(name, number):
    """The octave label a note called `name` must carry to have pitch number `number`
    (None when no integer octave gives that number)."""
    rest = number - NAT[name[0]] - net(name)
    if rest % 12:
        return None
    return rest // 12


# ---------------------------------------------------------------- Hz (12-tone equal temperament)
def hertz(number, standard_pitch=440.0):
    """Equal temperament: every semitone is a factor 2**(1/12); A-4 is the standard pitch."""
    return float(standard_pitch) * 2.0 ** ((number - A4) / 12.0)


def detune(hz, cents):
    return hz * 2.0 ** (cents / 1200.0)


# ---------------------------------------------------------------- Helmholtz pitch notation
# Definition (Helmholtz 1863, as used in any theory text): the octave starting at the C below
# middle C is the "small" octave written in lower case (c); each higher octave adds a prime
# (c' = middle C, c'', ...); the octave below the small octave is the "great" octave written in
# upper case (C); each lower octave adds a comma (C, = contra, C,, = sub-contra).
# Middle C = C-4 in the octave numbering above, hence small = 3, great = 2.
def helmholtz_natural(letter, octave):
    """Helmholtz text of a natural note (no accidental)."""
    if octave >= 3:
        return letter.lower() + "'" * (octave - 3)
    return letter.upper() + "," * (2 - octave)


def helmholtz_parse_natural(text):
    """Inverse of helmholtz_natural: -> (letter, octave) or None if not of that form."""
    if not text or text[0].upper() not in NAT:
        return None
    head, marks = text[0], text[1:]
    if head.islower():
        if marks.strip("'"):
            return None
        return head.upper(), 3 + len(marks)
    if marks.strip(","):
        return None
    return head, 2 - len(marks)


# ---------------------------------------------------------------- interval shorthands
def shorthand_parts(sh):
    """'b3' -> (3, 3): (interval number 1..7, size in semitones)."""
    acc, num = sh[:-1], int(sh[-1])
    return num, MAJOR_SIZE[num - 1] + acc.count("#") - acc.count("b")


def shorthands_in_range(candidates, lo=0, hi=11):
    return [s for s in candidates if lo <= shorthand_parts(s)[1] <= hi]


def transpose_model(letter, number, sh, up=True):
    """(letter, pitch number) after transposing by interval shorthand `sh`: the letter moves by
    the interval number, the pitch number by the interval size."""
    num, size = shorthand_parts(sh)
    if up:
        return letter_up(letter, num - 1), number + size
    return letter_up(letter, -(num - 1)), number - size


def augment_model(letter, number):
    return letter, number + 1


def diminish_model(letter, number):
    return letter, number - 1


def apply_op(letter, number, op):
    """op = ['transpose', sh, up] | ['augment'] | ['diminish']"""
    if op[0] == "transpose":
        return transpose_model(letter, number, op[1], op[2])
    if op[0] == "augment":
        return augment_model(letter, number)
    if op[0] == "diminish":
        return diminish_model(letter, number)
    raise ValueError("unknown op %r" % (op,))


def selftest():
    # pitch numbers: the statement's formula, anchored on middle C / A-4
    assert pitch_number("C", 4) == 48 and pitch_number("A", 4) == 57 == A4
    assert pitch_number("B#", 3) == 48 and pitch_number("Cb", 4) == 47 and pitch_number("Cbb", 0) == -2
    assert octave_of("B#", 48) == 3 and octave_of("C", 48) == 4 and octave_of("C", 49) is None
    # Hz anchors from the standard equal-temperament table (A0 = 27.5, middle C = 261.6256,
    # C8 = 4186.009, A-4 = 440; baroque pitch 415)
    assert abs(hertz(57) - 440.0) < 1e-12 and abs(hertz(9) - 27.5) < 1e-12
    assert abs(hertz(48) - 261.6255653) < 1e-6 and abs(hertz(96) - 4186.009045) < 1e-5
    assert abs(hertz(57, 415) - 415.0) < 1e-12 and abs(hertz(69, 415) - 830.0) < 1e-9
    assert abs(detune(440.0, 1200) - 880.0) < 1e-9 and abs(detune(440.0, 100) - hertz(58)) < 1e-9
    # Helmholtz anchors: sub-contra C,, = C-0; great C = C-2; small c = C-3; middle C = c';
    # concert pitch a' = A-4; c'''' = C-7 (soprano high C is c''')
    assert helmholtz_natural("C", 0) == "C,," and helmholtz_natural("C", 1) == "C,"
    assert helmholtz_natural("C", 2) == "C" and helmholtz_natural("C", 3) == "c"
    assert helmholtz_natural("C", 4) == "c'" and helmholtz_natural("A", 4) == "a'"
    assert helmholtz_natural("C", 6) == "c'''" and helmholtz_natural("B", 9) == "b''''''"
    for L in LETTERS:
        for o in range(0, 10):
            assert helmholtz_parse_natural(helmholtz_natural(L, o)) == (L, o)
    assert helmholtz_parse_natural("c,") is None and helmholtz_parse_natural("C'") is None
    # intervals: a major third up from A-4 is C#-5 (letter C, 4 semitones); a perfect fifth down
    # from C-4 is F-3; minor second up from B is C
    assert shorthand_parts("3") == (3, 4) and shorthand_parts("b3") == (3, 3) and shorthand_parts("#4") == (4, 6)
    assert shorthand_parts("bb1") == (1, -2) and shorthand_parts("##7") == (7, 13) and shorthand_parts("bb2") == (2, 0)
    assert transpose_model("A", 57, "3") == ("C", 61) and octave_of("C#", 61) == 5
    assert transpose_model("C", 48, "5", False) == ("F", 41) and octave_of("F", 41) == 3
    assert transpose_model("B", 59, "b2") == ("C", 60) and transpose_model("C", 48, "7", False) == ("D", 37)
    from mc.ref.pitch import SH35
    ok = shorthands_in_range(SH35)
    assert len(ok) == 31 and "bb1" not in ok and "b1" not in ok and "#7" not in ok and "##7" not in ok and "bb2" in ok
    assert apply_op("C", 48, ["augment"]) == ("C", 49) and apply_op("C", 48, ["diminish"]) == ("C", 47)
    return True


if __name__ == "__main__":
    selftest()
    print("ref.noteforms ok")
