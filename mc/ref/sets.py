# -*- coding: utf-8 -*-
"""Reference model of a note container: a duplicate-free set of notes keyed by pitch, kept in
ascending pitch order, with the upward-voicing rule for bare names.  Never imports mingus.

A note is a pair (name, octave); its pitch is 12*octave + natural pitch of the letter + sharps -
flats (scientific pitch arithmetic, C-0 = 0).  Written from the definitions, not from the library:

* a set holds at most one note per pitch; adding a note whose pitch is present changes nothing;
* a bare name is voiced at the unique pitch p of that spelling with top <= p < top + 12 where
  top is the highest pitch present (octave 4 when the set is empty);
* removal by name takes that spelling out of every octave, by (name, octave) only that note,
  by note every note of that pitch (at most one);
* the interval classes: perfect consonance = 0 or 7 semitones (and 5 when fourths count),
  imperfect consonance = 3, 4, 8, 9; consonant = either; dissonant = not consonant, where the
  pairwise dissonance predicate's flag has the opposite polarity ("include fourths among the
  dissonances").
"""
from mc.ref.pitch import NAT, net, pc


def pitch(note):
    name, octave = note
    return 12 * octave + NAT[name[0]] + net(name)


def voice(name, top):
    """(name, octave) of bare `name` voiced upward from the pitch `top` (None = empty set)."""
    if top is None:
        return (name, 4)
    base = NAT[name[0]] + net(name)
    octave = -((base - top) // 12)              # ceil((top - base) / 12)
    return (name, octave)


class RefSet(object):
    def __init__(self, notes=()):
        self.notes = []                         # [(name, octave)] ascending, unique pitch
        for n in notes:
            self.add(n[0], n[1])

    # ---------------------------------------------------------------- queries
    def pitches(self):
        return [pitch(n) for n in self.notes]

    def top(self):
        return pitch(self.notes[-1]) if self.notes else None

    def has_pitch(self, p):
        return p in self.pitches()

    def __len__(self):
        return len(self.notes)

    def names(self):
        out = []
        for n, _ in self.notes:
            if n not in out:
                out.append(n)
        return out

    def copy(self):
        r = RefSet()
        r.notes = list(self.notes)
        return r

    # ---------------------------------------------------------------- updates
    def resolve(self, name, octave=None):
        """The note an addition of (name, octave|None) denotes in the current state."""
        if octave is None:
            return voice(name, self.top())
        return (name, octave)

    def add(self, name, octave=None):
        """Returns (note, index of an existing note of that pitch or None)."""
        note = self.resolve(name, octave)
        p = pitch(note)
        ps = self.pitches()
        if p in ps:
            return note, ps.index(p)
        self.notes.append(note)
        self.notes.sort(key=pitch)
        return note, None

    def remove_name(self, name):
        self.notes = [n for n in self.notes if n[0] != name]

    def remove_name_octave(self, name, octave):
        self.notes = [n for n in self.notes if n != (name, octave)]

    def remove_pitch(self, p):
        self.notes = [n for n in self.notes if pitch(n) != p]

    # ---------------------------------------------------------------- consonance
    def pairs(self):
        """ordered (lower, higher) name pairs"""
        out = []
        for i in range(len(self.notes)):
            for j in range(i + 1, len(self.notes)):
                out.append((self.notes[i][0], self.notes[j][0]))
        return out

    def all_pairs(self, pred):
        return all(pred(a, b) for a, b in self.pairs())

    def any_pair(self, pred):
        return any(pred(a, b) for a, b in self.pairs())


def measure(a, b):
    return (pc(b) - pc(a)) % 12


def perfect(a, b, fourths=True):
    m = measure(a, b)
    return m in (0, 7) or (fourths and m == 5)


def imperfect(a, b):
    return measure(a, b) in (3, 4, 8, 9)


def consonant(a, b, fourths=True):
    return perfect(a, b, fourths) or imperfect(a, b)


def dissonant(a, b, fourths=False):
    """fourths=True: count the perfect fourth among the dissonances."""
    return not consonant(a, b, not fourths)


def selftest():
    # anchors: textbook close-position voicings and pitch arithmetic (scientific pitch notation,
    # middle C = C-4 = 48 in the C-0 = 0 numbering)
    assert pitch(("C", 4)) == 48 and pitch(("A", 4)) == 57 and pitch(("B#", 3)) == 48 and pitch(("Cb", 5)) == 59
    s = RefSet()
    for n in ("C", "E", "G"):
        s.add(n)
    assert s.notes == [("C", 4), ("E", 4), ("G", 4)]
    s = RefSet()
    for n in ("A", "C", "E"):
        s.add(n)
    assert s.notes == [("A", 4), ("C", 5), ("E", 5)]        # A minor triad in close position
    s = RefSet()
    for n in ("G", "B", "D", "F"):
        s.add(n)
    assert s.notes == [("G", 4), ("B", 4), ("D", 5), ("F", 5)]   # G7 in close position
    # enharmonic duplicates: B# above middle C is middle C again (less than an octave above)
    s = RefSet()
    s.add("C")
    assert s.add("B#") == (("B#", 3), 0) and s.notes == [("C", 4)]
    s = RefSet()
    s.add("Cb")
    assert s.add("B") == (("B", 3), 0) and len(s) == 1
    s = RefSet()
    s.add("B")
    assert s.add("Cbb")[0] == ("Cbb", 6) and s.pitches() == [59, 70]
    # explicit octaves, sorting, removal
    s = RefSet([("G", 5), ("C", 3), ("C", 5), ("Eb", 4)])
    assert s.notes == [("C", 3), ("Eb", 4), ("C", 5), ("G", 5)]
    assert s.add("D#", 4) == (("D#", 4), 1) and len(s) == 4
    t = s.copy()
    t.remove_name("C")
    assert t.notes == [("Eb", 4), ("G", 5)]
    t = s.copy()
    t.remove_name_octave("C", 5)
    assert t.notes == [("C", 3), ("Eb", 4), ("G", 5)]
    t = s.copy()
    t.remove_pitch(pitch(("D#", 4)))
    assert t.notes == [("C", 3), ("C", 5), ("G", 5)]
    assert s.names() == ["C", "Eb", "G"]
    # interval classes (Fux: unison, fifth, octave perfect; thirds and sixths imperfect)
    assert perfect("C", "G") and perfect("C", "C") and perfect("C", "F") and not perfect("C", "F", False)
    assert imperfect("C", "E") and imperfect("C", "Eb") and imperfect("C", "A") and imperfect("C", "Ab")
    assert dissonant("C", "D") and dissonant("C", "B") and dissonant("C", "F#") and not dissonant("C", "F")
    assert dissonant("C", "F", True) and not dissonant("C", "G", True)
    assert RefSet([("C", 4), ("E", 4), ("G", 4)]).all_pairs(consonant)
    assert not RefSet([("C", 4), ("E", 4), ("G", 4), ("B", 4)]).all_pairs(consonant)
    return True


if __name__ == "__main__":
    selftest()
    print("ref.sets ok")
