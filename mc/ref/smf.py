# -*- coding: utf-8 -*-
"""Strict Standard MIDI File reader + the textbook variable-length quantity.  Never imports mingus.

Written from "Standard MIDI Files 1.0" (MMA, RP-001):

* a file is a sequence of chunks ``<4 byte type><32 bit big-endian length><length bytes>``;
  the first chunk is ``MThd`` with ``<format:16><ntrks:16><division:16>`` (length 6 in SMF 1.0);
  ``ntrks`` track chunks ``MTrk`` follow;
* a track chunk is a sequence of ``<delta-time VLQ><event>``; an event is a channel message
  (status 0x8n..0xEn followed by 2 data bytes, 1 for 0xCn/0xDn; *running status*: the status byte
  may be omitted when it equals the previous channel status), a sysex event
  ``F0|F7 <VLQ length> <bytes>`` or a meta event ``FF <type> <VLQ length> <bytes>``;
  meta and sysex events cancel running status; the last event of every track is the
  end-of-track meta event ``FF 2F 00`` and it occurs exactly once;
* a variable-length quantity stores 7 bits per byte, most significant group first, bit 7 set on
  every byte but the last; the largest number allowed is 0x0FFFFFFF, i.e. at most 4 bytes.

"Strict" means: every length must be exact, every data byte < 0x80, VLQs must be canonical (no
leading 0x80 group) and at most four bytes, the fixed-length meta events must have their fixed
length, nothing may follow the last declared chunk.  ``parse`` returns absolute-tick event lists.
"""
import collections

MAX_VLQ = 0x0FFFFFFF


class SMFError(Exception):
    pass


# ------------------------------------------------------------------ variable-length quantity
def vlq_encode(n):
    """Textbook encoder: 7-bit groups, most significant first, continuation bit on all but last."""
    if not isinstance(n, int) or isinstance(n, bool) or n < 0 or n > MAX_VLQ:
        raise ValueError("not representable as a variable-length quantity: %r" % (n,))
    groups = [n & 0x7F]
    n >>= 7
    while n:
        groups.append((n & 0x7F) | 0x80)
        n >>= 7
    groups.reverse()
    return bytes(groups)


def vlq_encode_fast(n):
    """The same function unrolled for the four possible lengths (used by the 2^28 sweep)."""
    if n < 0x80:
        return bytes((n,))
    if n < 0x4000:
        return bytes((0x80 | (n >> 7), n & 0x7F))
    if n < 0x200000:
        return bytes((0x80 | (n >> 14), 0x80 | ((n >> 7) & 0x7F), n & 0x7F))
    return bytes((0x80 | (n >> 21), 0x80 | ((n >> 14) & 0x7F), 0x80 | ((n >> 7) & 0x7F), n & 0x7F))


def vlq_decode(buf, pos=0, end=None, strict=True):
    """Decode one VLQ at buf[pos:]; returns (value, new position)."""
    end = len(buf) if end is None else end
    value = 0
    n = 0
    while True:
        if pos >= end:
            raise SMFError("variable-length quantity runs past the end of its chunk (offset %d)" % pos)
        b = buf[pos]
        pos += 1
        n += 1
        if strict and n == 1 and b == 0x80:
            raise SMFError("non-canonical variable-length quantity (leading 0x80) at offset %d" % (pos - 1))
        if n > 4:
            raise SMFError("variable-length quantity longer than 4 bytes at offset %d" % (pos - n))
        value = (value << 7) | (b & 0x7F)
        if not b & 0x80:
            return value, pos


# ------------------------------------------------------------------ events
Event = collections.namedtuple("Event", "tick delta kind channel a b data running")
# kind: 'off','on','poly','cc','pc','cp','pb' (channel messages; a, b = data bytes, b None for pc/cp)
#       'meta' (a = meta type, data = payload), 'sysex' (a = 0xF0/0xF7, data = payload)

_CHANNEL_KINDS = {0x8: ("off", 2), 0x9: ("on", 2), 0xA: ("poly", 2), 0xB: ("cc", 2),
                  0xC: ("pc", 1), 0xD: ("cp", 1), 0xE: ("pb", 2)}
_FIXED_META_LENGTH = {0x00: (0, 2), 0x20: (1,), 0x21: (1,), 0x2F: (0,), 0x51: (3,), 0x54: (5,), 0x58: (4,), 0x59: (2,)}

META_TEXT, META_NAME, META_EOT, META_TEMPO, META_TIMESIG, META_KEYSIG = 0x01, 0x03, 0x2F, 0x51, 0x58, 0x59


def parse_track(buf, pos, end):
    """Events of the track whose *content* is buf[pos:end].  Strict."""
    events = []
    tick = 0
    running = None
    seen_eot = False
    while pos < end:
        if seen_eot:
            raise SMFError("event after end-of-track at offset %d" % pos)
        delta, pos = vlq_decode(buf, pos, end)
        tick += delta
        if pos >= end:
            raise SMFError("delta time without an event at offset %d" % pos)
        status = buf[pos]
        used_running = False
        if status < 0x80:
            if running is None:
                raise SMFError("data byte 0x%02x where a status byte is required (no running status) at offset %d" % (status, pos))
            status = running
            used_running = True
        else:
            pos += 1
        hi = status >> 4
        if hi in _CHANNEL_KINDS:
            kind, nd = _CHANNEL_KINDS[hi]
            if pos + nd > end:
                raise SMFError("channel message truncated at offset %d" % pos)
            data = buf[pos:pos + nd]
            for d in data:
                if d >= 0x80:
                    raise SMFError("data byte 0x%02x >= 0x80 in a channel message at offset %d" % (d, pos))
            pos += nd
            running = status
            events.append(Event(tick, delta, kind, status & 0x0F, data[0], data[1] if nd == 2 else None, None, used_running))
        elif status == 0xFF:
            if pos >= end:
                raise SMFError("meta event truncated at offset %d" % pos)
            mtype = buf[pos]
            pos += 1
            if mtype >= 0x80:
                raise SMFError("meta event type 0x%02x >= 0x80 at offset %d" % (mtype, pos - 1))
            length, pos = vlq_decode(buf, pos, end)
            if pos + length > end:
                raise SMFError("meta event 0x%02x of length %d runs past the end of the track chunk" % (mtype, length))
            data = bytes(buf[pos:pos + length])
            pos += length
            if mtype in _FIXED_META_LENGTH and length not in _FIXED_META_LENGTH[mtype]:
                raise SMFError("meta event 0x%02x has length %d, must be %s" % (mtype, length, _FIXED_META_LENGTH[mtype]))
            if mtype == META_KEYSIG:
                sf = data[0] - 256 if data[0] > 127 else data[0]
                if not -7 <= sf <= 7 or data[1] not in (0, 1):
                    raise SMFError("key signature meta event out of range: sf=%d mi=%d" % (sf, data[1]))
            if mtype == META_TIMESIG and data[0] == 0:
                raise SMFError("time signature with numerator 0")
            if mtype == META_TEMPO and int.from_bytes(data, "big") == 0:
                raise SMFError("tempo of 0 microseconds per quarter note")
            if mtype == META_EOT:
                seen_eot = True
            running = None
            events.append(Event(tick, delta, "meta", None, mtype, None, data, False))
        elif status in (0xF0, 0xF7):
            length, pos = vlq_decode(buf, pos, end)
            if pos + length > end:
                raise SMFError("sysex event of length %d runs past the end of the track chunk" % length)
            data = bytes(buf[pos:pos + length])
            pos += length
            running = None
            events.append(Event(tick, delta, "sysex", None, status, None, data, False))
        else:
            raise SMFError("status byte 0x%02x is not allowed in a MIDI file (offset %d)" % (status, pos - 1))
    if not seen_eot:
        raise SMFError("track chunk does not end in an end-of-track meta event")
    return events


SMF = collections.namedtuple("SMF", "format ntrks division header_length tracks chunk_lengths")


def parse(data, strict_header_length=True, allow_alien_chunks=False):
    """Parse a whole file.  Returns SMF(format, ntrks, division, header_length, tracks, chunk_lengths)
    where tracks is a list of Event lists (absolute ticks).  Raises SMFError on any malformation."""
    if not isinstance(data, (bytes, bytearray)):
        raise SMFError("not bytes")
    data = bytes(data)
    if len(data) < 14:
        raise SMFError("shorter than a header chunk (%d bytes)" % len(data))
    if data[0:4] != b"MThd":
        raise SMFError("file does not start with MThd")
    hlen = int.from_bytes(data[4:8], "big")
    if hlen < 6 or (strict_header_length and hlen != 6):
        raise SMFError("header chunk length %d, expected 6" % hlen)
    if 8 + hlen > len(data):
        raise SMFError("header chunk runs past the end of the file")
    fmt = int.from_bytes(data[8:10], "big")
    ntrks = int.from_bytes(data[10:12], "big")
    division = int.from_bytes(data[12:14], "big")
    if fmt not in (0, 1, 2):
        raise SMFError("format %d is not 0, 1 or 2" % fmt)
    if fmt == 0 and ntrks != 1:
        raise SMFError("format 0 file declaring %d tracks" % ntrks)
    if division & 0x8000:
        fps = 256 - (division >> 8)
        if fps not in (24, 25, 29, 30):
            raise SMFError("SMPTE division with %d frames per second" % fps)
    elif division == 0:
        raise SMFError("division of 0 ticks per quarter note")
    pos = 8 + hlen
    tracks, lengths = [], []
    while pos < len(data):
        if pos + 8 > len(data):
            raise SMFError("%d stray bytes after the last chunk" % (len(data) - pos))
        tag = data[pos:pos + 4]
        clen = int.from_bytes(data[pos + 4:pos + 8], "big")
        body, end = pos + 8, pos + 8 + clen
        if end > len(data):
            raise SMFError("chunk %r declares %d bytes but only %d remain" % (tag, clen, len(data) - body))
        if tag == b"MTrk":
            # the events must use up the declared length exactly and end in end-of-track:
            # a length field that is too short cuts an event / leaves no end-of-track, one that is
            # too long swallows the next chunk header as events
            tracks.append(parse_track(data, body, end))
            lengths.append(clen)
        elif not allow_alien_chunks:
            raise SMFError("unexpected chunk type %r at offset %d" % (tag, pos))
        pos = end
    if len(tracks) != ntrks:
        raise SMFError("header declares %d tracks, %d track chunks follow" % (ntrks, len(tracks)))
    return SMF(fmt, ntrks, division, hlen, tracks, lengths)


# ------------------------------------------------------------------ small decoders used by oracles
def tempo_of(ev):
    return int.from_bytes(ev.data, "big")


def timesig_of(ev):
    """(numerator, log2 denominator, clocks per click, 32nds per quarter)"""
    return tuple(ev.data)


def keysig_of(ev):
    """(sf, mi): sf = -7..7 (flats negative), mi = 0 major / 1 minor"""
    return (ev.data[0] - 256 if ev.data[0] > 127 else ev.data[0], ev.data[1])


# ------------------------------------------------------------------ self-test
# Anchors: the examples printed in the SMF 1.0 specification itself.
_SPEC_VLQ = [(0x00000000, "00"), (0x00000040, "40"), (0x0000007F, "7F"), (0x00000080, "81 00"),
             (0x00002000, "C0 00"), (0x00003FFF, "FF 7F"), (0x00004000, "81 80 00"),
             (0x00100000, "C0 80 00"), (0x001FFFFF, "FF FF 7F"), (0x00200000, "81 80 80 00"),
             (0x08000000, "C0 80 80 00"), (0x0FFFFFFF, "FF FF FF 7F")]

# the format 0 example of the specification (appendix), byte for byte
_SPEC_FORMAT0 = bytes.fromhex(
    "4D546864 00000006 0000 0001 0060"
    "4D54726B 0000003B"
    "00 FF 58 04 04 02 18 08"
    "00 FF 51 03 07 A1 20"
    "00 C0 05" "00 C1 2E" "00 C2 46"
    "00 92 30 60" "00 3C 60"
    "60 91 43 40" "60 90 4C 20"
    "81 40 82 30 40" "00 3C 40" "00 81 43 40" "00 80 4C 40"
    "00 FF 2F 00".replace(" ", ""))


def _rejects(data, **kw):
    try:
        parse(data, **kw)
    except SMFError:
        return True
    return False


def selftest():
    for n, hx in _SPEC_VLQ:
        b = bytes.fromhex(hx.replace(" ", ""))
        assert vlq_encode(n) == b and vlq_encode_fast(n) == b, (n, hx)
        assert vlq_decode(b) == (n, len(b))
    for n in list(range(0, 70000)) + [2 ** k + d for k in (14, 21, 28) for d in range(-300, 300) if 2 ** k + d <= MAX_VLQ]:
        assert vlq_encode(n) == vlq_encode_fast(n)
        assert vlq_decode(vlq_encode(n)) == (n, len(vlq_encode(n)))
    for bad in (b"\x80\x00", b"\x81\x80\x80\x80\x00", b"\x81", b""):
        try:
            vlq_decode(bad)
            assert False, bad
        except SMFError:
            pass
    try:
        vlq_encode(MAX_VLQ + 1)
        assert False
    except ValueError:
        pass
    f = parse(_SPEC_FORMAT0)
    assert (f.format, f.ntrks, f.division, f.header_length) == (0, 1, 96, 6) and f.chunk_lengths == [0x3B]
    ev = f.tracks[0]
    assert len(ev) == 14 and timesig_of(ev[0]) == (4, 2, 24, 8) and tempo_of(ev[1]) == 500000
    assert [(e.kind, e.channel, e.a) for e in ev[2:5]] == [("pc", 0, 5), ("pc", 1, 46), ("pc", 2, 70)]
    notes = [(e.tick, e.kind, e.channel, e.a, e.b, e.running) for e in ev[5:13]]
    assert notes == [(0, "on", 2, 48, 96, False), (0, "on", 2, 60, 96, True), (96, "on", 1, 67, 64, False),
                     (192, "on", 0, 76, 32, False), (384, "off", 2, 48, 64, False), (384, "off", 2, 60, 64, True),
                     (384, "off", 1, 67, 64, False), (384, "off", 0, 76, 64, False)], notes
    assert ev[13].kind == "meta" and ev[13].a == META_EOT and ev[13].tick == 384
    # hand-made malformations of that file must all be refused
    good = _SPEC_FORMAT0
    assert _rejects(b"MThx" + good[4:])                                     # header tag
    assert _rejects(good[:7] + b"\x07" + good[8:14] + b"\x00" + good[14:])  # header length 7 (strict)
    assert not _rejects(good[:7] + b"\x07" + good[8:14] + b"\x00" + good[14:], strict_header_length=False)
    assert _rejects(good[:9] + b"\x03" + good[10:])                         # format 3
    assert _rejects(good[:11] + b"\x02" + good[12:])                        # declares 2 tracks (format 0 and count)
    assert _rejects(good[:9] + b"\x01" + good[10:11] + b"\x02" + good[12:])  # format 1, 2 declared, 1 present
    assert _rejects(good[:12] + b"\x00\x00" + good[14:])                    # division 0
    assert _rejects(good[:14] + b"MTrx" + good[18:])                        # track tag
    assert _rejects(good[:21] + b"\x3A" + good[22:])                        # chunk length one short
    assert _rejects(good[:21] + b"\x3C" + good[22:])                        # chunk length one long
    assert _rejects(good[:21] + b"\x37" + good[22:-4])                      # no end-of-track
    assert _rejects(good + b"\x00")                                         # stray byte
    assert _rejects(good[:21] + b"\x3F" + good[22:] + b"\x00\xff\x2f\x00")  # two end-of-tracks
    assert _rejects(good[:22] + b"\x00\x3c\x60" + good[22 + 3:])            # running status with no status before
    body = good[22:]
    assert _rejects(good[:21] + bytes([0x3B + 1]) + b"\x80" + body)          # non-canonical delta 80 00
    assert _rejects(good[:21] + b"\x3A" + b"\x00\xff\x58\x03\x04\x02\x18" + good[30:])  # time signature of length 3
    assert _rejects(good[:22 + 15 + 2] + b"\x85" + good[22 + 15 + 3:])       # data byte >= 0x80
    two = good[:9] + b"\x01" + good[10:11] + b"\x02" + good[12:] + good[14:]
    assert len(parse(two).tracks) == 2
    return True


if __name__ == "__main__":
    selftest()
    print("ref.smf ok")
