# -*- coding: utf-8 -*-
"""Reference scale theory for C05, written from the textbook definitions.  Never imports mingus.

A scale is its ascending semitone step pattern.  The seven church modes are the rotations of the
major pattern 2-2-1-2-2-2-1; the minor-family scales are single-degree alterations of the natural
minor (= sixth rotation); the symmetric scales are constant / alternating patterns.  Heptatonic
scales are spelled on consecutive letters, which (with the tonic and the pattern) fixes every
note name up to redundant accidentals; `spell_heptatonic` produces the canonical spelling.
"""
from mc.ref import pitch as P

MAJOR = [2, 2, 1, 2, 2, 2, 1]


def rotate(pattern, k):
    return pattern[k:] + pattern[:k]


def alter(pattern, degree, delta):
    """Step pattern after moving scale degree `degree` (2..7) by `delta` semitones."""
    p = list(pattern)
    p[degree - 2] += delta
    p[degree - 1] -= delta
    return p


NATURAL_MINOR = rotate(MAJOR, 5)

# class name -> ascending step pattern (one octave)
PATTERNS = {
    "Ionian": rotate(MAJOR, 0),
    "Dorian": rotate(MAJOR, 1),
    "Phrygian": rotate(MAJOR, 2),
    "Lydian": rotate(MAJOR, 3),
    "Mixolydian": rotate(MAJOR, 4),
    "Aeolian": rotate(MAJOR, 5),
    "Locrian": rotate(MAJOR, 6),
    "Major": list(MAJOR),
    "HarmonicMajor": alter(MAJOR, 6, -1),                      # major with the lowered sixth
    "NaturalMinor": list(NATURAL_MINOR),
    "HarmonicMinor": alter(NATURAL_MINOR, 7, +1),               # raised seventh
    "MelodicMinor": alter(alter(NATURAL_MINOR, 6, +1), 7, +1),  # raised sixth and seventh (ascending)
    "Bachian": alter(alter(NATURAL_MINOR, 6, +1), 7, +1),       # the same, in both directions
    "MinorNeapolitan": alter(alter(NATURAL_MINOR, 7, +1), 2, -1),   # harmonic minor, lowered second
    "WholeTone": [2] * 6,
    "Octatonic": [2, 1] * 4,
    "Chromatic": [1] * 12,
}

# descending forms that are NOT the mirror of the ascending form: pattern of the scale that is
# mirrored instead (read upward from the tonic)
DESCENDING_AS = {
    "MelodicMinor": list(NATURAL_MINOR),
    "MinorNeapolitan": alter(NATURAL_MINOR, 2, -1),
}

HEPTATONIC = sorted(k for k, v in PATTERNS.items() if len(v) == 7)
MODES = ["Ionian", "Dorian", "Phrygian", "Lydian", "Mixolydian", "Aeolian", "Locrian"]
MAJOR_FAMILY = ["Major", "HarmonicMajor"]
MINOR_FAMILY = ["NaturalMinor", "HarmonicMinor", "MelodicMinor", "Bachian", "MinorNeapolitan"]
FREE_TONIC = MODES + ["WholeTone", "Octatonic"]           # any note name is a valid tonic
ALL17 = MODES + MAJOR_FAMILY + MINOR_FAMILY + ["Chromatic", "WholeTone", "Octatonic"]

DIATONIC_PAIRS = [(i, j) for i in range(1, 8) for j in range(i + 1, 8)]      # 21 semitone positions


def diatonic_pattern(semitones):
    """Diatonic(note, (i, j)): step k (1..7) is a semitone iff k is named, else a whole tone."""
    return [1 if k in semitones else 2 for k in range(1, 8)]


def pcs(tonic, pattern, octaves=1):
    """Pitch classes of the ascending scale over `octaves` octaves, closing tonic included."""
    out = [P.pc(tonic)]
    for _ in range(octaves):
        for s in pattern:
            out.append((out[-1] + s) % 12)
    return out


def spell_heptatonic(tonic, pattern):
    """Seven canonical names: consecutive letters from the tonic, pattern by semitones (no wrap)."""
    assert len(pattern) == 7 and sum(pattern) == 12
    out = [P.canonical(tonic)]
    cum = 0
    for i in range(1, 7):
        cum += pattern[i - 1]
        L = P.letter_up(tonic[0], i)
        span = (P.NAT[L] - P.NAT[tonic[0]]) % 12
        out.append(P.spell(L, P.net(tonic) + cum - span))
    return out


def capital(key):
    """Tonic note name of a key name ('f#' -> 'F#', 'bb' -> 'Bb')."""
    return key[0].upper() + key[1:]


MAJOR_TONICS = [k for _, k in P.MAJOR_KEYS]
MINOR_TONICS = [capital(k) for _, k in P.MINOR_KEYS]


def valid_tonics(cls):
    if cls in MAJOR_FAMILY:
        return list(MAJOR_TONICS)
    if cls in MINOR_FAMILY:
        return list(MINOR_TONICS)
    if cls == "Chromatic":
        return list(P.KEYS30)
    return None            # free: any note name


def family_lists(cls, tonic):
    """(ascending, descending) canonical one-octave name lists of a major/minor family scale."""
    asc = spell_heptatonic(tonic, PATTERNS[cls])
    asc = asc + [asc[0]]
    down = spell_heptatonic(tonic, DESCENDING_AS.get(cls, PATTERNS[cls]))
    desc = list(reversed(down + [down[0]]))
    return asc, desc


def family_instances():
    """All (class, tonic) recognition candidates: 15 key pairs x the two families."""
    out = []
    for sig in range(-7, 8):
        M = P.major_key(sig)
        m = capital(P.minor_key(sig))
        for cls in MAJOR_FAMILY:
            out.append((cls, M))
        for cls in MINOR_FAMILY:
            out.append((cls, m))
    return out


_FAMILY_SETS = None


def family_sets():
    global _FAMILY_SETS
    if _FAMILY_SETS is None:
        _FAMILY_SETS = []
        for cls, tonic in family_instances():
            asc, desc = family_lists(cls, tonic)
            _FAMILY_SETS.append((cls, tonic, frozenset(asc), frozenset(desc)))
    return _FAMILY_SETS


def recognise(notes):
    """Brute-force specification of scale recognition: every family scale whose ascending name set
    or whose descending name set contains every given (canonical) name."""
    given = frozenset(P.canonical(n) for n in notes)
    return [(cls, tonic) for cls, tonic, a, d in family_sets() if given <= a or given <= d]


def selftest():
    # the literal patterns quoted in the property statement
    assert PATTERNS["Dorian"] == [2, 1, 2, 2, 2, 1, 2]
    assert PATTERNS["HarmonicMinor"] == [2, 1, 2, 2, 1, 3, 1]
    assert PATTERNS["HarmonicMajor"] == [2, 2, 1, 2, 1, 3, 1]
    assert PATTERNS["WholeTone"] == [2] * 6 and PATTERNS["Octatonic"] == [2, 1, 2, 1, 2, 1, 2, 1]
    assert PATTERNS["Chromatic"] == [1] * 12
    # textbook anchors
    assert PATTERNS["Phrygian"] == [1, 2, 2, 2, 1, 2, 2] and PATTERNS["Lydian"] == [2, 2, 2, 1, 2, 2, 1]
    assert PATTERNS["Mixolydian"] == [2, 2, 1, 2, 2, 1, 2] and PATTERNS["Locrian"] == [1, 2, 2, 1, 2, 2, 2]
    assert PATTERNS["Aeolian"] == PATTERNS["NaturalMinor"] == [2, 1, 2, 2, 1, 2, 2]
    assert PATTERNS["MelodicMinor"] == [2, 1, 2, 2, 2, 2, 1]
    assert PATTERNS["MinorNeapolitan"] == [1, 2, 2, 2, 1, 3, 1]
    assert all(sum(p) == 12 for p in PATTERNS.values())
    assert all(sum(diatonic_pattern(s)) == 12 for s in DIATONIC_PAIRS) and len(DIATONIC_PAIRS) == 21
    assert diatonic_pattern((3, 7)) == MAJOR and diatonic_pattern((2, 5)) == NATURAL_MINOR
    assert spell_heptatonic("D", PATTERNS["Dorian"]) == list("DEFGABC")
    assert spell_heptatonic("A", PATTERNS["HarmonicMinor"]) == ["A", "B", "C", "D", "E", "F", "G#"]
    assert spell_heptatonic("C", PATTERNS["HarmonicMajor"]) == ["C", "D", "E", "F", "G", "Ab", "B"]
    assert spell_heptatonic("F#", PATTERNS["HarmonicMinor"]) == ["F#", "G#", "A", "B", "C#", "D", "E#"]
    assert spell_heptatonic("G#", PATTERNS["HarmonicMinor"])[6] == "F##"
    assert spell_heptatonic("Ab", PATTERNS["MinorNeapolitan"])[1] == "Bbb"
    assert family_lists("MelodicMinor", "A") == (["A", "B", "C", "D", "E", "F#", "G#", "A"],
                                                 ["A", "G", "F", "E", "D", "C", "B", "A"])
    assert family_lists("MinorNeapolitan", "A") == (["A", "Bb", "C", "D", "E", "F", "G#", "A"],
                                                    ["A", "G", "F", "E", "D", "C", "Bb", "A"])
    assert family_lists("Bachian", "C")[1] == ["C", "B", "A", "G", "F", "Eb", "D", "C"]
    assert pcs("C", PATTERNS["WholeTone"], 2) == [0, 2, 4, 6, 8, 10, 0, 2, 4, 6, 8, 10, 0]
    assert pcs("C", PATTERNS["Octatonic"]) == [0, 2, 3, 5, 6, 8, 9, 11, 0]
    assert len(family_instances()) == 105 and len(set(family_instances())) == 105
    assert MINOR_TONICS == ["Ab", "Eb", "Bb", "F", "C", "G", "D", "A", "E", "B", "F#", "C#", "G#", "D#", "A#"]
    # C E G lies in C, F, G major; in a, e natural minor, ... spot anchors worked by hand:
    r = set(recognise(["C", "E", "G"]))
    assert ("Major", "C") in r and ("Major", "F") in r and ("Major", "G") in r and ("Major", "D") not in r
    assert ("NaturalMinor", "A") in r and ("NaturalMinor", "E") in r and ("HarmonicMinor", "E") in r
    assert ("HarmonicMinor", "A") not in r          # a harmonic minor has G#, not G
    assert ("MelodicMinor", "A") in r               # ... but a melodic minor descends through G
    assert ("Bachian", "A") not in r
    assert ("HarmonicMajor", "C") in r and ("HarmonicMinor", "F") in r
    # worked by hand: G melodic minor = G A Bb C D E F#, D harmonic major = D E F# G A Bb C#
    assert set(recognise(["A", "Bb", "E", "F#", "G"])) == {("MelodicMinor", "G"), ("Bachian", "G"), ("HarmonicMajor", "D")}
    assert len(recognise([])) == 105 and recognise(["C", "C#", "D"]) == []
    return True


if __name__ == "__main__":
    selftest()
    print("ref.scales ok")
