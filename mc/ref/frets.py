# -*- coding: utf-8 -*-
"""Brute-force specification of fretboard arithmetic and fingerings.  Never imports mingus.

Pitches are plain integers in the numbering ``12 * octave + semitone above C`` (C-4 = 48, the
scientific octave number; MIDI key = pitch + 12).  A *tuning* is the list of the open-string
pitches, string 0 first.

Everything here is the definition, executed naively:

* the fret of a pitch on a string is ``pitch - open`` when that lies in ``0..maxfret``, else None;
* a *fingering* of a note list is an injective map note -> string such that every note can be
  sounded on its string (a fret exists);
* its *span* is max - min over the frets that are not open (0); with no fretted string there is
  no span at all and the fingering is always allowed.
"""
import itertools

NAT = {"C": 0, "D": 2, "E": 4, "F": 5, "G": 7, "A": 9, "B": 11}
SHARP_NAMES = ["C", "C#", "D", "D#", "E", "F", "F#", "G", "G#", "A", "A#", "B"]


def pitch_of(name, octave):
    """'F#', 3 -> 42.  Only the letter, the accidentals and the octave number are used."""
    return 12 * octave + NAT[name[0]] + name.count("#") - name.count("b")


def name_of(pitch):
    """42 -> ('F#', 3): the sharp spelling of a pitch."""
    return SHARP_NAMES[pitch % 12], pitch // 12


def fret(open_pitch, pitch, maxfret):
    d = pitch - open_pitch
    return d if 0 <= d <= maxfret else None


def frets(tuning, pitch, maxfret):
    return [fret(o, pitch, maxfret) for o in tuning]


def span_ok(fret_list, max_distance):
    """True iff the frets that are neither open nor muted (None) span less than max_distance."""
    fretted = [f for f in fret_list if f is not None and f != 0]
    if not fretted:
        return True
    return max(fretted) - min(fretted) < max_distance


def assignments(tuning, pitches, maxfret):
    """Every injective assignment of strings to the notes, as tuples ((string, fret), ...) in note
    order; frets limited to 0..maxfret (maxfret=None: any fret >= 0)."""
    out = []
    n = len(tuning)
    for strings in itertools.permutations(range(n), len(pitches)):
        fl = []
        for s, p in zip(strings, pitches):
            d = p - tuning[s]
            if d < 0 or (maxfret is not None and d > maxfret):
                break
            fl.append((s, d))
        else:
            out.append(tuple(fl))
    return out


def fingerings(tuning, pitches, max_distance, maxfret=24):
    """The specification of StringTuning.find_fingering as a set of tuples of (string, fret)."""
    return set(a for a in assignments(tuning, pitches, maxfret)
               if span_ok([f for _, f in a], max_distance))


def total(fingering):
    return sum(f for _, f in fingering)


def fingers_lower_bound(fret_list):
    """A count of fingers that every reasonable rule needs at least.

    Walk from the last string to the first (the way a barre is laid: it covers the strings from
    the player's finger tip on): strings stopped at the lowest fretted position are served by the
    index finger alone, as long as no open string has been passed (an open string under a barre
    could not sound); every other fretted string takes a finger of its own; open and muted
    strings take none."""
    fretted = [f for f in fret_list if f is not None and f != 0]
    if not fretted:
        return 0
    lowest = min(fretted)
    count = 0
    index_used = False
    open_seen = False
    for f in reversed(fret_list):
        if f is None:
            continue
        if f == 0:
            open_seen = True
        elif f == lowest and not open_seen:
            if not index_used:
                count += 1
                index_used = True
        else:
            count += 1
    return count


def distinct_fretted(fret_list):
    return len(set(f for f in fret_list if f is not None and f != 0))


GUITAR = [28, 33, 38, 43, 47, 52]          # E2 A2 D3 G3 B3 E4 (MIDI 40 45 50 55 59 64, minus 12)


def selftest():
    # anchors from the instrument, not from the library: standard guitar E A D G B E
    assert [pitch_of(n, o) for n, o in (("E", 2), ("A", 2), ("D", 3), ("G", 3), ("B", 3), ("E", 4))] == GUITAR
    assert pitch_of("A", 4) + 12 == 69                      # A4 is MIDI key 69
    assert name_of(42) == ("F#", 3) and pitch_of("Bb", 3) == 46 and pitch_of("C", 4) == 48
    # the high e' is the 5th fret of the b string, the 9th of g, 14th of d, 19th of A, 24th of E
    assert frets(GUITAR, 52, 24) == [24, 19, 14, 9, 5, 0]
    assert frets(GUITAR, 52, 18) == [None, None, 14, 9, 5, 0]
    assert frets(GUITAR, 27, 24) == [None] * 6
    # open C major chord x32010: C3 E3 G3 C4 E4
    cmaj = [None, 3, 2, 0, 1, 0]
    assert [GUITAR[s] + f for s, f in enumerate(cmaj) if f is not None] == [36, 40, 43, 48, 52]
    assert span_ok(cmaj, 4) and span_ok(cmaj, 3) and not span_ok(cmaj, 2)
    assert fingers_lower_bound(cmaj) == 3 and distinct_fretted(cmaj) == 3
    # F major barre 133211: one barre + three fingers
    assert fingers_lower_bound([1, 3, 3, 2, 1, 1]) == 4
    # the open low E and A strings together: exactly one way on two open strings, others far up
    assert fingerings(GUITAR, [28, 33], 4) == {((0, 0), (1, 0))}
    # E4 + B4 : (string 5 open, string 4 fret 12) is allowed (open strings do not count)
    assert ((5, 0), (4, 12)) in fingerings(GUITAR, [52, 59], 4)
    assert ((4, 5), (5, 7)) in fingerings(GUITAR, [52, 59], 4)
    assert ((4, 5), (3, 16)) not in fingerings(GUITAR, [52, 59], 4)
    assert fingerings(GUITAR, [27], 4) == set()
    assert len(assignments([10, 10], [12, 12], 24)) == 2
    return True


if __name__ == "__main__":
    selftest()
    print("ref.frets ok")
