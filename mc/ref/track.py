# -*- coding: utf-8 -*-
"""Reference model of a track: a list of bars filled left to right, in exact rational time.
Never imports mingus.  Written from the definitions in the property statement:

* a bar of meter (n, d) lasts n/d whole notes ((0, 0) = unbounded); an entry of value v lasts 1/v;
* an entry is accepted into a bar exactly when the bar's total plus its length does not exceed the
  bar's length; a bar is *full* when it is non-empty and its remaining length is zero (to within a
  thousandth of a whole note -- the tolerance of the C13 statement);
* adding to a track goes to the last bar; a new bar is opened (with the key and meter of the last
  one; C major 4/4 for the first) only when the last bar is full or the track is empty;
* an item that is longer than the room left is *split at the bar line*: a piece that fills the bar,
  then whole bars, then the remainder (`split_plan`).

Content is None (a rest) or a list of (name, octave) in ascending pitch order.
"""
from fractions import Fraction

FULL_TOLERANCE = Fraction(1, 1000)


class RefBar(object):
    def __init__(self, key="C", meter=(4, 4)):
        self.key = key
        self.meter = (meter[0], meter[1])
        self.length = Fraction(meter[0], meter[1]) if meter[1] else Fraction(0)
        self.entries = []            # [exact start, value as given (float/int), exact length, content]
        self.total = Fraction(0)

    def unbounded(self):
        return self.meter == (0, 0)

    def room(self):
        return None if self.unbounded() else self.length - self.total

    def fits(self, length):
        return self.unbounded() or self.total + length <= self.length

    def full(self):
        return (not self.unbounded()) and bool(self.entries) and self.length - self.total <= FULL_TOLERANCE

    def place(self, value, length, content):
        if not self.fits(length):
            return False
        self.entries.append([self.total, value, length, content])
        self.total += length
        return True

    def copy(self):
        b = RefBar(self.key, self.meter)
        b.entries = [list(e) for e in self.entries]
        b.total = self.total
        return b


class RefTrack(object):
    def __init__(self):
        self.bars = []
        self.accepted = Fraction(0)          # sum of the lengths of accepted items (add/from_chords)
        self.preloaded = Fraction(0)         # lengths that arrived inside bars handed to add_bar

    def copy(self):
        t = RefTrack()
        t.bars = [b.copy() for b in self.bars]
        t.accepted = self.accepted
        t.preloaded = self.preloaded
        return t

    def add_bar(self, bar):
        self.bars.append(bar)
        self.preloaded += bar.total

    def prepare(self):
        """Make sure there is a last bar with room semantics: open one when empty / last is full.
        Returns True when a bar was opened."""
        if not self.bars:
            self.bars.append(RefBar("C", (4, 4)))
            return True
        last = self.bars[-1]
        if last.full():
            self.bars.append(RefBar(last.key, last.meter))
            return True
        return False

    def add(self, value, length, content):
        """Returns (accepted, opened_a_bar)."""
        opened = self.prepare()
        ok = self.bars[-1].place(value, length, content)
        if ok:
            self.accepted += length
        return ok, opened

    def split_plan(self, length):
        """Piece lengths for an item of `length` appended now, splitting only at bar lines."""
        t = self.copy()
        t.prepare()
        pieces = []
        left = length
        guard = 0
        while True:
            guard += 1
            if guard > 64:
                raise ValueError("split does not terminate")
            bar = t.bars[-1]
            if bar.fits(left):
                pieces.append(left)
                return pieces
            room = bar.room()
            if room <= 0:
                raise ValueError("no room in a bar that is not full")
            pieces.append(room)
            bar.place(None, room, None)
            left -= room
            t.prepare()

    def items(self):
        out = []
        for b in self.bars:
            for e in b.entries:
                out.append(e)
        return out

    def total(self):
        return sum((b.total for b in self.bars), Fraction(0))

    def integrity(self):
        return all(b.full() for b in self.bars[:-1])


def flatten_chords(chords, value):
    """Leaves of a (possibly nested) chord list with their note values: every nesting level halves
    the length (doubles the value).  Returns [(leaf, Fraction value)]."""
    out = []
    for c in chords:
        if isinstance(c, list):
            out.extend(flatten_chords(c, value * 2))
        else:
            out.append((c, Fraction(value)))
    return out


def selftest():
    q, h, w = Fraction(1, 4), Fraction(1, 2), Fraction(1)
    t = RefTrack()
    assert t.add(4, q, "a") == (True, True) and len(t.bars) == 1
    for _ in range(3):
        assert t.add(4, q, "a") == (True, False)
    assert t.bars[0].full() and t.integrity()
    assert t.add(2, h, "b") == (True, True) and len(t.bars) == 2 and t.bars[1].entries[0][0] == 0
    assert t.add(1, w, "c") == (False, False) and t.total() == Fraction(3, 2) == t.accepted
    assert t.split_plan(w) == [h, h]
    assert t.split_plan(2 * w) == [h, w, h]
    assert t.split_plan(q) == [q]
    # a 3/4 track: the new bar inherits key and meter
    t = RefTrack()
    t.add_bar(RefBar("G", (3, 4)))
    for _ in range(3):
        assert t.add(4, q, None)[0]
    assert t.add(4, q, None) == (True, True) and t.bars[1].key == "G" and t.bars[1].meter == (3, 4)
    # an item longer than a bar is refused after the (empty) bar has been opened
    t = RefTrack()
    assert t.add(Fraction(1, 2), 2 * w, "x") == (False, True) and len(t.bars) == 1 and not t.bars[0].entries
    assert t.split_plan(2 * w) == [w, w]
    # unbounded bars are never full
    t = RefTrack()
    t.add_bar(RefBar("C", (0, 0)))
    for _ in range(9):
        assert t.add(1, w, "x") == (True, False)
    assert len(t.bars) == 1
    assert flatten_chords(["C", ["Am", "Dm"], None], 1) == [("C", 1), ("Am", 2), ("Dm", 2), (None, 1)]
    assert flatten_chords([["C", ["G"]]], Fraction(1, 2)) == [("C", 1), ("G", 2)]
    return True


if __name__ == "__main__":
    selftest()
    print("ref.track ok")
