# -*- coding: utf-8 -*-
"""C02 -- named interval constructors, semitone measure, consonance (DESIGN.md section 4, C02).

* constructors: product  (names(k) + homogeneous runs of up to kl accidentals) x 17 constructors  on
  the real mingus.core.intervals, each result checked against the letter / pitch-class arithmetic
  of mc.ref.pitch + mc.ref.ivl;
* closure: explicit-state bfs over names with the 14 non-unison constructors as transition
  functions, run to the fix-point (the +-6 normalisation makes the reachable set finite); all 17
  constructors (so also the three unison ones, whose own closure is unbounded) are then applied
  once to every name of the fix-point;
* measure: all ordered pairs of names(k2) + homogeneous runs of up to 14 accidentals, for measure and
  the four predicates with every flag value and with the flag omitted.
"""
import itertools

from mc import engine
from mc.engine import BfsSpec
from mc.ref import pitch as P
from mc.ref import ivl as I

from mingus.core import intervals

PROPERTY = "C02"
RULE = ("product names(k) x 17 constructors; bfs closure of names under the 14 non-unison constructors to the "
        "fix-point (state = name, transition = constructor call); product over ordered name pairs for measure and the "
        "predicates; distinct_nontrivial counts distinct (constructor, result name) / (measure, predicate vector) keys")
ASSUMPTIONS = [
    "the defining size of a named interval is the major/perfect size of its number plus the quality offset of C03 "
    "(major/perfect 0, minor -1, augmented +1): minor fourth = 4, minor fifth = 6, minor unison = -1 = 11 mod 12",
    "results are judged on letter, pitch class, validity, homogeneity and accidental count only; either spelling is "
    "accepted when +6 and -6 accidentals denote the same pitch class",
    "is_dissonant with an explicit include_fourths flag on a pair measuring 5: the statement does not say in which "
    "direction the flag works for the dissonance predicate, so only 'the two flag values give opposite answers' is "
    "required there; the two-argument calls must satisfy dissonant = not consonant literally",
    "two-argument (default flag) calls of is_consonant / is_perfect_consonant on a pair measuring 5 may answer either "
    "way ('optionally 5'); with an explicit flag the flag decides",
    "every constructor call runs under the deterministic 20 000 line-event horizon, a call that does not return "
    "within it is reported as a violation",
]

FNS = dict((c, getattr(intervals, c)) for c in I.CONSTRUCTOR_NAMES)
SPEC = dict((c, (n, s)) for c, n, s in I.CONSTRUCTORS)
MAX_ACC = 6


def check_edge(S, name, cname, r):
    """Oracle for one transition  name --cname--> r."""
    number, semis = SPEC[cname]
    site = "%s(%r)" % (cname, name)
    if not P.is_name(r):
        S.problem(site, "a valid note name", r)
        return False
    ok = True
    wantL = P.letter_up(name[0], number - 1)
    if r[0] != wantL:
        S.problem(site + " letter", wantL, r)
        ok = False
    wantpc = (P.pc(name) + semis) % 12
    if P.pc(r) != wantpc:
        S.problem(site + " pitch class", wantpc, {"result": r, "pc": P.pc(r), "input_pc": P.pc(name)})
        ok = False
    if not P.homogeneous(r):
        S.problem(site + " form", "no mixture of sharps and flats", r, tags={"form": "mixed"})
        ok = False
    if len(r) - 1 > MAX_ACC:
        S.problem(site + " form", "at most six accidentals", r, tags={"form": "long"})
        ok = False
    return ok


_intervals_module = intervals


def call(cname, name):
    return engine.with_step_budget(FNS[cname], (name,), budget=20000)


_OTHER_KEYS = ["a", "D", "f#", "Eb", "c", "B", "e"]


def run_constructors(name):
    S = engine.S
    if not P.is_name(name):
        raise engine.HarnessError("case %r is not a name" % (name,))
    first = {}
    for cname in I.CONSTRUCTOR_NAMES:
        r = call(cname, name)
        first[cname] = r
        check_edge(S, name, cname, r)
        S.outcome((cname, r if isinstance(r, str) and len(r) < 12 else repr(r)[:12]))
    S.trans(len(I.CONSTRUCTOR_NAMES))
    # the constructors are functions of the note alone: the same answers after the module's other entry
    # points (diatonic steps in several keys incl. relative minors, measuring, naming, shorthand) were used
    k = len(name) % len(_OTHER_KEYS)
    for fn, args in (("second", ("E", _OTHER_KEYS[k])), ("sixth", ("A", _OTHER_KEYS[(k + 1) % len(_OTHER_KEYS)])),
                     ("fourth", ("B", _OTHER_KEYS[(k + 2) % len(_OTHER_KEYS)])), ("measure", ("C", "Dbb")),
                     ("determine", ("C", "Gb")), ("from_shorthand", ("D", "b7", False)),
                     ("is_consonant", ("C", "F", False)), ("is_dissonant", ("C", "F", True))):
        try:
            engine.with_step_budget(getattr(intervals, fn), args, budget=20000)
        except engine.StepBudgetExceeded as e:
            S.problem("intervals.%s%r (asked after the constructors on %r)" % (fn, args, name), "an answer within the step horizon",
                      "no result within horizon: %s" % e)
            return
        except Exception:                                   # noqa -- judged elsewhere (C03, C04)
            pass
    for cname in I.CONSTRUCTOR_NAMES:
        again = call(cname, name)
        if again != first[cname] and not (isinstance(again, BaseException) and isinstance(first[cname], BaseException)):
            S.problem("intervals.%s(%r) asked again after diatonic steps, measure, determine and from_shorthand were used" % (cname, name),
                      first[cname], again)
            break
    S.trans(len(I.CONSTRUCTOR_NAMES) + 8)
    S.count("constructor_inputs")
    if len(name) - 1 > MAX_ACC:
        S.count("inputs_with_more_than_six_accidentals")
    if len(name) - 1 > 12:
        S.count("inputs_with_more_than_twelve_accidentals")
    if not P.homogeneous(name):
        S.count("inputs_mixing_sharps_and_flats")
    if len(name) == 4 and not P.homogeneous(name):
        S.sample(name)


class _NameState(object):
    def __init__(self, name):
        self.name = name


class ClosureSpec(BfsSpec):
    """state = a note name; actions = the 14 non-unison constructors.

    canon = the name itself: the constructors are pure functions of their argument (C15 checks that
    separately), so the name is everything future behaviour can depend on."""

    def __init__(self, start):
        self.start = start

    def params(self):
        return {"start": self.start}

    def init(self):
        return _NameState(self.start)

    def actions(self):
        return list(I.NON_UNISON)

    def step(self, st, act, check=True):
        S = engine.S
        r = call(act, st.name)
        if check:
            check_edge(S, st.name, act, r)
            S.outcome((act, r if isinstance(r, str) else repr(r)))
        st.name = r

    def invariant(self, st):
        S = engine.S
        S.count("closure_states_visited")
        if P.is_name(st.name) and len(st.name) - 1 == MAX_ACC:
            S.count("closure_inputs_with_six_accidentals")

    def canon(self, st):
        return st.name


def run_closure(case):
    engine.bfs_execute(ClosureSpec(case["start"]), case["history"], check_prefix=True)


class _Budgeted(object):
    """the intervals module with every call under the line budget (a looping call becomes a reported problem)"""

    def __getattr__(self, fn):
        f = getattr(_intervals_module, fn)
        return lambda *args: engine.with_step_budget(f, args, budget=20000)


def run_measure(case):
    S = engine.S
    a, b = case
    m = I.measure(a, b)
    got = engine.with_step_budget(_intervals_module.measure, (a, b), budget=20000)      # (the predicates below call nothing that loops)
    if isinstance(got, bool) or got != m:
        S.problem("measure(%r, %r)" % (a, b), m, got, detail={"pc": [P.pc(a), P.pc(b)]})
    vec = []
    for f in (True, False):
        r = intervals.is_perfect_consonant(a, b, f)
        vec.append(bool(r))
        if bool(r) is not I.perfect_consonant(m, f):
            S.problem("is_perfect_consonant(%r, %r, %r)" % (a, b, f), I.perfect_consonant(m, f), r, detail={"measure": m})
        r = intervals.is_consonant(a, b, f)
        vec.append(bool(r))
        if bool(r) is not I.consonant(m, f):
            S.problem("is_consonant(%r, %r, %r)" % (a, b, f), I.consonant(m, f), r, detail={"measure": m})
    r = intervals.is_imperfect_consonant(a, b)
    vec.append(bool(r))
    if bool(r) is not I.imperfect_consonant(m):
        S.problem("is_imperfect_consonant(%r, %r)" % (a, b), I.imperfect_consonant(m), r, detail={"measure": m})
    dt = intervals.is_dissonant(a, b, True)
    df = intervals.is_dissonant(a, b, False)
    vec += [bool(dt), bool(df)]
    if m != 5:
        want = not I.consonant(m, True)             # the flag is irrelevant off the fourth
        for f, r in ((True, dt), (False, df)):
            if bool(r) is not want:
                S.problem("is_dissonant(%r, %r, %r)" % (a, b, f), want, r, detail={"measure": m})
    else:
        S.count("pairs_measuring_a_fourth")
        if bool(dt) == bool(df):
            S.problem("is_dissonant(%r, %r, True/False)" % (a, b), "opposite answers for the two flag values on a fourth",
                      [dt, df], detail={"measure": m})
    # two-argument calls
    c2 = intervals.is_consonant(a, b)
    p2 = intervals.is_perfect_consonant(a, b)
    d2 = intervals.is_dissonant(a, b)
    vec += [bool(c2), bool(p2), bool(d2)]
    if bool(d2) is not (not bool(c2)):
        S.problem("is_dissonant(%r, %r) vs is_consonant(%r, %r)" % (a, b, a, b), "dissonant = not consonant",
                  {"is_dissonant": d2, "is_consonant": c2}, detail={"measure": m})
    if m != 5:
        if bool(c2) is not I.consonant(m, True):
            S.problem("is_consonant(%r, %r)" % (a, b), I.consonant(m, True), c2, detail={"measure": m})
        if bool(p2) is not I.perfect_consonant(m, True):
            S.problem("is_perfect_consonant(%r, %r)" % (a, b), I.perfect_consonant(m, True), p2, detail={"measure": m})
    # the option is a truth value: any object may stand for it
    for opt in (0, None, "", 1, 2, "yes", []):
        c = _intervals_module.is_consonant(a, b, opt)
        d = _intervals_module.is_dissonant(a, b, opt)
        pc = _intervals_module.is_perfect_consonant(a, b, opt)
        if bool(c) is not I.consonant(m, bool(opt)) or bool(d) is not (not I.consonant(m, not bool(opt))) or bool(pc) is not I.perfect_consonant(m, bool(opt)):
            S.problem("is_consonant / is_dissonant / is_perfect_consonant(%r, %r, %r)" % (a, b, opt),
                      [I.consonant(m, bool(opt)), not I.consonant(m, not bool(opt)), I.perfect_consonant(m, bool(opt))], [c, d, pc], detail={"measure": m})
            break
    # the option by name
    for opt in (True, False):
        got = [_intervals_module.is_consonant(a, b, include_fourths=opt), _intervals_module.is_dissonant(a, b, include_fourths=opt),
               _intervals_module.is_perfect_consonant(a, b, include_fourths=opt)]
        want = [I.consonant(m, opt), not I.consonant(m, not opt), I.perfect_consonant(m, opt)]
        if [bool(x) for x in got] != want:
            S.problem("is_consonant / is_dissonant / is_perfect_consonant(%r, %r, include_fourths=%r)" % (a, b, opt), want, got, detail={"measure": m})
            break
    S.trans(38)
    S.count("pairs")
    S.outcome((m, got if isinstance(got, int) else repr(got), tuple(vec)))
    if a == "C#b" and len(b) == 3:
        S.sample(case)


# ---------------------------------------------------------------------------------------
# histories: the answers do not depend on what was asked (or refused) before
# ---------------------------------------------------------------------------------------
HCALLS = ([("measure", (a, b)) for a, b in (("C", "E"), ("C", "G"), ("E", "C"), ("G", "B"), ("Cb", "B#"), ("E", "E"))] +
          [("measure", ("C", "H")), ("measure", ("E", "x#")), ("measure", ("H", "C")), ("major_third", ("H",)), ("minor_sixth", ("Cx",))] +
          [("major_third", ("C",)), ("minor_third", ("E",)), ("perfect_fifth", ("G",)), ("major_seventh", ("Cb",)), ("minor_second", ("E",)),
           ("is_consonant", ("C", "E")), ("is_dissonant", ("E", "C")), ("is_perfect_consonant", ("C", "G")),
           # the public helper the constructors are built on, asked directly with targets that carry accidentals
           ("augment_or_diminish_until_the_interval_is_right", ("C", "Eb", 3)), ("augment_or_diminish_until_the_interval_is_right", ("C", "E#", 4)),
           ("augment_or_diminish_until_the_interval_is_right", ("E", "G", 4)), ("get_interval", ("C", 3, "G")), ("get_interval", ("D", 2, "Db")),
           # functions of the notes module the constructors and measure lean on, fed with octave-crossing and long spellings
           ("notes.reduce_accidentals", ("B#",)), ("notes.reduce_accidentals", ("Cbb",)), ("notes.remove_redundant_accidentals", ("C########",)),
           ("notes.remove_redundant_accidentals", ("Fbbbbbbbb",)), ("measure", ("C", "B#")), ("measure", ("Cbb", "C")),
           ("major_unison", ("C####",)), ("minor_third", ("Gbbbb",)),
           # diatonic steps of the same module, in keys that exist and in keys that do not
           ("third", ("E", "G")), ("third", ("E", "H")), ("fifth", ("C", "D#")), ("second", ("F", "eb"))])
_HBASE = {}


def _reload_theory():
    import importlib
    import mingus.core.notes as _notes
    importlib.reload(_notes)
    importlib.reload(_intervals_module)


def _hdo(i):
    name, args = HCALLS[i]
    try:
        if name.startswith("notes."):
            import mingus.core.notes as _notes
            return ["ok", engine.with_step_budget(getattr(_notes, name[6:]), args, budget=20000)]
        return ["ok", engine.with_step_budget(getattr(_intervals_module, name), args, budget=20000)]
    except engine.StepBudgetExceeded:
        return ["no result within the step horizon"]
    except Exception as e:                              # noqa
        return ["raised", type(e).__name__]


def _hbase(i):
    if i not in _HBASE:
        _reload_theory()
        _HBASE[i] = _hdo(i)
    return _HBASE[i]


def run_history3(case):
    """case = [i, j]: for every third call k the sequence (i, j, k) in freshly loaded notes / intervals modules; every answer
    must be the one the same question gets as the first question of a fresh module."""
    S = engine.S
    i, j = case
    bi, bj = _hbase(i), _hbase(j)
    for k in range(len(HCALLS)):
        bk = _hbase(k)
        _reload_theory()
        got = [_hdo(i), _hdo(j), _hdo(k)]
        S.trans(3)
        for pos, (g, b, c) in enumerate(zip(got, (bi, bj, bk), (i, j, k))):
            if g != b:
                S.problem("intervals.%s%r as call %d of the history %s" % (HCALLS[c][0], HCALLS[c][1], pos + 1,
                          [HCALLS[x][0] + repr(HCALLS[x][1]) for x in (i, j, k)[:pos + 1]]), b, g)
                return
    S.count("histories_of_three_calls", len(HCALLS))
    S.outcome((i, j))


def run_long_history(case):
    """One long history in freshly loaded modules: a list of questions, then the pitch class of every name with up to
    `case` accidentals is asked for (through measure), then the same questions again."""
    S = engine.S
    _reload_theory()
    first = [_hdo(i) for i in range(len(HCALLS))]
    names = P.names(case)
    for nm in names:
        try:
            engine.with_step_budget(_intervals_module.measure, (nm, "C"), budget=20000)
        except Exception:                               # noqa
            pass
    S.trans(len(names) + 2 * len(HCALLS))
    again = [_hdo(i) for i in range(len(HCALLS))]
    for i, (a, b) in enumerate(zip(first, again)):
        if a != b:
            S.problem("intervals.%s%r asked again after %d other names were measured" % (HCALLS[i][0], HCALLS[i][1], len(names)), a, b)
            break
    for i, a in enumerate(first):
        if a != _hbase(i):
            S.problem("intervals.%s%r as question %d of a fresh process" % (HCALLS[i][0], HCALLS[i][1], i + 1), _hbase(i), a)
            break
    S.count("long_histories")
    S.outcome(("long", case, len(names)))


CLAUSES = {
    "constructors": run_constructors,
    "closure": run_closure,
    "measure": run_measure,
    "history3": run_history3,
    "long_history": run_long_history,
}

_K = [0, 0]
_PAIR_NAMES = [[]]


def _tails(n):
    for m in range(n + 1):
        for acc in itertools.product("#b", repeat=m):
            yield "".join(acc)


def gen_names(shard):
    """shard = [letter, prefix]: None -> the natural; '#'/'b' -> that accidental followed by every
    accidental string of length <= k-1; 'long' -> the homogeneous runs of k+1 .. kl sharps / flats."""
    L, prefix = shard
    k = _K[0]
    if prefix is None:
        yield L
    elif prefix == "long":
        for n in range(k + 1, _K[1] + 1):
            yield L + "#" * n
            yield L + "b" * n
    else:
        for t in _tails(k - 1):
            yield L + prefix + t


def gen_pairs(a):
    for b in _PAIR_NAMES[0]:
        yield [a, b]


def explore(ctx):
    ctx.use_thorough_bounds('thorough bounds take about ten seconds')
    k = ctx.pick(7, 10)
    k2 = ctx.pick(3, 5)
    kl = ctx.pick(30, 48)
    _K[0], _K[1] = k, kl
    n_inputs = 7 * (2 ** (k + 1) - 1) + 7 * 2 * (kl - k)
    ctx.bound("constructor_inputs_max_accidentals_all_orders", k)
    ctx.bound("constructor_inputs_max_accidentals_homogeneous_runs", kl)
    ctx.bound("constructor_inputs", n_inputs)
    ctx.bound("pair_names_max_accidentals", k2)
    if ctx.want("constructors"):
        shards = [[L, pre] for L in P.LETTERS for pre in (None, "#", "b", "long")]
        ctx.product("constructors", shards, gen_names)
    if ctx.want("closure"):
        depth = 40
        ctx.bound("closure_depth_bound", depth)
        seen = ctx.bfs("closure", ClosureSpec("C"), depth, label="closure from C")
        pc = ctx.per_clause["closure from C"]
        if not pc["fixpoint_reached"]:
            ctx.exhaustive = False
            ctx.caps_hit.append("closure: fix-point not reached within depth %d" % depth)
        ctx.note("closure under the 14 non-unison constructors from 'C': %d names, levels %r, fix-point reached: %s"
                 % (len(seen), pc["levels"], pc["fixpoint_reached"]))
        # the unison constructors only add/strip one accidental, so their closure is unbounded: they
        # are applied once to every name of the fix-point (together with the other 14 again)
        ctx.serial("constructors", sorted(seen))
        if not ctx.only:
            ctx.guard("closure states", len(seen), 84)
            ctx.guard("closure inputs with six accidentals", ctx.counter("closure_inputs_with_six_accidentals"), 7)
    if ctx.want("history3"):
        ctx.bound("history3", "every sequence of 3 calls over %d calls (measure, constructors, predicates, refused calls), each from freshly loaded modules" % len(HCALLS))
        ctx.product("history3", list(range(len(HCALLS))), lambda i: ([i, j] for j in range(len(HCALLS))))
    if ctx.want("long_history"):
        ctx.product("long_history", [3, 5], lambda k: [k])
    if ctx.want("measure"):
        # names of a dozen and more accidentals that mix sharps and flats, against the seven letters and each other
        longs = ["G" + "#" * 11 + "b", "C" + "b" * 12 + "###", "A" + "#b" * 7, "E" + "b" * 13, "F" + "#" * 12 + "b" * 5, "D" + "b#" * 6 + "#"]
        ctx.bound("measure_long_mixed_names", longs)
        ctx.serial("measure", [[x, y] for x in longs for y in list("CDEFGAB") + longs] + [[y, x] for x in longs for y in "CDEFGAB"])
        _PAIR_NAMES[0] = P.names(k2) + [L + a * n for L in P.LETTERS for n in range(k2 + 1, 15) for a in "#b"]
        ctx.bound("pair_names", "every order of <= %d accidentals + homogeneous runs of up to 14 (%d names)" % (k2, len(_PAIR_NAMES[0])))
        ctx.bound("pairs", len(_PAIR_NAMES[0]) ** 2)
        ctx.product("measure", list(_PAIR_NAMES[0]), gen_pairs)
    if not ctx.only:
        ctx.guard("constructor inputs", ctx.counter("constructor_inputs"), n_inputs + 84)
        ctx.guard("inputs with more than twelve accidentals", ctx.counter("inputs_with_more_than_twelve_accidentals"), 100)
        ctx.guard("inputs with more than six accidentals", ctx.counter("inputs_with_more_than_six_accidentals"), 500)
        ctx.guard("inputs mixing sharps and flats", ctx.counter("inputs_mixing_sharps_and_flats"), 500)
        ctx.guard("pairs", ctx.counter("pairs"), 10000)
        ctx.guard("pairs measuring a fourth", ctx.counter("pairs_measuring_a_fourth"), 500)
