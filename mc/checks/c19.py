# -*- coding: utf-8 -*-
"""C19 -- LilyPond and MusicXML exports decode back to the same music (DESIGN.md section 4, C19).

A bounded space of object graphs (notes, note containers, bars, tracks, compositions) is enumerated
exhaustively; every graph is rendered with the real exporter (mingus.extra.lilypond /
mingus.extra.musicxml) and the text is decoded with the independent readers mc/ref/lily.py and
mc/ref/mxml.py; the decoded music must equal the graph that was exported.

A case is JSON: a note is [name, octave]; a content is None (rest), [] (empty container) or a list of
notes; a bar is {"key", "meter", "entries": [[content, value label], ...]} and is built by placing the
entries into a real Bar (so only reachable bars are exported); value labels are those of
mc/ref/values.py and carry the exact (base, dots, ratio) the decoded entry must show.
"""
from fractions import Fraction
import itertools
import json
import zlib

from mc import engine
from mc.ref import values as V
from mc.ref import pitch as P
from mc.ref import lily
from mc.ref import mxml

from mingus.containers.bar import Bar
from mingus.containers.note import Note
from mingus.containers.note_container import NoteContainer
from mingus.containers.track import Track
from mingus.containers.composition import Composition
from mingus.containers.instrument import Instrument, Piano, Guitar, MidiInstrument
import mingus.extra.lilypond as LY
import mingus.extra.musicxml as MX

PROPERTY = "C19"
RULE = ("product enumeration of object graphs (notes: names x octaves; containers: subsets of a note pool x value "
        "vocabulary; bars: every placement sequence a real Bar accepts over content alphabet x values, x keys x meters x "
        "show flags; tracks: every sequence of 1-3 zoo bars; compositions: every sequence of 1-3 zoo tracks x header/name "
        "strings over a markup character set), each exported by the real exporter and decoded by an independent reader; "
        "distinct_nontrivial = distinct decoded documents (checksum of the exported text / decoded structure) per clause")
ASSUMPTIONS = [
    "tuplet ratio is a bar-level notion (LilyPond writes it as a \\times group around entries): from_NoteContainer alone is "
    "checked for notes, base value and dots; the ratio is checked for every bar, track and composition export",
    "notes of one chord are simultaneous: the decoded chord is compared as a multiset of (name, octave) / (step, alter, octave)",
    "an entry holding an empty NoteContainer is silent for its length, i.e. must decode as a rest of that value",
    "LilyPond key/time: every \\key / \\time that is shown must equal the bar's key (tonic, mode) / meter; it must be shown in "
    "bar i>0 of a track when it differs from bar i-1 and in from_Bar when the caller asks for it; at the start of a track "
    "LilyPond's own defaults (c major, 4/4) are in force, so a first bar in another key or meter counts as a change from those "
    "defaults and must show it (otherwise the text cannot decode to the same music); a first bar in C major 4/4 need not show anything",
    "from_Note(process_octaves=False) and from_NoteContainer(duration=None) were asked to omit octave / duration: only the "
    "remaining content is compared",
    "LilyPond header: title must be the 'title' field; author and subtitle must be the value of some header field (mingus "
    "uses composer and opus); the double quote and the backslash are outside the LilyPond character set (task statement)",
    "MusicXML attributes persist until changed (format definition): per measure the values *in force* (divisions, fifths, mode, "
    "beats, beat-type) are compared, so an exporter may but need not repeat them in every measure",
    "MusicXML: child order inside <note>/<pitch>, <type>, <time-modification>, clef and midi elements are not part of the "
    "statement and are not judged; numbers are compared as exact decimals ('32.0' == 32)",
    "MusicXML part ids: unique, and the same set as the part-list ids; part i (document order) is track i and takes its name "
    "and instrument from the score-part carrying its id; measure numbers must be present and pairwise distinct",
    "an empty title / author may be rendered as an absent element",
    "compositions never contain the same Track object twice (ids are object identities) and bars only hold values of the "
    "documented vocabulary; meter (0,0) is not exported",
    "the expected notes of an entry are read from the exported object graph itself (NoteContainer.notes after construction)",
]

# ---------------------------------------------------------------------------------------
# vocabulary of the enumerated space
# ---------------------------------------------------------------------------------------
CONTENTS = {
    "N": [["C", 4]],
    "M": [["F#", 2]],
    "X": [["Bbb", 6]],
    "CH": [["C", 4], ["E", 4], ["G", 4]],
    "D": [["Eb", 3], ["A##", 5]],
    "R": None,
    "E": [],
}
CONTENT_ORDER = ["N", "CH", "R", "M", "D", "E", "X"]
ALL_LABELS = [v[0] for v in V.VALUES]
VQ_PLUS = V.VQ_LABELS + ["longa", "longa.", "breve..", "1....", "64...", "128*7:4", "128", "32*5:4"]
BIG_METER = [32, 4]                       # 8 whole notes: every single vocabulary value fits
METERS = [[4, 4], [3, 4], [6, 8], [12, 8], [5, 4], [2, 2], [7, 8], [4, 2], [32, 4]]
NOTE_POOL = [["C", 4], ["E", 4], ["G#", 4], ["Bb", 4], ["D##", 5], ["Fbb", 3], ["A", 0], ["B#", 8]]


def exact_len(label):
    return 1 / V.BY_LABEL[label][2]


def fits(meter, labels):
    return sum((exact_len(l) for l in labels), Fraction(0)) <= Fraction(meter[0], meter[1])


# ---------------------------------------------------------------------------------------
# building real objects from JSON cases
# ---------------------------------------------------------------------------------------
def build_content(content):
    if content is None:
        return None
    if isinstance(content, dict):
        # notes put in place one by one with nc[i] = Note: a container may then hold two notes that sound the
        # same (C## next to D), which add_note would have folded into one
        notes = content["set"]
        nc = NoteContainer([Note("C", i) for i in range(len(notes))])
        for i, n in enumerate(notes):
            nc[i] = Note(n[0], n[1])
        return nc
    return NoteContainer([Note(n[0], n[1]) for n in content])


def build_bar(spec):
    """-> (Bar, expected entries) or (None, None) when the real Bar refuses an entry (unreachable)."""
    bar = Bar(spec["key"], tuple(spec["meter"]))
    expected = []
    for content, label in spec["entries"]:
        nc = build_content(content)
        val = V.BY_LABEL[label.split("~")[0]][1]
        if label.endswith("~f"):
            val = float(val)                 # the same value spelled as a float (4.0), as Track.from_chords produces them
        if label.endswith("~q"):
            val = V.BY_LABEL[label.split("~")[0]][2]              # ... and as the exact fraction (32/7 for a double-dotted eighth)
        if not bar.place_notes(nc, val):
            return None, None
        expected.append(expected_entry(nc, label.split("~")[0]))
    return bar, expected


def expected_entry(nc, label):
    b, d, r1, r2 = V.BY_LABEL[label][3] if label is not None else (None, None, 1, 1)
    notes = None
    if nc is not None and len(nc.notes) > 0:
        notes = sorted((n.name, n.octave) for n in nc.notes)
    return {"notes": notes, "base": b, "dots": d, "ratio": Fraction(r1, r2), "label": label}


def build_track(spec):
    instr = {None: lambda: None, "Instrument": Instrument, "Piano": Piano, "Guitar": Guitar,
             "Midi": MidiInstrument}[spec.get("instr")]()
    if instr is not None and spec.get("iname") is not None:
        instr.name = spec["iname"]
    t = Track(instr)
    if spec.get("name") is not None:
        t.name = spec["name"]
    exp = []
    shared = {}
    for bs in spec["bars"]:
        k = json.dumps(bs, sort_keys=True)
        if spec.get("share") and k in shared:
            # a repeated section: the very same Bar object stands at several places of the track
            bar, e = shared[k]
        else:
            bar, e = build_bar(bs)
            shared[k] = (bar, e)
        if bar is None:
            return None, None
        t.add_bar(bar)
        exp.append({"key": bs["key"], "meter": bs["meter"], "entries": e})
    return t, exp


def build_composition(spec):
    c = Composition()
    if spec.get("title") is not None or spec.get("subtitle") is not None:
        c.set_title(spec.get("title") if spec.get("title") is not None else "Untitled", spec.get("subtitle") or "")
    if spec.get("author") is not None:
        c.set_author(spec["author"])
    exp = []
    pool = {}
    for ts in spec["tracks"]:
        t, e = build_track(ts)
        if t is None:
            return None, None
        if spec.get("share_instruments") and t.instrument is not None:
            # players of the same instrument: the tracks point at one Instrument object
            k = (type(t.instrument).__name__, t.instrument.name)
            t.instrument = pool.setdefault(k, t.instrument)
        c.add_track(t)
        exp.append({"name": t.name, "instrument": None if t.instrument is None else t.instrument.name, "bars": e})
    return c, exp


def key_parts(key):
    """mingus writes a minor key with a lower-case tonic: 'eb' = E flat minor."""
    return key[0].upper() + key[1:], ("minor" if P.key_is_minor(key) else "major")


# ---------------------------------------------------------------------------------------
# LilyPond oracles
# ---------------------------------------------------------------------------------------
def show_entry(e):
    return {"notes": e["notes"], "base": None if e["base"] is None else str(e["base"]), "dots": e["dots"], "ratio": str(e["ratio"])}


def decoded_entry(e):
    return {"notes": None if e["notes"] is None else sorted(e["notes"]), "base": e["base"], "dots": e["dots"],
            "ratio": 1 / e["scale"]}


def compare_entries(S, site, expected, decoded, ratio=True, duration=True):
    """entry by entry: rest/notes, base value, dots, tuplet ratio.  Returns True when all agree."""
    if len(expected) != len(decoded):
        S.problem(site + ": number of entries", len(expected), len(decoded),
                  detail={"expected": [show_entry(x) for x in expected], "decoded": [show_entry(decoded_entry(x)) for x in decoded]})
        return False
    ok = True
    for i, (x, raw) in enumerate(zip(expected, decoded)):
        y = decoded_entry(raw)
        if x["notes"] != y["notes"]:
            S.problem("%s: entry %d notes" % (site, i), x["notes"], y["notes"], tags={"what": "notes"})
            ok = False
        if duration and (x["base"] != y["base"] or x["dots"] != y["dots"]):
            S.problem("%s: entry %d base value/dots" % (site, i), [str(x["base"]), x["dots"]], [str(y["base"]), y["dots"]],
                      tags={"what": "value", "label": x["label"]})
            ok = False
        if ratio and x["ratio"] != y["ratio"]:
            S.problem("%s: entry %d tuplet ratio" % (site, i), str(x["ratio"]), str(y["ratio"]), tags={"what": "ratio", "label": x["label"]})
            ok = False
        if x["notes"] is None:
            S.count("ly_rest_entries")
        elif len(x["notes"]) > 1:
            S.count("ly_chord_entries")
        if x["ratio"] != 1:
            S.count("ly_tuplet_entries")
        if x["dots"]:
            S.count("ly_dotted_entries")
        if x["base"] is not None and x["base"] < 1:
            S.count("ly_longa_breve_entries")
    return ok


def export(S, site, fn, *args):
    """Call the exporter; an exception or a non-string is a violation.  Returns the text or None."""
    S.trans(1)
    try:
        text = fn(*args)
    except Exception as e:                              # noqa -- the statement allows no error on valid music
        S.problem(site + " raised", "a document", e, tags={"what": "raised"})
        return None
    if not isinstance(text, str):
        S.problem(site + " result", "a string", repr(text))
        return None
    return text


def ly_parse(S, site, text, how):
    try:
        return how(text)
    except lily.LilyError as e:
        S.problem(site + ": output is outside the LilyPond subset", "decodable text", "%s in %r" % (e, text[:200]))
        return None


def run_ly_note(case):
    S = engine.S
    name, octave, process_octaves, standalone = case
    text = export(S, "lilypond.from_Note", LY.from_Note, Note(name, octave), process_octaves, standalone)
    if text is None:
        return
    tree = ly_parse(S, "from_Note", text, lily.parse_music if standalone else lily.parse_fragment)
    if tree is None:
        return
    S.outcome(zlib.crc32(text.encode()))
    rb = lily.read_bar(tree)
    if len(rb["entries"]) != 1 or rb["times"] or rb["keys"] or rb["entries"][0]["notes"] is None or len(rb["entries"][0]["notes"]) != 1:
        S.problem("from_Note: decoded content", "exactly one note", text)
        return
    got = rb["entries"][0]["notes"][0]
    if got[0] != name:
        S.problem("from_Note: letter/accidentals", name, got[0])
    if process_octaves:
        S.count("ly_notes_with_octave")
        if got[1] != octave:
            S.problem("from_Note: octave", octave, got[1])
    if rb["entries"][0]["base"] is not None:
        S.problem("from_Note: duration", "none", str(rb["entries"][0]["base"]))


def run_ly_nc(case):
    S = engine.S
    content, label, standalone = case
    nc = build_content(content)
    dur = None if label is None else V.BY_LABEL[label][1]
    text = export(S, "lilypond.from_NoteContainer", LY.from_NoteContainer, nc, dur, standalone)
    if text is None:
        return
    tree = ly_parse(S, "from_NoteContainer", text, lily.parse_music if standalone else lily.parse_fragment)
    if tree is None:
        return
    S.outcome(zlib.crc32(text.encode()))
    rb = lily.read_bar(tree)
    exp = expected_entry(nc, label)
    if exp["ratio"] != 1:
        S.count("ly_nc_tuplet_ratio_not_judged")
    compare_entries(S, "from_NoteContainer", [exp], rb["entries"], ratio=False, duration=label is not None)


def check_shown(S, site, rb, key, meter):
    """every shown key / time equals the bar's"""
    want_key = key_parts(key)
    for k in rb["keys"]:
        S.count("ly_keys_shown")
        if tuple(k) != want_key:
            S.problem(site + ": shown key", list(want_key), list(k), tags={"what": "key"})
    for t in rb["times"]:
        S.count("ly_times_shown")
        if tuple(t) != tuple(meter):
            S.problem(site + ": shown time signature", list(meter), list(t), tags={"what": "time"})
    if rb["late"]:
        S.problem(site + ": position of \\key/\\time", "before the entries of the bar they belong to", "%d written after entries" % rb["late"])


def run_ly_bar(case):
    S = engine.S
    bar, exp = build_bar(case)
    if bar is None:
        S.count("unreachable_bar_skipped")
        return
    text = export(S, "lilypond.from_Bar", LY.from_Bar, bar, case["showkey"], case["showtime"])
    if text is None:
        return
    tree = ly_parse(S, "from_Bar", text, lily.parse_music)
    if tree is None:
        return
    S.outcome(zlib.crc32(text.encode()))
    rb = lily.read_bar(tree)
    compare_entries(S, "from_Bar", exp, rb["entries"])
    check_shown(S, "from_Bar", rb, case["key"], case["meter"])
    if case["showkey"] and not rb["keys"]:
        S.problem("from_Bar(showkey=True): key", list(key_parts(case["key"])), "not shown")
    if case["showtime"] and not rb["times"]:
        S.problem("from_Bar(showtime=True): time signature", case["meter"], "not shown")
    if not exp:
        S.count("ly_empty_bars")
    S.sample(case)


def check_ly_track(S, site, exp_bars, bars):
    if len(bars) != len(exp_bars):
        S.problem(site + ": number of bars", len(exp_bars), len(bars))
        return
    for i, (eb, rb) in enumerate(zip(exp_bars, bars)):
        s = "%s bar %d" % (site, i)
        compare_entries(S, s, eb["entries"], rb["entries"])
        check_shown(S, s, rb, eb["key"], eb["meter"])
        if i == 0:
            # start of a staff: LilyPond's defaults (C major, 4/4) are in force until something is shown
            if eb["key"] != "C":
                S.count("ly_first_bar_not_default_key")
                if not rb["keys"]:
                    S.problem(s + ": first bar of the track is in %s, LilyPond's default is c \\major" % eb["key"],
                              list(key_parts(eb["key"])), "not shown", tags={"what": "keychange"})
            if list(eb["meter"]) != [4, 4]:
                S.count("ly_first_bar_not_default_meter")
                if not rb["times"]:
                    S.problem(s + ": first bar of the track is in %s, LilyPond's default is 4/4" % (eb["meter"],),
                              eb["meter"], "not shown", tags={"what": "timechange"})
        if i > 0:
            if eb["key"] != exp_bars[i - 1]["key"]:
                S.count("ly_key_changes")
                if not rb["keys"]:
                    S.problem(s + ": key changes from %s" % exp_bars[i - 1]["key"], list(key_parts(eb["key"])), "not shown", tags={"what": "keychange"})
            if list(eb["meter"]) != list(exp_bars[i - 1]["meter"]):
                S.count("ly_meter_changes")
                if not rb["times"]:
                    S.problem(s + ": meter changes from %s" % (exp_bars[i - 1]["meter"],), eb["meter"], "not shown", tags={"what": "timechange"})


def run_ly_track(case):
    S = engine.S
    t, exp = build_track(case)
    if t is None:
        S.count("unreachable_bar_skipped")
        return
    text = export(S, "lilypond.from_Track", LY.from_Track, t)
    if text is None:
        return
    tree = ly_parse(S, "from_Track", text, lily.parse_music)
    if tree is None:
        return
    S.outcome(zlib.crc32(text.encode()))
    try:
        bars = lily.read_track(tree)
    except lily.LilyError as e:
        S.problem("from_Track: structure", "a group of bar groups", "%s in %r" % (e, text[:200]))
        return
    check_ly_track(S, "from_Track", exp, bars)
    S.sample(case)


def run_ly_comp(case):
    S = engine.S
    c, exp = build_composition(case)
    if c is None:
        S.count("unreachable_bar_skipped")
        return
    text = export(S, "lilypond.from_Composition", LY.from_Composition, c)
    if text is None:
        return
    try:
        doc = lily.read_composition(text)
    except lily.LilyError as e:
        S.problem("from_Composition: output is outside the LilyPond subset", "decodable text", "%s in %r" % (e, text[:200]))
        return
    S.outcome(zlib.crc32(text.encode()))
    h = doc["header"]
    if h is None:
        S.problem("from_Composition: header", "a \\header block", "none")
    else:
        S.count("ly_headers")
        if h.get("title") != c.title:
            S.problem("from_Composition: header title", c.title, h.get("title"), tags={"what": "header"})
        if c.author not in h.values():
            S.problem("from_Composition: header author", c.author, h, tags={"what": "header"})
        if c.subtitle not in h.values():
            S.problem("from_Composition: header subtitle", c.subtitle, h, tags={"what": "header"})
        if any(ch in (c.title + c.author + c.subtitle) for ch in "<&>'{}%#="):
            S.count("ly_header_markup_strings")
    if len(doc["tracks"]) != len(exp):
        S.problem("from_Composition: number of tracks", len(exp), len(doc["tracks"]))
        return
    for i, (et, bars) in enumerate(zip(exp, doc["tracks"])):
        check_ly_track(S, "from_Composition track %d" % i, et["bars"], bars)
    S.sample(case)


# ---------------------------------------------------------------------------------------
# MusicXML oracle
# ---------------------------------------------------------------------------------------
def xml_pitch(name, octave):
    return (name[0], Fraction(P.net(name)), octave)


def check_measure(S, site, eb, m, eff):
    want_sig, want_mode = P.KEY_SIG[eb["key"]], key_parts(eb["key"])[1]
    if eff["beats"] is None or (eff["beats"], eff["beat_type"]) != (str(eb["meter"][0]), str(eb["meter"][1])):
        S.problem(site + ": time", [str(eb["meter"][0]), str(eb["meter"][1])], [eff["beats"], eff["beat_type"]], tags={"what": "time"})
    if eff["fifths"] != want_sig:
        S.problem(site + ": key fifths", want_sig, eff["fifths"], tags={"what": "fifths"})
    if eff["mode"] != want_mode:
        S.problem(site + ": key mode", want_mode, eff["mode"], tags={"what": "mode"})
    # group the note elements: a note without <chord/> starts an entry, one with <chord/> joins it
    groups = []
    for n in m["notes"]:
        if n["chord"]:
            if not groups:
                S.problem(site + ": chord flags", "the first note of a measure starts an entry", "first note carries <chord/>", tags={"what": "chord"})
                return
            groups[-1].append(n)
        else:
            groups.append([n])
    exp = eb["entries"]
    want_sizes = [1 if e["notes"] is None else len(e["notes"]) for e in exp]
    got_sizes = [len(g) for g in groups]
    if sum(want_sizes) != len(m["notes"]):
        S.problem(site + ": number of note elements", sum(want_sizes), len(m["notes"]), tags={"what": "count"})
        return
    if want_sizes != got_sizes:
        S.problem(site + ": chord flags (notes per entry, <chord/> on every chord note after the first)", want_sizes, got_sizes,
                  detail={"chord_flags": [n["chord"] for n in m["notes"]]}, tags={"what": "chord"})
        return
    for i, (e, g) in enumerate(zip(exp, groups)):
        s = "%s entry %d" % (site, i)
        if e["notes"] is None:
            S.count("xml_rest_entries")
            if not g[0]["rest"]:
                S.problem(s + ": rest", "a <rest/>", [g[0]["step"], str(g[0]["alter"]), g[0]["octave"]], tags={"what": "rest"})
        else:
            if len(g) > 1:
                S.count("xml_chord_entries")
            want = sorted(xml_pitch(nm, o) for nm, o in e["notes"])
            if any(n["rest"] for n in g):
                S.problem(s + ": pitch", [[a, str(b), c] for a, b, c in want], "a rest", tags={"what": "pitch"})
            else:
                got = sorted((n["step"], n["alter"], n["octave"]) for n in g)
                if got != want:
                    S.problem(s + ": step/alter/octave", [[a, str(b), c] for a, b, c in want], [[a, str(b), c] for a, b, c in got], tags={"what": "pitch"})
        quarters = 4 * exact_len(e["label"])
        for n in g:
            if n["dots"] != e["dots"]:
                S.problem(s + ": dots", e["dots"], n["dots"], tags={"what": "dots", "label": e["label"]})
            div = eff["divisions"]
            if n["duration"] is None or div is None or div <= 0:
                S.problem(s + ": duration/divisions", str(quarters), "duration %s, divisions %s" % (n["duration"], div), tags={"what": "duration", "label": e["label"]})
            elif n["duration"] / div != quarters:
                S.problem(s + ": duration/divisions (quarter notes)", str(quarters), "%s/%s = %s" % (n["duration"], div, n["duration"] / div),
                          tags={"what": "duration", "label": e["label"]})
        if e["dots"]:
            S.count("xml_dotted_entries")
        if e["ratio"] != 1:
            S.count("xml_tuplet_entries")
        if e["base"] < 1:
            S.count("xml_longa_breve_entries")


def check_score(S, site, text, comp, exp_tracks):
    try:
        score = mxml.read_score(text)
    except mxml.MxmlError as e:
        S.problem(site + ": document", "well-formed score-partwise", str(e), detail=text[:300], tags={"what": "wellformed"})
        return None
    # texts
    if comp.title:
        if score["title"] != str(comp.title):
            S.problem(site + ": title", comp.title, score["title"], tags={"what": "text"})
    elif score["title"] not in (None, ""):
        S.problem(site + ": title", "", score["title"], tags={"what": "text"})
    if comp.author:
        if str(comp.author) not in [c[1] for c in score["creators"]]:
            S.problem(site + ": author", comp.author, score["creators"], tags={"what": "text"})
    # parts <-> part list
    pids = [p["id"] for p in score["parts"]]
    lids = [p["id"] for p in score["part_list"]]
    if len(pids) != len(exp_tracks):
        S.problem(site + ": number of parts", len(exp_tracks), len(pids), tags={"what": "parts"})
        return score
    if None in pids or "" in pids or len(set(pids)) != len(pids):
        S.problem(site + ": part ids", "present and unique", pids, tags={"what": "ids"})
        return score
    if len(set(lids)) != len(lids) or set(lids) != set(pids):
        S.problem(site + ": part-list ids", "unique and the same as the part ids", {"parts": len(pids), "part_list": len(lids), "common": len(set(lids) & set(pids))}, tags={"what": "ids"})
        return score
    by_id = dict((p["id"], p) for p in score["part_list"])
    for ti, (et, part) in enumerate(zip(exp_tracks, score["parts"])):
        s = "%s part %d" % (site, ti)
        sp = by_id[part["id"]]
        if sp["name"] != et["name"]:
            S.problem(s + ": track name", et["name"], sp["name"], tags={"what": "text"})
        if et["instrument"] is not None:
            S.count("xml_instrument_names")
            if str(et["instrument"]) not in [i["name"] for i in sp["instruments"]]:
                S.problem(s + ": instrument name", et["instrument"], sp["instruments"], tags={"what": "text"})
        ms = part["measures"]
        if len(ms) != len(et["bars"]):
            S.problem(s + ": number of measures", len(et["bars"]), len(ms), tags={"what": "measures"})
            continue
        nums = [m["number"] for m in ms]
        if None in nums or "" in nums or len(set(nums)) != len(nums):
            S.problem(s + ": measure numbers", "present and distinct", nums, tags={"what": "numbers"})
        eff = mxml.effective_attributes(ms)
        for bi, (eb, m) in enumerate(zip(et["bars"], ms)):
            check_measure(S, "%s measure %d" % (s, bi), eb, m, eff[bi])
            S.count("xml_measures")
    return score


def xml_outcome(score):
    if score is None:
        return "undecodable"
    body = repr([(score["title"], score["creators"], [(p["name"], [i["name"] for i in p["instruments"]]) for p in score["part_list"]]),
                 [[(m["number"], str(m["divisions"]), m["fifths"], m["mode"], m["beats"], m["beat_type"],
                    [(n["rest"], n["step"], str(n["alter"]), n["octave"], n["chord"], n["dots"], str(n["duration"])) for n in m["notes"]])
                   for m in p["measures"]] for p in score["parts"]]])
    return zlib.crc32(body.encode())


def run_xml_bar(case):
    S = engine.S
    bar, exp = build_bar(case)
    if bar is None:
        S.count("unreachable_bar_skipped")
        return
    if not exp:
        S.count("xml_empty_bars")
    text = export(S, "musicxml.from_Bar", MX.from_Bar, bar)
    if text is None:
        return
    # from_Bar wraps the bar in a default Track in a default Composition
    ref_comp, ref_track = Composition(), Track()
    score = check_score(S, "from_Bar", text, ref_comp,
                        [{"name": ref_track.name, "instrument": None, "bars": [{"key": case["key"], "meter": case["meter"], "entries": exp}]}])
    S.outcome(xml_outcome(score))
    S.sample(case)


def run_xml_track(case):
    S = engine.S
    t, exp = build_track(case)
    if t is None:
        S.count("unreachable_bar_skipped")
        return
    S.count("xml_empty_bars", sum(1 for b in exp if not b["entries"]))
    text = export(S, "musicxml.from_Track", MX.from_Track, t)
    if text is None:
        return
    score = check_score(S, "from_Track", text, Composition(),
                        [{"name": t.name, "instrument": None if t.instrument is None else t.instrument.name, "bars": exp}])
    S.outcome(xml_outcome(score))
    S.sample(case)


def run_xml_comp(case):
    S = engine.S
    c, exp = build_composition(case)
    if c is None:
        S.count("unreachable_bar_skipped")
        return
    S.count("xml_empty_bars", sum(1 for t in exp for b in t["bars"] if not b["entries"]))
    text = export(S, "musicxml.from_Composition", MX.from_Composition, c)
    if text is None:
        return
    score = check_score(S, "from_Composition", text, c, exp)
    names = [c.title or "", c.author or ""] + [t["name"] for t in exp] + [t["instrument"] or "" for t in exp]
    if any(ch in "".join(names) for ch in "<&>'\""):
        S.count("xml_markup_strings")
    S.outcome(xml_outcome(score))
    S.sample(case)


# ---------------------------------------------------------------------------------------
# re-export after the exported objects were edited in place
# ---------------------------------------------------------------------------------------
RERENDER_BARS = [
    [[[["C", 4]], "4"], [[["E", 4], ["G", 4]], "4"], [None, "4"], [[["A", 3]], "8"], [[["B", 3]], "8"]],
    [[[["D", 5]], "8*3:2"], [[["F", 5]], "8*3:2"], [[["A", 5], ["C", 6]], "8*3:2"], [[["Bb", 2]], "2."]],
    [[[["F#", 4], ["A", 4], ["C#", 5]], "1"]],
]
RERENDER_EDITS = [["transpose", "3", True], ["transpose", "b2", False], ["augment"], ["diminish"], ["setitem", 0, [["G", 2]]],
                  ["setitem", 1, [["Eb", 6], ["Bb", 6]]], ["note_octave_up", 0], ["note_set", 1, "F#", 7], ["deepcopy_then", ["augment"]]]
RERENDER_VIAS = ["ly_bar", "ly_track", "ly_composition", "xml_bar", "xml_composition"]


def _labels_of(spec):
    return [e[1] for e in spec["entries"]]


def _expected_of(bar, labels):
    return [expected_entry(e[2], lab) for e, lab in zip(bar.bar, labels)]


def _apply_rerender_edit(bar, edit):
    how = edit[0]
    if how == "transpose":
        bar.transpose(edit[1], edit[2])
    elif how == "augment":
        bar.augment()
    elif how == "diminish":
        bar.diminish()
    elif how == "setitem":
        i = edit[1] % len(bar.bar)
        if bar.bar[i][2] is None:
            i = 0
        bar[i] = NoteContainer([Note(n, o) for n, o in edit[2]])
    elif how == "note_octave_up":
        bar.bar[edit[1] % len(bar.bar)][2].notes[0].octave_up()
    elif how == "note_set":
        i = edit[1] % len(bar.bar)
        if bar.bar[i][2] is None:
            i = 0
        bar.bar[i][2].notes[-1].set_note(edit[2], edit[3])
    else:
        raise engine.HarnessError("unknown edit %r" % (edit,))


def _export_and_compare(S, site, via, bar, key, meter, labels):
    exp = _expected_of(bar, labels)
    if via == "ly_bar":
        text = export(S, site, LY.from_Bar, bar, True, True)
        tree = None if text is None else ly_parse(S, site, text, lily.parse_music)
        if tree is not None:
            compare_entries(S, site, exp, lily.read_bar(tree)["entries"])
    elif via in ("ly_track", "ly_composition"):
        t = Track()
        t.add_bar(bar)
        if via == "ly_track":
            text = export(S, site, LY.from_Track, t)
            tree = None if text is None else ly_parse(S, site, text, lily.parse_music)
            bars = None
            if tree is not None:
                try:
                    bars = lily.read_track(tree)
                except lily.LilyError as e:
                    S.problem(site + ": structure", "a group of bar groups", "%s in %r" % (e, text[:200]))
        else:
            c = Composition()
            c.add_track(t)
            text = export(S, site, LY.from_Composition, c)
            bars = None
            if text is not None:
                try:
                    doc = lily.read_composition(text)
                except lily.LilyError as e:
                    S.problem(site + ": output is outside the LilyPond subset", "decodable text", "%s in %r" % (e, text[:200]))
                    doc = None
                if doc is not None:
                    if len(doc["tracks"]) != 1:
                        S.problem(site + ": number of tracks", 1, len(doc["tracks"]))
                    else:
                        bars = doc["tracks"][0]
        if bars is not None:
            if len(bars) != 1:
                S.problem(site + ": number of bars", 1, len(bars))
            else:
                compare_entries(S, site, exp, bars[0]["entries"])
    elif via == "xml_bar":
        text = export(S, site, MX.from_Bar, bar)
        if text is not None:
            check_score(S, site, text, Composition(), [{"name": Track().name, "instrument": None, "bars": [{"key": key, "meter": meter, "entries": exp}]}])
    elif via == "xml_composition":
        t = Track()
        t.add_bar(bar)
        c = Composition()
        c.add_track(t)
        text = export(S, site, MX.from_Composition, c)
        if text is not None:
            check_score(S, site, text, c, [{"name": t.name, "instrument": None, "bars": [{"key": key, "meter": meter, "entries": exp}]}])
    else:
        raise engine.HarnessError("unknown via %r" % via)
    S.trans(1)


def run_rerender(case):
    """case = [bar index, via, edit]: export the bar, edit it in place, export it again: the second text must decode
    to the edited music (and the first to the original)."""
    import copy
    S = engine.S
    bi, via, edit = case
    spec = {"key": "D", "meter": [4, 4], "entries": RERENDER_BARS[bi]}
    bar, _ = build_bar(spec)
    if bar is None:
        raise engine.HarnessError("rerender bar not reachable")
    labels = _labels_of(spec)
    _export_and_compare(S, "%s, first export" % via, via, bar, "D", [4, 4], labels)
    if edit[0] == "deepcopy_then":
        bar = copy.deepcopy(bar)
        edit = edit[1]
    _apply_rerender_edit(bar, edit)
    _export_and_compare(S, "%s, exported again after %r on the exported bar" % (via, edit), via, bar, "D", [4, 4], labels)
    S.count("rerender_cases")
    S.outcome((bi, via, edit[0]))


def run_value_forms(case):
    """case = [base label, order, via]: in freshly loaded value / exporter modules a base value is exported in its int
    and in its float spelling (4 and 4.0), in the given order; both texts must decode to that value."""
    import importlib
    import mingus.core.value as _mvalue
    S = engine.S
    label, order, via = case
    importlib.reload(_mvalue)
    importlib.reload(LY)
    importlib.reload(MX)
    for lab in ([label + "~f", label + "~q", label] if order == "float_first" else [label, label + "~q", label + "~f"]):
        spec = {"key": "C", "meter": list(BIG_METER), "showkey": True, "showtime": True,
                "entries": [[[["C", 4]], lab], [None, lab], [[["E", 4], ["G", 4]], lab]]}
        if via == "ly":
            run_ly_bar(spec)
        else:
            run_xml_bar(spec)
    S.count("value_form_cases")


CLAUSES = {
    "rerender": run_rerender,
    "value_forms": run_value_forms,
    "ly_note": run_ly_note,
    "ly_container": run_ly_nc,
    "ly_bar": run_ly_bar,
    "ly_track": run_ly_track,
    "ly_composition": run_ly_comp,
    "xml_bar": run_xml_bar,
    "xml_track": run_xml_track,
    "xml_composition": run_xml_comp,
}


# ---------------------------------------------------------------------------------------
# enumeration
# ---------------------------------------------------------------------------------------
def bar_case(key, meter, entries, showkey=True, showtime=True):
    return {"key": key, "meter": list(meter), "showkey": showkey, "showtime": showtime,
            "entries": [[CONTENTS[c], l] for c, l in entries]}


def rhythm_bars(first, labels, maxlen):
    """Every sequence of <= maxlen values starting with `first` that fits the big meter; the content of
    an entry is a function of (position, value) so that all content kinds meet all values."""
    idx = dict((l, i) for i, l in enumerate(ALL_LABELS))

    def content(pos, label):
        return CONTENT_ORDER[(pos * 3 + idx[label]) % len(CONTENT_ORDER)]

    def rec(seq):
        yield bar_case("C", BIG_METER, [(content(i, l), l) for i, l in enumerate(seq)])
        if len(seq) < maxlen:
            for l in labels:
                if fits(BIG_METER, seq + [l]):
                    for x in rec(seq + [l]):
                        yield x

    return rec([first])


def content_bars(first, values, maxlen, meter=(4, 4)):
    """Every sequence of <= maxlen (content, value) entries over the whole content alphabet that fits."""
    alphabet = [(c, l) for c in CONTENT_ORDER for l in values]

    def rec(seq):
        yield bar_case("G", meter, seq)
        if len(seq) < maxlen:
            for e in alphabet:
                if fits(meter, [x[1] for x in seq] + [e[1]]):
                    for x in rec(seq + [e]):
                        yield x

    for l in values:
        for x in rec([(first, l)]):
            yield x


KEY_BARS = [
    [],
    [("N", "4")],
    [("CH", "8*3:2"), ("R", "8*3:2"), ("M", "8*3:2"), ("D", "8.")],
]


def key_meter_bars(key, flags=True):
    for meter in METERS:
        for ents in KEY_BARS:
            if not fits(meter, [e[1] for e in ents]):
                continue
            for sk, st in (itertools.product([True, False], repeat=2) if flags else [(True, True)]):
                yield bar_case(key, meter, ents, sk, st)


def pitch_bars(name):
    """one bar per octave 0..8 holding the single note `name`, and one bar holding all nine in turn"""
    for o in range(0, 9):
        yield {"key": "C", "meter": [4, 4], "showkey": True, "showtime": True, "entries": [[[[name, o]], "4"]]}
    yield {"key": "C", "meter": [12, 4], "showkey": False, "showtime": True,
           "entries": [[[[name, o]], "4"] for o in range(0, 9)]}


def chord_bars(first):
    """bars holding one chord: every subset of the note pool with 1..5 notes whose lowest-index member
    is `first`, x three kinds of value; and the same chord twice around a rest"""
    rest = NOTE_POOL[first + 1:]
    for k in range(0, 5):
        for comb in itertools.combinations(rest, k):
            chord = [NOTE_POOL[first]] + list(comb)
            for l in ("4", "8.", "4*3:2"):
                yield {"key": "F", "meter": [4, 4], "showkey": True, "showtime": False, "entries": [[chord, l]]}
            yield {"key": "F", "meter": [4, 4], "showkey": True, "showtime": False,
                   "entries": [[chord, "4"], [None, "4"], [chord, "8"]]}


UNISON_CHORDS = [
    [["C##", 4], ["D", 4]],
    [["C#", 4], ["Db", 4], ["F", 4]],
    [["E", 4], ["G", 4], ["Fb", 4]],
    [["B#", 3], ["C", 4], ["Dbb", 4]],
    [["C", 4], ["C", 4]],
    [["A", 4], ["E", 4], ["C", 4]],          # not in pitch order
]


def unison_bars(i):
    """chords whose notes were set in place (nc[i] = Note): equal-sounding notes side by side, unsorted notes"""
    chord = {"set": UNISON_CHORDS[i]}
    for l in ("4", "8.", "4*3:2"):
        yield {"key": "F", "meter": [4, 4], "showkey": True, "showtime": False, "entries": [[chord, l]]}
    yield {"key": "F", "meter": [4, 4], "showkey": True, "showtime": False,
           "entries": [[chord, "4"], [None, "4"], [chord, "8"], [[["D", 4]], "8"]]}
    yield {"key": "F", "meter": [4, 4], "showkey": True, "showtime": False,
           "entries": [[[["D", 4], ["F", 4]], "4"], [chord, "4"], [[["D", 4], ["F", 4]], "4"]]}


# values whose lengths in quarter notes have the largest and the most unrelated denominators of the vocabulary
# (512, 256, 48, 40, 56, 3, 5, 7, ...): every subset of 3-5 of them in one bar, so that the measure's divisions
# must be a common multiple of many denominators at once (up to 512 * 105)
DENOMINATOR_VALUES = ["128....", "128...", "64....", "128*3:2", "128*5:4", "128*7:4", "4*3:2", "4*5:4", "4*7:4", "32...."]


def denominator_bars(first):
    rest = DENOMINATOR_VALUES[first + 1:]
    for k in (2, 3, 4):
        for comb in itertools.combinations(rest, k):
            seq = [DENOMINATOR_VALUES[first]] + list(comb)
            for rot in (0, 1):
                seq2 = seq[rot:] + seq[:rot]
                yield bar_case("C", BIG_METER, [(CONTENT_ORDER[(i + rot) % 4], l) for i, l in enumerate(seq2)])


def strip_flags(bc):
    return {"key": bc["key"], "meter": bc["meter"], "entries": bc["entries"]}


def zoo_bars():
    z = [
        bar_case("C", (4, 4), [("N", "4"), ("CH", "4"), ("R", "2")]),
        bar_case("C", (4, 4), [("N", "8*3:2"), ("M", "8*3:2"), ("R", "8*3:2"), ("X", "4"), ("D", "4*5:4"), ("E", "4*5:4")]),
        bar_case("E", (4, 4), [("N", "4.")]),
        bar_case("a", (4, 4), [("R", "1")]),
        bar_case("C", (3, 4), [("D", "2.")]),
        bar_case("Eb", (6, 8), []),
        bar_case("c#", (4, 4), [("M", "4.."), ("CH", "16")]),
        bar_case("E", (4, 2), [("N", "breve")]),
    ]
    return [strip_flags(b) for b in z]


def bar_sequences(zoo, maxlen):
    for n in range(1, maxlen + 1):
        for seq in itertools.product(range(len(zoo)), repeat=n):
            yield [zoo[i] for i in seq]


def zoo_tracks():
    z = zoo_bars()
    return [
        {"bars": []},
        {"bars": [z[0]]},
        {"bars": [z[2], z[4]], "name": "Bass & <Drums>", "instr": "Piano"},
        {"bars": [z[1], z[5], z[3]], "name": "", "instr": "Midi", "iname": "Tin \"whistle\""},
        # tracks that begin in the key / meter another one ends in (nothing may carry over between tracks)
        {"bars": [z[4]], "name": "three-four"},
        {"bars": [z[2]], "name": "E major"},
    ]


def strings(chars, maxlen):
    out = []
    for n in range(0, maxlen + 1):
        for t in itertools.product(chars, repeat=n):
            out.append("".join(t))
    return out


LY_CHARS = ["a", " ", "<", "&", ">", "'", "{", "}", "%", "#", "="]
XML_CHARS = ["a", " ", "<", "&", ">", "'", '"', "]", u"é"]
XML_NASTY = ["&amp;", "&lt;b&gt;", "<![CDATA[x]]>", "]]>", "</part-name>", "<!-- c -->", "&#38;", u"aé中", "<?pi?>",
             "Sonata in <C> & 'D' \"minor\"",
             # characters beyond the basic multilingual plane, and at its edges (all legal in XML 1.0)
             u"\U0001D11E clef", u"violin \U0001F3BB", u"\U00010000\U0010FFFF", u"\uD7FF\uE000\uFFFD", u"tab\there",
             # characters that str.splitlines() treats as line ends
             u"a\u2028b", u"a\u2029b", u"a\u0085b", u"two\n\nlines"]
LY_NASTY = ["Sonata in <C> & 'D'", "%{ x %}", "} {", "a = b", "header {", "c'4 <e g>"]


def gen_ly_comp(shard):
    kind, arg = shard
    zt = zoo_tracks()
    lt = [{"bars": t["bars"]} for t in zt]
    if kind == "tracks":
        # every sequence of 1..3 zoo tracks starting with track `arg`, default and fixed texts
        for n in range(1, 4):
            for seq in itertools.product(range(len(lt)), repeat=n - 1):
                tr = [lt[arg]] + [lt[i] for i in seq]
                yield {"tracks": tr}
                yield {"title": "T <1> & 'x'", "author": "A & B", "subtitle": "{s}", "tracks": tr}
    elif kind == "field":
        field, strs = arg
        for s in strs:
            case = {"title": "t", "author": "u", "subtitle": "v", "tracks": [lt[1]]}
            case[field] = s
            yield case
    elif kind == "pairs":
        f1, f2, strs, first = arg
        for s2 in strs:
            case = {"title": "t", "author": "u", "subtitle": "v", "tracks": [lt[1]]}
            case[f1], case[f2] = first, s2
            yield case
    elif kind == "triples":
        strs, first = arg
        for s2 in strs:
            for s3 in strs:
                yield {"title": first, "author": s2, "subtitle": s3, "tracks": [lt[0]]}


XML_FIELDS = ["title", "author", "name", "iname"]


def xml_text_case(assign):
    tr = {"bars": zoo_bars()[:1], "name": "n", "instr": "Instrument", "iname": "i"}
    case = {"title": "t", "author": "u", "tracks": [tr]}
    for f, s in assign.items():
        if f in ("name", "iname"):
            tr[f] = s
        else:
            case[f] = s
    return case


def gen_xml_comp(shard):
    kind, arg = shard
    zt = zoo_tracks()
    if kind == "tracks":
        for n in range(1, 4):
            for seq in itertools.product(range(len(zt)), repeat=n - 1):
                tr = [zt[arg]] + [zt[i] for i in seq]
                yield {"tracks": tr}
                yield {"title": "T <1> & \"x\"", "author": "A & 'B'", "tracks": tr}
                if n >= 2:
                    yield {"tracks": tr, "share_instruments": True}
    elif kind == "field":
        field, strs = arg
        for s in strs:
            yield xml_text_case({field: s})
    elif kind == "pairs":
        f1, f2, strs, first = arg
        for s2 in strs:
            yield xml_text_case({f1: first, f2: s2})


def gen_xml_track(shard):
    instr, maxlen = shard
    zoo = zoo_bars()
    for seq in bar_sequences(zoo, maxlen):
        spec = {"bars": seq, "instr": instr}
        yield spec
        if len(seq) > len(set(json.dumps(b, sort_keys=True) for b in seq)):
            yield dict(spec, share=True)
        if instr is not None and len(seq) == 1:
            yield dict(spec, name="Tr & <1>", iname="I \"q\" 'a' &")


def gen_ly_nc(shard):
    """containers: every subset of the note pool with 1..5 notes whose first (lowest-index) member is
    `shard`, plus the two rest forms, x every value (and no value) x standalone."""
    first, labels = shard
    if first == "rest":
        contents = [None, []]
    else:
        rest = NOTE_POOL[first + 1:]
        contents = []
        for k in range(0, 5):
            for comb in itertools.combinations(rest, k):
                contents.append([NOTE_POOL[first]] + list(comb))
    for c in contents:
        for l in [None] + labels:
            for standalone in (False, True):
                yield [c, l, standalone]


def explore(ctx):
    q = ctx.quick
    names = P.names(2)
    ctx.bound("note_names", "NAMES(2): %d" % len(names))
    ctx.bound("octaves", "0-8")
    ctx.bound("value_vocabulary", len(ALL_LABELS))
    ctx.bound("keys", len(P.KEYS30))
    ctx.bound("meters", METERS)
    ctx.bound("content_alphabet", CONTENTS)

    # ---- LilyPond ------------------------------------------------------------------
    if ctx.want("ly_note"):
        ctx.product("ly_note", names, lambda nm: ([nm, o, po, sa] for o in range(0, 9) for po in (True, False) for sa in (True, False)))
    if ctx.want("ly_container"):
        labels = ALL_LABELS
        ctx.bound("container_pool", NOTE_POOL)
        ctx.product("ly_container", [(i, labels) for i in range(len(NOTE_POOL))] + [("rest", labels)], gen_ly_nc)
    if ctx.want("ly_bar"):
        rl3 = ctx.pick(VQ_PLUS, ALL_LABELS)
        ctx.bound("ly_bar_rhythm", "all value sequences of length <=2 over the 80 values and of length 3 over %d values, that fit %d/%d" % (len(rl3), BIG_METER[0], BIG_METER[1]))
        ctx.product("ly_bar", ALL_LABELS, lambda l: rhythm_bars(l, ALL_LABELS, 2))
        ctx.product("ly_bar", list(rl3), lambda l: (c for c in rhythm_bars(l, rl3, 3) if len(c["entries"]) == 3))
        ctx.product("ly_bar", ["4", "8*3:2", "4*5:4", "8."], lambda l: (c for c in rhythm_bars(l, ["4", "8*3:2", "4*5:4", "8.", "16*7:4"], 5) if len(c["entries"]) >= 4))
        cl = ctx.pick(3, 4)
        cv = ["4", "8*3:2", "8."]
        ctx.bound("ly_bar_content", "all sequences of <=%d entries over %d contents x %s in 4/4" % (cl, len(CONTENT_ORDER), cv))
        ctx.product("ly_bar", CONTENT_ORDER, lambda c: content_bars(c, cv, cl))
        ctx.product("ly_bar", P.KEYS30, key_meter_bars)
        ctx.product("ly_bar", names, pitch_bars)
        ctx.product("ly_bar", range(len(NOTE_POOL)), chord_bars)
        ctx.product("ly_bar", range(len(UNISON_CHORDS)), unison_bars)
        ctx.product("ly_bar", range(len(DENOMINATOR_VALUES) - 2), denominator_bars)
    if ctx.want("ly_track"):
        zoo = zoo_bars()
        ctx.bound("track_zoo_bars", len(zoo))
        def _ly_tracks(i):
            for n in (0, 1, 2):
                for rest in itertools.product(range(len(zoo)), repeat=n):
                    yield {"bars": [zoo[i]] + [zoo[j] for j in rest]}
                    if len(set((i,) + rest)) < n + 1:
                        yield {"bars": [zoo[i]] + [zoo[j] for j in rest], "share": True}      # one Bar object, several places
        ctx.product("ly_track", range(len(zoo)), _ly_tracks)
    if ctx.want("ly_composition"):
        s2 = strings(LY_CHARS, 2) + LY_NASTY
        s1 = strings(LY_CHARS, 1)
        shards = [("tracks", i) for i in range(4)] + [("field", (f, s2)) for f in ("title", "author", "subtitle")]
        shards += [("triples", (s1, a)) for a in s1]
        if not q:
            s3 = strings(LY_CHARS, 3)
            shards += [("field", (f, s3)) for f in ("title", "author", "subtitle")]
            for f1, f2 in (("title", "author"), ("title", "subtitle"), ("author", "subtitle")):
                shards += [("pairs", (f1, f2, s2, a)) for a in s2]
        ctx.bound("ly_header_chars", LY_CHARS)
        ctx.product("ly_composition", shards, gen_ly_comp)

    if ctx.want("value_forms"):
        bases = ["1", "2", "4", "8", "16", "32", "64", "128", "4.", "8..", "2...", "16....", "32..", "8*3:2", "16*5:4", "4*7:4"]
        ctx.bound("value_forms", {"values": bases, "spellings": ["int / float as the vocabulary has it", "float", "exact Fraction"],
                                  "orders": ["float_first", "int_first"], "exports": ["ly", "xml"]})
        ctx.product("value_forms", bases, lambda b: ([b, o, via] for o in ("float_first", "int_first") for via in ("ly", "xml")))
    if ctx.want("rerender"):
        ctx.bound("rerender", {"bars": len(RERENDER_BARS), "edits": RERENDER_EDITS, "exports": RERENDER_VIAS})
        ctx.product("rerender", list(range(len(RERENDER_BARS))), lambda bi: ([bi, via, e] for via in RERENDER_VIAS for e in RERENDER_EDITS))

    # ---- MusicXML ------------------------------------------------------------------
    if ctx.want("xml_bar"):
        r2 = ctx.pick(VQ_PLUS, ALL_LABELS)
        ctx.bound("xml_bar_rhythm", "every single value; all sequences of length 2 over %d values%s" % (len(r2), "" if q else "; of length 3 over %d values" % len(VQ_PLUS)))
        ctx.product("xml_bar", ALL_LABELS, lambda l: rhythm_bars(l, [], 1))
        ctx.product("xml_bar", list(r2), lambda l: (c for c in rhythm_bars(l, r2, 2) if len(c["entries"]) == 2))
        if not q:
            ctx.product("xml_bar", VQ_PLUS, lambda l: (c for c in rhythm_bars(l, VQ_PLUS, 3) if len(c["entries"]) == 3))
        cl = ctx.pick(3, 4)
        cv = ["4", "8*3:2", "8."]
        ctx.bound("xml_bar_content", "all sequences of <=%d entries over %d contents x %s in 4/4" % (cl, len(CONTENT_ORDER), cv))
        ctx.product("xml_bar", CONTENT_ORDER, lambda c: content_bars(c, cv, cl))
        ctx.product("xml_bar", P.KEYS30, lambda k: key_meter_bars(k, flags=False))
        ctx.product("xml_bar", names, pitch_bars)
        ctx.product("xml_bar", range(len(NOTE_POOL)), chord_bars)
        ctx.product("xml_bar", range(len(UNISON_CHORDS)), unison_bars)
        ctx.bound("xml_bar_denominators", "every subset of 3-5 of %s in one bar" % DENOMINATOR_VALUES)
        ctx.product("xml_bar", range(len(DENOMINATOR_VALUES) - 2), denominator_bars)
    if ctx.want("xml_track"):
        ctx.product("xml_track", [(None, 3), ("Instrument", 2), ("Piano", 2), ("Guitar", 2), ("Midi", 2)] if q else
                    [(i, 3) for i in (None, "Instrument", "Piano", "Guitar", "Midi")], gen_xml_track)
    if ctx.want("xml_composition"):
        s2 = strings(XML_CHARS, 2) + XML_NASTY
        shards = [("tracks", i) for i in range(4)] + [("field", (f, s2)) for f in XML_FIELDS]
        if not q:
            s3 = strings(XML_CHARS, 3)
            shards += [("field", (f, s3)) for f in XML_FIELDS]
            for f1, f2 in itertools.combinations(XML_FIELDS, 2):
                shards += [("pairs", (f1, f2, s2, a)) for a in s2]
        ctx.bound("xml_text_chars", XML_CHARS)
        ctx.product("xml_composition", shards, gen_xml_comp)

    if not ctx.only:
        ctx.guard("lilypond notes decoded with octave", ctx.counter("ly_notes_with_octave"), 400)
        ctx.guard("lilypond chord entries", ctx.counter("ly_chord_entries"), 1000)
        ctx.guard("lilypond rest entries", ctx.counter("ly_rest_entries"), 1000)
        ctx.guard("lilypond tuplet entries", ctx.counter("ly_tuplet_entries"), 1000)
        ctx.guard("lilypond dotted entries", ctx.counter("ly_dotted_entries"), 1000)
        ctx.guard("lilypond longa/breve entries", ctx.counter("ly_longa_breve_entries"), 100)
        ctx.guard("lilypond keys shown", ctx.counter("ly_keys_shown"), 1000)
        ctx.guard("lilypond times shown", ctx.counter("ly_times_shown"), 1000)
        ctx.guard("lilypond key changes between bars", ctx.counter("ly_key_changes"), 100)
        ctx.guard("lilypond meter changes between bars", ctx.counter("ly_meter_changes"), 100)
        ctx.guard("lilypond empty bars", ctx.counter("ly_empty_bars"), 30)
        ctx.guard("lilypond headers with markup characters", ctx.counter("ly_header_markup_strings"), 100)
        ctx.guard("musicxml measures", ctx.counter("xml_measures"), 1000)
        ctx.guard("musicxml chord entries", ctx.counter("xml_chord_entries"), 500)
        ctx.guard("musicxml rest entries", ctx.counter("xml_rest_entries"), 500)
        ctx.guard("musicxml dotted entries", ctx.counter("xml_dotted_entries"), 200)
        ctx.guard("musicxml tuplet entries", ctx.counter("xml_tuplet_entries"), 500)
        ctx.guard("musicxml longa/breve entries", ctx.counter("xml_longa_breve_entries"), 50)
        ctx.guard("musicxml empty bars", ctx.counter("xml_empty_bars"), 30)
        ctx.guard("musicxml instrument names", ctx.counter("xml_instrument_names"), 100)
        ctx.guard("musicxml texts with markup characters", ctx.counter("xml_markup_strings"), 100)
    if ctx.counter("unreachable_bar_skipped"):
        ctx.note("%d enumerated bars were refused by the real Bar and not exported" % ctx.counter("unreachable_bar_skipped"))
    if ctx.counter("ly_nc_tuplet_ratio_not_judged"):
        ctx.note("%d from_NoteContainer calls had a tuplet value; their ratio is judged at bar level only" % ctx.counter("ly_nc_tuplet_ratio_not_judged"))


KNOWN = {}
