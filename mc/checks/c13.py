# -*- coding: utf-8 -*-
"""C13 -- Bar time accounting is exact under any placement history (DESIGN.md section 4, C13)."""
from fractions import Fraction
import copy
import itertools

from mc import engine
from mc.engine import BfsSpec
from mc.ref import values as V

from mingus.containers.bar import Bar
from mingus.containers.note import Note
from mingus.containers.note_container import NoteContainer
from mingus.containers.mt_exceptions import MeterFormatError

PROPERTY = "C13"
RULE = ("bfs over placement histories on a real Bar in lock-step with an exact Fraction model; product over all "
        "fills-to-capacity; distinct_nontrivial = distinct observed (clause, outcome) keys such as "
        "(accepted?, entries, full?)")
ASSUMPTIONS = [
    "start beats/current_beat are floats by representation: equality with the exact prefix sum is checked to 1e-9",
    "is_full is not checked on the unbounded (0,0) meter (the statement defines 'full' through the remaining length)",
    "the exact length of a vocabulary value is the rational the documentation names (dotted eighth = 3/16), not the binary float",
]

METERS = [(4, 4), (3, 4), (6, 8), (12, 8), (5, 4), (2, 2), (7, 8), (0, 0)]
KINDS = ["str", "note", "list", "nc", "rest"]


def make_content(kind):
    if kind == "str":
        return "C", [("C", 4)]
    if kind == "note":
        return Note("E", 5), [("E", 5)]
    if kind == "list":
        return ["C", "E"], [("C", 4), ("E", 4)]
    if kind == "nc":
        return NoteContainer(["C", "E", "G"]), [("C", 4), ("E", 4), ("G", 4)]
    if kind == "pairs":
        # the documented nested list form [[name, octave], ...] (placements only)
        return [["D", 5], ["F", 5]], [("D", 5), ("F", 5)]
    if kind == "rest":
        return None, None
    if kind == "empty_list":
        return [], []                      # "lists become note containers": an empty one too
    if kind == "empty_nc":
        return NoteContainer(), []
    raise engine.HarnessError("unknown content kind %r" % kind)


def content_of(entry_content):
    if entry_content is None:
        return None
    if not isinstance(entry_content, NoteContainer):
        return ("not a NoteContainer", type(entry_content).__name__)
    return [(n.name, n.octave) for n in entry_content.notes]


class RefBar(object):
    def __init__(self, meter):
        self.meter = tuple(meter)
        self.length = Fraction(meter[0], meter[1]) if meter[1] else Fraction(0)
        self.entries = []          # [exact start, value float, exact length, content]
        self.total = Fraction(0)

    def pop(self):
        e = self.entries.pop()
        self.total -= e[2]
        return e

    def fits(self, exact_value):
        if self.meter == (0, 0):
            return True
        return self.total + 1 / Fraction(exact_value) <= self.length

    def place(self, value_float, exact_value, content):
        if not self.fits(exact_value):
            return False
        self.entries.append([self.total, value_float, 1 / Fraction(exact_value), content])
        self.total += 1 / Fraction(exact_value)
        return True


class State(object):
    def __init__(self, meter):
        self.bar = Bar("C", tuple(meter))
        self.ref = RefBar(meter)


def snapshot(bar):
    return ([(e[0].hex() if isinstance(e[0], float) else repr(e[0]), e[1], content_of(e[2])) for e in bar.bar],
            float(bar.current_beat).hex(), bar.meter, bar.length)


def check_invariant(st, S):
    bar, ref = st.bar, st.ref
    if len(bar) != len(ref.entries):
        S.problem("len(bar)", len(ref.entries), len(bar))
        return
    for i, (e, r) in enumerate(zip(bar.bar, ref.entries)):
        if abs(e[0] - float(r[0])) > 1e-9:
            S.problem("bar[%d] start beat" % i, str(r[0]), e[0])
        if e[1] != r[1]:
            S.problem("bar[%d] value" % i, r[1], e[1])
        if content_of(e[2]) != r[3]:
            S.problem("bar[%d] content" % i, r[3], content_of(e[2]))
        if bar[i] is not e:
            S.problem("bar[%d] indexing" % i, "the stored entry", "something else")
    if abs(bar.current_beat - float(ref.total)) > 1e-9:
        S.problem("current_beat", str(ref.total), bar.current_beat)
    if abs(bar.current_beat + bar.space_left() - float(ref.length)) > 1e-12:
        S.problem("current_beat + space_left()", float(ref.length), bar.current_beat + bar.space_left())
    if abs(bar.length - float(ref.length)) > 1e-12:
        S.problem("bar.length", float(ref.length), bar.length)
    if ref.meter != (0, 0):
        remaining = ref.length - ref.total
        if abs(remaining - Fraction(1, 1000)) < Fraction(1, 10 ** 6):
            S.count("is_full_threshold_skipped")
        else:
            want = bool(ref.entries) and remaining <= Fraction(1, 1000)
            got = bar.is_full()
            if got is not want:
                S.problem("is_full()", want, got, detail={"remaining": str(remaining)})
            S.count("full_states" if want else "nonfull_states")
    S.outcome((len(ref.entries), str(ref.total), bar.is_full()))


def do_place(st, S, value_item, kind, via, check):
    """via: 'place_notes' | 'place_rest' | 'plus'"""
    bar, ref = st.bar, st.ref
    label, vfloat, vexact = value_item[0], value_item[1], value_item[2]
    content, expect = make_content(kind)
    if via == "plus":
        unit0 = ref.meter[1] if ref.meter[1] != 0 else 4
        will_fit = ref.fits(Fraction(unit0))
    else:
        will_fit = ref.fits(vexact)
    before = None if will_fit else snapshot(bar)
    if via == "plus":
        unit = ref.meter[1] if ref.meter[1] != 0 else 4
        vfloat, vexact = unit, Fraction(unit)
        got = bar + content
    elif via == "place_rest":
        content, expect = None, None
        got = bar.place_rest(vfloat)
    else:
        got = bar.place_notes(content, vfloat)
    want = ref.place(vfloat, vexact, expect)
    if not check:
        return
    S.count("accepted" if want else "refused")
    if want and ref.meter != (0, 0) and ref.total == ref.length:
        S.count("accepted_exactly_at_capacity")
    if got is not want:
        S.problem("%s(%s) return value" % (via, label), want, got,
                  detail={"exact_total_before": str(ref.total - (ref.entries[-1][2] if want else 0)),
                          "length": str(ref.length), "value": label},
                  tags={"value": label, "kind": kind, "via": via, "want": want})
        # keep impl and model aligned on what the *implementation* did is not possible; stop here
        return
    if not want:
        after = snapshot(bar)
        if after != before:
            S.problem("%s(%s) refused but changed the bar" % (via, label), before, after)


class AccountingSpec(BfsSpec):
    observe_prefix = True      # the invariant's observations are made at every step of a replayed history

    """(i) accounting bfs: time accounting under place/+/remove_last histories."""

    def __init__(self, meter, vals):
        self.meter = tuple(meter)
        self.vals = vals

    def params(self):
        return {"meter": list(self.meter)}

    def init(self):
        return State(self.meter)

    def actions(self):
        return [["place", v[0]] for v in self.vals] + [["plus"], ["remove_last"], ["empty"]]

    def step(self, st, act, check=True):
        S = engine.S
        kind = KINDS[len(st.ref.entries) % len(KINDS)]      # a function of the state, not of the path
        if act[0] == "place":
            item = V.BY_LABEL[act[1]]
            do_place(st, S, item, kind, "place_rest" if kind == "rest" else "place_notes", check)
        elif act[0] == "plus":
            do_place(st, S, V.BY_LABEL["4"], kind, "plus", check)
        elif act[0] == "remove_last":
            if not st.ref.entries:
                if check:
                    S.count("remove_last_on_empty_skipped")
                return
            ret = st.bar.remove_last_entry()
            st.ref.pop()
            if check and abs(ret - float(st.ref.total)) > 1e-9:
                S.problem("remove_last_entry() return", str(st.ref.total), ret)
        elif act[0] == "empty":
            # Bar.empty(): "remove all the NoteContainers" -- the same as removing the last entry until none is left
            if not st.ref.entries:
                if check:
                    S.count("empty_on_empty_skipped")
                return
            st.bar.empty()
            while st.ref.entries:
                st.ref.pop()
        else:
            raise engine.HarnessError("bad action %r" % (act,))

    def invariant(self, st):
        check_invariant(st, engine.S)

    def canon(self, st):
        # the whole instance state of the real Bar (every attribute, floats bit-exact): whatever
        # future behaviour can depend on is in there, including state a changed library adds
        return engine.deep_key(st.bar)


CONTENT_FORMS = ["str", "note", "list", "nc", "rest", "empty_list", "empty_nc"]


class ContentSpec(BfsSpec):
    observe_prefix = True      # the invariant's observations are made at every step of a replayed history

    """(ii) content bfs: what is stored, __setitem__, place_notes_at, remove_last."""

    def __init__(self, meter):
        self.meter = tuple(meter)

    def params(self):
        return {"meter": list(self.meter)}

    def init(self):
        return State(self.meter)

    def actions(self):
        acts = []
        for k in CONTENT_FORMS:
            for v in ("4", "8"):
                acts.append(["place", k, v])
        acts.append(["rest", "4"])
        acts.append(["place", "pairs", "4"])
        acts.append(["plus", "pairs"])
        for k in CONTENT_FORMS:
            acts.append(["plus", k])
        for i in (0, -1):
            for k in ("str", "note", "list", "nc", "empty_list"):
                acts.append(["setitem", i, k])
        for k in ("note", "nc"):           # explicit octaves only: bare-name voicing is C12's subject
            for i in (0, -1):
                acts.append(["place_at", i, k])
        acts.append(["remove_last"])
        return acts

    def step(self, st, act, check=True):
        S = engine.S
        bar, ref = st.bar, st.ref
        if act[0] == "place":
            do_place(st, S, V.BY_LABEL[act[2]], act[1], "place_rest" if act[1] == "rest" else "place_notes", check)
        elif act[0] == "rest":
            do_place(st, S, V.BY_LABEL[act[1]], "rest", "place_rest", check)
        elif act[0] == "plus":
            do_place(st, S, V.BY_LABEL["4"], act[1], "plus", check)
        elif act[0] == "setitem":
            if not ref.entries:
                return
            i = act[1]
            content, expect = make_content(act[2])
            others_before = snapshot(bar)
            bar[i] = content
            ref.entries[i][3] = sorted_by_pitch(expect)
            if check:
                self._only_entry_changed(S, others_before, snapshot(bar), i, "bar[%d] = %s" % (i, act[2]))
        elif act[0] == "place_at":
            if not ref.entries:
                return
            i = act[1]
            if ref.entries[i][3] is None:
                # the statement speaks of a *sounding* entry
                if check:
                    S.count("place_at_on_rest_skipped")
                return
            content, expect = make_content(act[2])
            at = bar.bar[i][0]
            # entries sharing that exact start beat (zero-length cannot occur: all values finite)
            idxs = [j for j, e in enumerate(bar.bar) if e[0] == at]
            if len(idxs) != 1:
                raise engine.HarnessError("two entries share a start beat")
            others_before = snapshot(bar)
            # another bar with an entry on that very beat exists (created just now): only *this* bar is addressed
            decoy = Bar("G", self.meter)
            for e in bar.bar[:(i % len(bar.bar)) + 1]:
                decoy.place_notes(NoteContainer(["C-2"]), e[1])
            decoy_before = snapshot(decoy)
            bar.place_notes_at(content, at)
            if check and snapshot(decoy) != decoy_before:
                S.problem("place_notes_at on one bar changed another bar holding an entry on the same beat", decoy_before, snapshot(decoy))
            ref.entries[i][3] = merge_notes(ref.entries[i][3], expect)
            if check:
                self._only_entry_changed(S, others_before, snapshot(bar), i, "place_notes_at(%s, beat of entry %d)" % (act[2], i))
                if isinstance(content, NoteContainer):
                    # the notes were *added to* the entry: what the caller does to its own container afterwards is its business
                    held = snapshot(bar)
                    content.add_note(Note("B", 7))
                    content.notes.reverse()
                    if snapshot(bar) != held:
                        S.problem("place_notes_at(%s, beat of entry %d), then the caller changes its own container" % (act[2], i), held, snapshot(bar))
        elif act[0] == "remove_last":
            if not ref.entries:
                return
            bar.remove_last_entry()
            ref.pop()
        else:
            raise engine.HarnessError("bad action %r" % (act,))

    @staticmethod
    def _only_entry_changed(S, before, after, i, site):
        n = len(before[0])
        i = i % n
        if len(after[0]) != n:
            S.problem(site, "same number of entries", len(after[0]))
            return
        for j in range(n):
            if j == i:
                if (before[0][j][0], before[0][j][1]) != (after[0][j][0], after[0][j][1]):
                    S.problem(site, "start/value of the entry untouched", after[0][j])
            elif before[0][j] != after[0][j]:
                S.problem(site, "entry %d untouched: %r" % (j, before[0][j]), after[0][j])
        if before[1:] != after[1:]:
            S.problem(site, "current_beat/meter/length untouched: %r" % (before[1:],), after[1:])

    def invariant(self, st):
        check_invariant(st, engine.S)

    def canon(self, st):
        return engine.deep_key(st.bar)


NAT = {"C": 0, "D": 2, "E": 4, "F": 5, "G": 7, "A": 9, "B": 11}


def _p(n):
    return n[1] * 12 + NAT[n[0][0]] + n[0].count("#") - n[0].count("b")


def sorted_by_pitch(notes):
    if notes is None:
        return None
    return sorted(notes, key=_p)


def merge_notes(have, add):
    out = list(have)
    for n in add:
        if _p(n) not in [_p(x) for x in out]:
            out.append(n)
    return sorted(out, key=_p)


# ---------------------------------------------------------------------------------------
# (iii) capacity frontier: fills a^i b^j to capacity and one attempt beyond
# ---------------------------------------------------------------------------------------
FRONTIER_MIN = Fraction(1, 112)


def frontier_values():
    return [v for v in V.VALUES if 1 / v[2] >= FRONTIER_MIN and v[2] >= 1]


def run_fill(case):
    """case = [meter, label_a, i, label_b]: i times a, then b until the model says full, then one
    extra attempt of a and of b (both must be refused or accepted exactly as the model says)."""
    S = engine.S
    meter, la, i, lb = case
    st = State(meter)
    a, b = V.BY_LABEL[la], V.BY_LABEL[lb]
    seq = [a] * i
    n = 0
    for item in seq:
        do_place(st, S, item, "str", "place_notes", True)
        n += 1
    # b until the model refuses (bounded: at most length/len(b) + 1 placements)
    guard = 0
    while st.ref.fits(b[2]) and guard < 2000:
        do_place(st, S, b, "rest" if guard % 2 else "str", "place_notes", True)
        guard += 1
        n += 1
    do_place(st, S, b, "str", "place_notes", True)      # one beyond: must be refused
    do_place(st, S, a, "str", "place_notes", True)      # a may or may not still fit: model decides
    n += 2
    check_invariant(st, S)
    S.trans(n)


def gen_fill(shard):
    meter, la = shard
    a = V.BY_LABEL[la]
    length = Fraction(meter[0], meter[1])
    imax = int(length / (1 / a[2]))
    for lb in [v[0] for v in frontier_values()]:
        for i in range(0, imax + 1):
            yield [list(meter), la, i, lb]


# ---------------------------------------------------------------------------------------
# place_at after place / remove-last round trips (start beats that are accumulated floats)
# ---------------------------------------------------------------------------------------
DRIFT_SYMBOLS = {"q": "4", "t": "8*3:2", "f": "4*5:4", "s": "16*7:4", "x": "128*7:4", "y": "128..."}
_DRIFT_NOTES = [("F", 5), ("A", 5), ("B", 5), ("D", 6), ("F", 6), ("A", 6), ("B", 6), ("D", 7), ("F", 7), ("A", 7), ("B", 7), ("D", 8)]


def run_place_at_drift(case):
    """case = [meter, program]: program is a string over q/t/f/s (place a note of that value) and '-' (remove the last
    entry); afterwards notes are added at the exact start beat of every sounding entry in turn: only that entry may change."""
    S = engine.S
    meter, prog = case
    bar = Bar("C", tuple(meter))
    k = 0
    for ch in prog:
        if ch == "-":
            if len(bar):
                bar.remove_last_entry()
        else:
            k += 1
            bar.place_notes(NoteContainer(Note("C", 2 + k % 3)) if k % 4 else None, V.BY_LABEL[DRIFT_SYMBOLS[ch]][1])
    S.trans(len(prog))
    n = len(bar.bar)
    if n > len(_DRIFT_NOTES):
        raise engine.HarnessError("more entries than probe notes")
    starts = [e[0] for e in bar.bar]
    if len(set(starts)) != n:
        raise engine.HarnessError("two entries share a start beat")
    for j in range(n):
        if bar.bar[j][2] is None:
            continue
        before = snapshot(bar)
        name, octv = _DRIFT_NOTES[j]
        bar.place_notes_at(Note(name, octv), starts[j])
        S.trans(1)
        after = snapshot(bar)
        site = "place_notes_at(%s-%d, start beat of entry %d) after the program %r" % (name, octv, j, prog)
        ContentSpec._only_entry_changed(S, before, after, j, site)
        want = sorted_by_pitch((before[0][j][2] or []) + [(name, octv)])
        if after[0][j][2] != want:
            S.problem(site + ": content of the entry", want, after[0][j][2])
        S.count("place_at_after_round_trips")
    S.outcome((n, sum(1 for a, b in zip(bar.bar, bar.bar[1:]) if a[0] + 1.0 / a[1] != b[0])))
    if any(a[0] + 1.0 / a[1] != b[0] for a, b in zip(bar.bar, bar.bar[1:])):
        S.count("bars_whose_next_start_differs_from_start_plus_length_in_the_last_bit")


def gen_place_at_drift(shard):
    """shard = (meter, alphabet, max length, first two symbols): every program with that prefix that ends in a placement"""
    meter, alphabet, maxlen, prefix = shard
    for n in range(0, maxlen - len(prefix) + 1):
        for tail in itertools.product(alphabet, repeat=n):
            prog = prefix + "".join(tail)
            if prog[-1] != "-" and prog[0] != "-":
                yield [list(meter), prog]


def run_setitem_shared(case):
    """case = [copies, index, kind]: the caller placed one NoteContainer object `copies` times in a bar (and once in a
    second bar); bar[index] = new content replaces that entry's content only."""
    S = engine.S
    copies, index, kind = case
    shared = NoteContainer(["C-4", "E-4"])
    bar = Bar("C", (4, 4))
    for _ in range(copies):
        bar.place_notes(shared, 4)
    other = Bar("G", (4, 4))
    other.place_notes(shared, 2)
    before, other_before = snapshot(bar), snapshot(other)
    content, expect = make_content(kind)
    bar[index] = content
    S.trans(1)
    after = snapshot(bar)
    site = "bar[%d] = %s in a bar whose %d entries hold one and the same NoteContainer object" % (index, kind, copies)
    ContentSpec._only_entry_changed(S, before, after, index, site)
    if after[0][index % copies][2] != sorted_by_pitch(expect):
        S.problem(site + ": content of the entry", sorted_by_pitch(expect), after[0][index % copies][2])
    if snapshot(other) != other_before:
        S.problem(site + ": another bar holding the same object", other_before, snapshot(other))
    if content_of(shared) != [("C", 4), ("E", 4)]:
        S.problem(site + ": the caller's NoteContainer", [("C", 4), ("E", 4)], content_of(shared))
    S.count("setitem_on_shared_containers")
    S.outcome((copies, index, kind))


def run_homogeneous(case):
    """every vocabulary value (all 80) v, v, ... until the model says no room, plus one beyond."""
    S = engine.S
    meter, lv = case
    st = State(meter)
    v = V.BY_LABEL[lv]
    n = 0
    while st.ref.fits(v[2]) and n < 3000:
        do_place(st, S, v, "str", "place_notes", True)
        n += 1
    do_place(st, S, v, "str", "place_notes", True)
    check_invariant(st, S)
    S.trans(n + 1)


def run_set_meter(case):
    S = engine.S
    count, unit, as_list = case
    meter = [count, unit] if as_list else (count, unit)
    b = Bar("C", (4, 4))
    is_pow2 = (isinstance(unit, int) and unit >= 1 and (unit & (unit - 1)) == 0) or \
              (isinstance(unit, float) and unit >= 1 and float(unit).is_integer() and (int(unit) & (int(unit) - 1)) == 0)
    want_ok = is_pow2 or (tuple(meter) == (0, 0) and not as_list) or (tuple(meter) == (0, 0))
    S.trans(1)
    try:
        engine.with_step_budget(b.set_meter, (meter,), budget=20000)
        ok, err = True, None
    except engine.StepBudgetExceeded:
        raise
    except Exception as e:                       # noqa -- the statement says "accepts exactly ..."; any error is a refusal
        ok, err = False, e
        S.count("set_meter_refused_with_" + type(e).__name__)
    if as_list and tuple(meter) == (0, 0):
        # a list never equals the tuple (0, 0); the statement says "(0,0)" -- either answer is accepted
        S.count("set_meter_list_00_either")
        S.outcome(("list00", ok))
        return
    S.outcome((count, unit, ok))
    if ok != want_ok:
        S.problem("set_meter(%r)" % (meter,), "accepted" if want_ok else "MeterFormatError", "accepted" if ok else err)
        return
    if ok:
        S.count("set_meter_accepted")
        want_len = 0.0 if unit == 0 else count / float(unit)
        if abs(b.length - want_len) > 1e-12:
            S.problem("set_meter(%r) length" % (meter,), want_len, b.length)
        if tuple(b.meter) != (count, unit):
            S.problem("set_meter(%r) meter" % (meter,), (count, unit), b.meter)
    else:
        S.count("set_meter_refused")
        if b.meter != (4, 4) or b.length != 1.0:
            S.problem("set_meter(%r) refused but changed the bar" % (meter,), ((4, 4), 1.0), (b.meter, b.length))


FINE_LABELS = ["128", "128.", "128*3:2", "128*5:4", "128*7:4", "64", "64*3:2", "64*5:4", "64*7:4", "32*7:4", "32*3:2", "64.", "64...", "128...."]


def run_near_full(case):
    """case = [meter, [label, ...]]: very short values placed in a very short meter, so that accepted placements leave
    remainders far below a thousandth of a whole note (but not nothing); the full accounting invariant after every
    step, and again after removing and re-placing the last entry."""
    S = engine.S
    meter, labels = case
    st = State(meter)
    check_invariant(st, S)
    for lab in labels:
        do_place(st, S, V.BY_LABEL[lab], "str", "place_notes", True)
        check_invariant(st, S)
    if st.ref.entries:
        last = st.ref.entries[-1]
        st.bar.remove_last_entry()
        st.ref.pop()
        check_invariant(st, S)
        do_place(st, S, V.BY_LABEL[labels[-1]], "rest", "place_rest", True)
        check_invariant(st, S)
    rem = st.ref.length - st.ref.total
    if Fraction(0) < rem <= Fraction(1, 1000):
        S.count("states_with_a_remainder_below_a_thousandth")
    S.trans(len(labels) + 2)


def gen_near_full(shard):
    meter, first = shard
    for n in (0, 1, 2):
        for rest in itertools.product(FINE_LABELS, repeat=n):
            yield [list(meter), [first] + list(rest)]


METER_SEQ = [(4, 4), (6, 8), (2, 2), (3, 16), (0, 0), (3, 4), (3, 5), (7, 1)]


def run_meter_history(case):
    """case = [initial meter index, [meter index, ...]]: meters set one after the other on an empty bar (refused ones leave
    it alone), then '+': one entry of one beat of the meter in force (a quarter note in the free meter)."""
    S = engine.S
    first, seq = case
    m0 = METER_SEQ[first]
    if m0 in ((3, 5),):
        return
    b = Bar("C", m0)
    cur = m0
    for i in seq:
        m = METER_SEQ[i]
        try:
            b.set_meter(m)
            ok = True
        except Exception:                                        # noqa -- which meters are refused is the set_meter clause's subject
            ok = False
        if ok:
            cur = m
    S.trans(len(seq) + 1)
    site = "Bar('C', %r) after set_meter %r, then bar + 'C'" % (m0, [METER_SEQ[i] for i in seq])
    if tuple(b.meter) != cur:
        S.problem(site + ": meter in force", cur, b.meter)
        return
    r = b + "C"
    want_value = 4 if cur == (0, 0) else cur[1]
    if len(b.bar) != 1:
        S.problem(site + ": entries", 1, len(b.bar))
        return
    e = b.bar[0]
    if e[0] != 0.0 or e[1] != want_value or content_of(e[2]) != [("C", 4)]:
        S.problem(site + ": the entry placed", [0.0, want_value, [("C", 4)]], [e[0], e[1], content_of(e[2])])
    if abs(b.current_beat - 1.0 / want_value) > 1e-12:
        S.problem(site + ": current_beat", 1.0 / want_value, b.current_beat)
    want_len = 0.0 if cur == (0, 0) else cur[0] / float(cur[1])
    if abs(b.length - want_len) > 1e-12:
        S.problem(site + ": length", want_len, b.length)
    S.count("meter_histories")
    S.outcome((cur, want_value))


def run_remeter(case):
    """case = [initial meter index, quarter notes placed, [meter index, ...]]: a bar that already holds entries gets other
    meters (also shorter ones than what it holds): set_meter sets the meter and the length and nothing else; afterwards
    '+' is accepted exactly when the exact total allows it, and removing what was placed restores the cursor."""
    S = engine.S
    first, k, seq = case
    m0 = METER_SEQ[first]
    b = Bar("C", m0)
    placed = 0
    for j in range(k):
        if b.place_notes(Note("C", 3 + j % 3), 4):
            placed += 1
    total = Fraction(placed, 4)
    cur = m0
    S.trans(k + 1)
    for i in seq:
        m = METER_SEQ[i]
        before = snapshot(b)
        try:
            b.set_meter(m)
            ok = True
        except Exception:                                        # noqa -- which meters are refused is the set_meter clause's subject
            ok = False
        S.trans(1)
        site = "Bar('C', %r) holding %d quarter notes, set_meter %r" % (m0, placed, [METER_SEQ[x] for x in seq[:seq.index(i) + 1]])
        after = snapshot(b)
        if not ok:
            if after != before:
                S.problem(site + " (refused): bar afterwards", before, after)
                return
            continue
        cur = m
        want_len = 0.0 if cur == (0, 0) else cur[0] / float(cur[1])
        if after[0] != before[0]:
            S.problem(site + ": entries", before[0], after[0])
            return
        if tuple(b.meter) != cur or abs(b.length - want_len) > 1e-12:
            S.problem(site + ": meter / length", [cur, want_len], [b.meter, b.length])
            return
        if abs(b.current_beat - float(total)) > 1e-12:
            S.problem(site + ": current_beat", float(total), b.current_beat)
            return
        if abs((b.current_beat + b.space_left()) - want_len) > 1e-9:
            S.problem(site + ": current_beat + space_left()", want_len, b.current_beat + b.space_left())
            return
        # one more beat of the meter in force
        unit = 4 if cur == (0, 0) else cur[1]
        fits = cur == (0, 0) or total + Fraction(1, unit) <= Fraction(cur[0], cur[1])
        n_before = len(b.bar)
        r = b.place_notes(Note("G", 5), unit)
        S.trans(1)
        if bool(r) is not fits or len(b.bar) != n_before + (1 if fits else 0):
            S.problem(site + ", then one more beat (1/%d): accepted" % unit, fits, [r, len(b.bar) - n_before])
            return
        if fits:
            start = b.bar[-1][0]
            if abs(start - float(total)) > 1e-12:
                S.problem(site + ", then one more beat: its start beat", float(total), start)
                return
            b.remove_last_entry()
            if abs(b.current_beat - float(total)) > 1e-12 or len(b.bar) != n_before:
                S.problem(site + ", one more beat placed and removed again: current_beat", float(total), b.current_beat)
                return
    S.count("remeter_histories")
    S.outcome((m0, placed, cur))


_SPECS = {}


def _spec(name, meter):
    meter = tuple(meter)
    if name == "accounting":
        return AccountingSpec(meter, V.VQ)
    return ContentSpec(meter)


def _bfs_runner(name):
    def runner(case):
        spec = _spec(name, case["meter"])
        engine.bfs_execute(spec, case["history"], check_prefix=True)
    return runner


CLAUSES = {
    "accounting": _bfs_runner("accounting"),
    "content": _bfs_runner("content"),
    "fill": run_fill,
    "homogeneous": run_homogeneous,
    "set_meter": run_set_meter,
    "meter_history": run_meter_history,
    "remeter": run_remeter,
    "near_full": run_near_full,
    "place_at_drift": run_place_at_drift,
    "setitem_shared": run_setitem_shared,
}


def explore(ctx):
    only = getattr(ctx, "only", None)
    d_acc = ctx.pick(4, 5)
    d_con = ctx.pick(4, 5)
    acc_meters = ctx.pick([(4, 4), (6, 8), (5, 4), (0, 0)], METERS)
    ctx.bound("meters_accounting", acc_meters)
    ctx.bound("accounting_depth", d_acc)
    ctx.bound("content_depth", d_con)
    ctx.bound("accounting_values", V.VQ_LABELS)
    if not only or "accounting" in only:
        for m in acc_meters:
            spec = AccountingSpec(m, V.VQ)
            ctx.bfs("accounting", spec, d_acc, label="accounting %d/%d" % m)
    if not only or "content" in only:
        for m in ctx.pick([(4, 4)], [(4, 4), (3, 4), (0, 0)]):
            spec = ContentSpec(m)
            ctx.bfs("content", spec, d_con, label="content %d/%d" % m)
    bounded = [m for m in METERS if m != (0, 0)]
    if not only or "homogeneous" in only:
        ctx.product("homogeneous", [m for m in bounded], lambda m: ([list(m), v[0]] for v in V.VALUES))
    if not only or "fill" in only:
        global FRONTIER_MIN
        FRONTIER_MIN = ctx.pick(Fraction(1, 40), Fraction(1, 112))
        fvals = [v[0] for v in frontier_values()]
        fill_meters = ctx.pick([(4, 4), (6, 8), (12, 8)], bounded)
        ctx.bound("fill_meters", fill_meters)
        ctx.bound("fill_values", len(fvals))
        ctx.product("fill", [(m, la) for m in fill_meters for la in fvals], gen_fill)
    if not only or "set_meter" in only:
        counts = [-1, 0, 1, 3, 4, 12]
        units = [0, 1, 2, 3, 4, 5, 6, 8, 16, 64, 0.5, 1.5, 4.0, 6.0]
        cases = [[c, u, False] for c in counts for u in units] + [[0, 0, True], [4, 4, True]]
        ctx.serial("set_meter", cases)
    if not only or "place_at_drift" in only:
        long_n, wide_n = ctx.pick(11, 12), ctx.pick(8, 9)
        shards = [((4, 4), "qt-", long_n, a + b) for a in "qt" for b in "qt-"]
        shards += [((4, 4), "qtfs-", wide_n, a + b) for a in "qtfs" for b in "qtfs-"]
        shards += [((0, 0), "qtf-", wide_n, a + b) for a in "qtf" for b in "qtf-"]
        # the shortest values of the vocabulary: neighbouring entries start a few thousandths of a whole note apart
        shards += [((4, 4), "qxy-", ctx.pick(6, 7), a + b) for a in "qxy" for b in "qxy-"]
        ctx.bound("place_at_drift", {"programs over {q,t,-}": "length <= %d" % long_n, "over {q,t,f,s,-} in 4/4 and {q,t,f,-} in (0,0)": "length <= %d" % wide_n,
                                     "symbols": DRIFT_SYMBOLS})
        ctx.product("place_at_drift", shards, gen_place_at_drift)
    if not only or "near_full" in only:
        nf_meters = [(1, 64), (1, 32), (3, 64), (1, 16), (1, 1024), (1, 2048), (3, 4096)]
        ctx.bound("near_full", {"meters": nf_meters, "values": FINE_LABELS, "entries": "<= 3"})
        ctx.product("near_full", [(m, l) for m in nf_meters for l in FINE_LABELS], gen_near_full)
        if not only:
            ctx.guard("states with a remainder below a thousandth", ctx.counter("states_with_a_remainder_below_a_thousandth"), 50)
    if not only or "remeter" in only:
        nm = len(METER_SEQ)
        firsts = [f for f in range(nm) if METER_SEQ[f] not in ((3, 5),)]
        ctx.bound("remeter", {"meters": METER_SEQ, "quarter notes placed first": "0..6", "sequences": "up to 3 set_meter calls"})
        ctx.product("remeter", firsts, lambda f: ([f, k, list(seq)] for k in range(0, 7) for n in range(1, 4) for seq in itertools.product(range(nm), repeat=n)))
    if not only or "meter_history" in only:
        nm = len(METER_SEQ)
        ctx.bound("meter_history", {"meters": METER_SEQ, "sequences": "initial meter + up to 3 set_meter calls, then '+'"})
        ctx.product("meter_history", list(range(nm)), lambda f: ([f, list(seq)] for k in range(0, 4) for seq in itertools.product(range(nm), repeat=k)))
    if not only or "setitem_shared" in only:
        ctx.serial("setitem_shared", [[c, i, k] for c in (2, 3, 4) for i in list(range(c)) + [-1] for k in ("str", "note", "list", "nc", "empty_list")])
    if not only:
        ctx.guard("place_notes_at after round trips", ctx.counter("place_at_after_round_trips"), 100000)
        ctx.guard("bars with a start beat off by a last bit", ctx.counter("bars_whose_next_start_differs_from_start_plus_length_in_the_last_bit"), 100)
        ctx.guard("accepted placements", ctx.counter("accepted"), 1000)
        ctx.guard("refused placements", ctx.counter("refused"), 1000)
        ctx.guard("placements exactly at capacity", ctx.counter("accepted_exactly_at_capacity"), 100)
        ctx.guard("full states seen", ctx.counter("full_states"), 100)
        ctx.guard("set_meter accepted", ctx.counter("set_meter_accepted"), 10)
        ctx.guard("set_meter refused", ctx.counter("set_meter_refused"), 10)
    if ctx.counter("is_full_threshold_skipped"):
        ctx.note("%d states lay within 1e-6 of the is_full threshold and were not judged" % ctx.counter("is_full_threshold_skipped"))


def _known_float_capacity(rec):
    return False


KNOWN = {}
