# -*- coding: utf-8 -*-
"""C10 -- a Note is a totally ordered pitch number with lossless text and Hz forms
(DESIGN.md section 4, C10; the statement in properties.jsonl is the specification)."""
import ast
import copy
import itertools

from mc import engine
from mc.ref import pitch as P
from mc.ref import noteforms as R

from mingus.containers.note import Note

PROPERTY = "C10"
RULE = ("exhaustive products: every name (7 letters x every accidental string of length <= 2) x octave 0-9 through "
        "int()/the four re-entry forms/Helmholtz text; every ordered pair of those notes x the six operators; every "
        "integer 0-127 x standard pitch x detune grid through to_hertz/from_hertz; velocity/channel windows around "
        "the bounds through every entry point; malformed strings; copies x mutations.  distinct_nontrivial = distinct "
        "observed outcome keys (pitch numbers, operator truth rows, Hz round-trip results, texts, exception types)")
ASSUMPTIONS = [
    "the 'printed form' of a note is repr(note); repr is a quoted Python string literal (\"'C#-4'\"), so it is read "
    "back either verbatim or after ast.literal_eval -- the clause holds if either reading reproduces the pitch",
    "re-entry from an integer is judged on integers >= 0 only (the statement quantifies over 0..127); names whose pitch "
    "number is negative (Cb-0, Cbb-0) are counted and skipped for that one form",
    "'rejected' (velocity, channel, malformed names) means: the call raises an exception (any type; the type is "
    "recorded as an outcome) and does not return a note; in-range velocity/channel must be accepted and read back",
    "malformed names are strings that no reading could accept: strings starting with a lower-case a-g (possible "
    "lower-case names), strings that become well-formed when blanks are removed, scientific forms ('C4') and "
    "negative-octave texts ('C--1') are not judged; 'H' is judged (the library's own suite requires its rejection)",
    "the oracle never relies on the return value of set_note/from_int/from_hertz/from_shorthand, only on the note's state",
    "Hz: only what the statement says is required -- a factor 2 per octave (rel. 1e-12), A-4 = standard pitch "
    "(rel. 1e-12) and the Hz round trip on a cent grid (a cent = factor 2**(1/1200)); equal temperament between "
    "those anchors is not demanded",
    "Helmholtz: the round trip is required for every name; the written text itself is compared with the textbook "
    "notation only for natural names (there is no standard ASCII rendering of accidentals)",
    "copy independence is judged on (name, octave, channel, velocity) for Note(n), copy.copy(n), copy.deepcopy(n)",
]

OPS = ["<", "<=", "==", "!=", ">", ">="]
STANDARD_PITCHES_Q = [440, 415, 432, 442, 466.16]
STANDARD_PITCHES_T = [440, 415, 432, 442, 466.16, 392, 430.54, 444.0, 452.5]


def attrs(n):
    return (n.name, n.octave)


def number_of(n):
    """pitch number from the note's *attributes* with the reference formula (not the library's int())."""
    if not P.is_name(n.name) or not isinstance(n.octave, int) or isinstance(n.octave, bool):
        return ("not a note", n.name, n.octave)
    return R.pitch_number(n.name, n.octave)


# ---------------------------------------------------------------------------------------
# pitch number + the four re-entry forms
# ---------------------------------------------------------------------------------------
def run_pitch(case):
    S = engine.S
    S.sample(case)
    name, octave = case
    want = R.pitch_number(name, octave)
    n = Note(name, octave)
    calls = 2
    if attrs(n) != (name, octave):
        S.problem("Note(name, octave) attributes", [name, octave], attrs(n))
        return
    got = int(n)
    if got != want or type(got) is not int:
        S.problem("int(Note(%r, %d))" % (name, octave), want, got)
    if n.__int__() != want:
        S.problem("Note.__int__()", want, n.__int__())
    S.count("pitch_numbers_checked")

    def same_pitch(site, m):
        if not isinstance(m, Note):
            S.problem(site, "a Note of pitch %d" % want, m)
            return
        if number_of(m) != want:
            S.problem(site, want, number_of(m), detail={"note": attrs(m)})
        elif int(m) != want:
            S.problem(site + " int()", want, int(m))

    # (a) from the integer
    if want >= 0:
        same_pitch("Note(int(n))", Note(want))
        m = Note()
        m.from_int(want)
        same_pitch("Note().from_int(int(n))", m)
        m = Note("D", 1)
        m.from_int(want)
        same_pitch("from_int on an existing note", m)
        calls += 3
        S.count("reentry_from_int")
    else:
        S.count("negative_pitch_number_skipped_for_from_int")
    # (b) from the 'Name-octave' text
    text = "%s-%d" % (name, octave)
    same_pitch("Note(%r)" % text, Note(text))
    m = Note()
    m.set_note(text)
    same_pitch("Note().set_note(%r)" % text, m)
    m = Note("D", 1)
    m.set_note(text)
    same_pitch("set_note(%r) on an existing note" % text, m)
    # octave argument must be ignored / overridden consistently when the text carries an octave
    calls += 3
    # (c) from the printed form
    for form_name, printed in (("repr", repr(n)), ("str", str(n))):
        readings = [printed]
        try:
            lit = ast.literal_eval(printed)
            if isinstance(lit, str):
                readings.append(lit)
        except (ValueError, SyntaxError):
            pass
        ok, seen = False, []
        for r in readings:
            try:
                m = Note(r)
                calls += 1
                seen.append([r, list(attrs(m)), number_of(m)])
                if number_of(m) == want and int(m) == want:
                    ok = True
            except Exception as e:                      # noqa -- one of the readings may legitimately fail
                seen.append([r, "%s: %s" % (type(e).__name__, e)])
        if not ok:
            S.problem("Note(%s(n)) printed form %r" % (form_name, printed), want, seen)
    # (d) from another note
    same_pitch("Note(Note(...))", Note(n))
    m = Note("D", 1)
    m.set_note(n.name, n.octave)
    same_pitch("set_note(n.name, n.octave)", m)
    calls += 2
    S.trans(calls)
    S.outcome(("pitch", want))


def run_from_int(case):
    S = engine.S
    S.sample(case)
    i = case
    fresh = Note("D", 1)
    fresh.from_int(i)
    for site, m in (("Note(%d)" % i, Note(i)), ("Note('D', 1).from_int(%d)" % i, fresh)):
        if number_of(m) != i:
            S.problem(site, i, number_of(m), detail={"note": attrs(m)})
        elif int(m) != i:
            S.problem(site + " int()", i, int(m))
        else:
            # ... and back through the text and the copy
            t = "%s-%d" % (m.name, m.octave)
            if i >= 0 and int(Note(t)) != i:
                S.problem("Note(%r) after from_int(%d)" % (t, i), i, int(Note(t)))
            if int(Note(m)) != i:
                S.problem("Note(Note(%d))" % i, i, int(Note(m)))
    S.trans(4)
    S.count("from_int_checked")
    S.outcome(("from_int", i, Note(i).name))


# ---------------------------------------------------------------------------------------
# comparisons: one case = one left operand against every right operand of the octave window
# ---------------------------------------------------------------------------------------
def _pair_universe(olo, ohi):
    return [(nm, o) for o in range(olo, ohi + 1) for nm in P.names(2)]


def run_compare(case):
    S = engine.S
    S.sample(case)
    name, octave, olo, ohi = case
    a = Note(name, octave)
    ia = R.pitch_number(name, octave)
    n = 0
    for (nm, o) in _pair_universe(olo, ohi):
        b = Note(nm, o)
        ib = R.pitch_number(nm, o)
        want = [ia < ib, ia <= ib, ia == ib, ia != ib, ia > ib, ia >= ib]
        got = [a < b, a <= b, a == b, a != b, a > b, a >= b]
        n += 6
        if got != want or any(type(g) is not bool for g in got):
            bad = [OPS[k] for k in range(6) if got[k] is not want[k]]
            S.problem("Note(%r,%d) %s Note(%r,%d)" % (name, octave, "/".join(bad), nm, o), dict(zip(OPS, want)),
                      dict(zip(OPS, got)), detail={"left": ia, "right": ib})
        if ia == ib and (nm, o) != (name, octave):
            S.count("enharmonic_pairs_equal")
        S.outcome(tuple(got))
    S.count("ordered_pairs", n // 6)
    S.trans(n)


def run_sorting(case):
    """sorted()/list.sort() on a permutation of the whole note universe orders by pitch number."""
    S = engine.S
    S.sample(case)
    olo, ohi, stride = case
    uni = _pair_universe(olo, ohi)
    k = len(uni)
    # a permutation: multiply the index by a stride coprime to k (k = 49 * 3 or 49 * 10; strides avoid 2, 3, 5, 7)
    order = [(i * stride) % k for i in range(k)]
    if sorted(order) != list(range(k)):
        raise engine.HarnessError("stride %d is not coprime to %d" % (stride, k))
    notes = [Note(*uni[i]) for i in order]
    want = sorted(R.pitch_number(*uni[i]) for i in order)
    got1 = [number_of(x) for x in sorted(notes)]
    lst = list(notes)
    lst.sort()
    got2 = [number_of(x) for x in lst]
    got3 = [number_of(x) for x in sorted(notes, reverse=True)][::-1]
    for site, got in (("sorted(notes)", got1), ("list.sort()", got2), ("sorted(reverse=True)", got3)):
        if got != want:
            firstbad = next(i for i in range(k) if got[i] != want[i])
            S.problem(site, "pitch numbers in non-decreasing order", {"first difference at": firstbad,
                      "expected": want[max(0, firstbad - 2):firstbad + 3], "observed": got[max(0, firstbad - 2):firstbad + 3]})
    if max(notes) is None or number_of(max(notes)) != want[-1] or number_of(min(notes)) != want[0]:
        S.problem("max/min(notes)", [want[0], want[-1]], [number_of(min(notes)), number_of(max(notes))])
    S.trans(5)
    S.count("sortings")
    S.outcome(("sorted", stride, k))


# ---------------------------------------------------------------------------------------
# Hz
# ---------------------------------------------------------------------------------------
def rel_close(a, b, tol=1e-12):
    return abs(a - b) <= tol * max(abs(a), abs(b))


def cents_grid(step):
    n = int(round(40.0 / step))
    return [k * step for k in range(-n, n + 1)]


def run_hertz(case):
    S = engine.S
    S.sample(case)
    kind = case[0]
    if kind == "int":
        _, i, sp, step = case
        n = Note(i)
        if number_of(n) != i:
            S.problem("Note(%d)" % i, i, number_of(n))
            return
        h = n.to_hertz(sp)
        calls = 2
        if not isinstance(h, float) or not h > 0:
            S.problem("Note(%d).to_hertz(%r)" % (i, sp), "a positive float", h)
            return
        if sp == 440:
            h0 = n.to_hertz()
            calls += 1
            if h0 != h:
                S.problem("to_hertz() default standard pitch", h, h0)
        # doubling per octave
        h12 = Note(i + 12).to_hertz(sp)
        calls += 2
        if not rel_close(h12, 2 * h):
            S.problem("Note(%d).to_hertz(%r) vs one octave lower" % (i + 12, sp), 2 * h, h12)
        if i == R.A4 and not rel_close(h, float(sp)):
            S.problem("Note(57 = A-4).to_hertz(%r)" % sp, float(sp), h)
        # round trip, detuned
        for c in cents_grid(step):
            f = R.detune(h, c)
            m = Note("D", 1)
            m.from_hertz(f, sp)
            calls += 1
            got = number_of(m)
            if got != i:
                S.problem("from_hertz(to_hertz(%d, %r) detuned %+g cents, %r)" % (i, sp, c, sp), i, got,
                          detail={"hz": f, "note": attrs(m)}, tags={"cents": c})
            elif int(m) != i:
                S.problem("int(from_hertz(...))", i, int(m))
            else:
                S.count("hz_round_trips_ok")
            if sp == 440 and c in (-40, 0, 40):
                m2 = Note("D", 1)
                m2.from_hertz(f)
                calls += 1
                if number_of(m2) != i:
                    S.problem("from_hertz(hz) default standard pitch, %+g cents" % c, i, number_of(m2), detail={"hz": f})
        S.trans(calls)
        S.outcome(("hz", i % 12, sp))
    elif kind == "name":
        _, name, sp = case
        a4 = Note("A", 4).to_hertz(sp)
        if not rel_close(a4, float(sp)):
            S.problem("Note('A', 4).to_hertz(%r)" % sp, float(sp), a4)
        a4t = Note("A-4").to_hertz(sp)
        if not rel_close(a4t, float(sp)):
            S.problem("Note('A-4').to_hertz(%r)" % sp, float(sp), a4t)
        prev = None
        calls = 2
        for o in range(0, 10):
            h = Note(name, o).to_hertz(sp)
            calls += 1
            if prev is not None and not rel_close(h, 2 * prev):
                S.problem("Note(%r, %d).to_hertz(%r) vs octave %d" % (name, o, sp, o - 1), 2 * prev, h)
            prev = h
            # a note and its enharmonic natural/sharp spelling have one pitch number, hence one frequency
            i = R.pitch_number(name, o)
            if i >= 0:
                hi = Note(i).to_hertz(sp)
                calls += 2
                if not rel_close(hi, h):
                    S.problem("to_hertz of %s-%d vs Note(%d)" % (name, o, i), hi, h)
        S.count("hz_octave_chains")
        S.trans(calls)
        S.outcome(("hzname", name, sp))
    else:
        raise engine.HarnessError("bad hertz case %r" % (case,))


# ---------------------------------------------------------------------------------------
# Helmholtz
# ---------------------------------------------------------------------------------------
def run_helmholtz(case):
    S = engine.S
    S.sample(case)
    name, octave = case
    n = Note(name, octave)
    text = n.to_shorthand()
    calls = 2
    if not isinstance(text, str) or not text:
        S.problem("Note(%r, %d).to_shorthand()" % (name, octave), "a non-empty string", text)
        return
    if attrs(n) != (name, octave):
        S.problem("to_shorthand() changed the note", [name, octave], attrs(n))
    flat = "b" in name
    tags = {"flat": flat, "octave": octave, "name": name}
    try:
        m = Note("D", 1)
        m.from_shorthand(text)
        calls += 1
    except Exception as e:                                  # noqa
        S.problem("from_shorthand(%r) [written for %s-%d]" % (text, name, octave), [name, octave],
                  "%s: %s" % (type(e).__name__, e), tags=tags)
        S.trans(calls)
        return
    if attrs(m) != (name, octave):
        S.problem("from_shorthand(%r) [written for %s-%d]" % (text, name, octave), [name, octave], list(attrs(m)), tags=tags)
    else:
        S.count("helmholtz_round_trips_ok")
        if flat:
            S.count("helmholtz_flat_round_trips_ok")
    if len(name) == 1:
        want = R.helmholtz_natural(name, octave)
        if text != want:
            S.problem("Note(%r, %d).to_shorthand() text" % (name, octave), want, text, tags=tags)
        m2 = Note("D", 1)
        m2.from_shorthand(want)
        calls += 1
        if attrs(m2) != (name, octave):
            S.problem("from_shorthand(%r) [textbook text of %s-%d]" % (want, name, octave), [name, octave], list(attrs(m2)), tags=tags)
        S.count("helmholtz_textbook_checked")
    S.trans(calls)
    S.outcome(("helm", text))


def run_helmholtz_reject(case):
    """case = a Helmholtz text that holds no note letter: it names no note and must be refused, the note staying as it was"""
    S = engine.S
    text = case
    m = Note("D", 1, velocity=70, channel=2)
    try:
        m.from_shorthand(text)
    except Exception:                                       # noqa -- any error is a rejection
        S.count("helmholtz_texts_refused")
        if (m.name, m.octave, m.velocity, m.channel) != ("D", 1, 70, 2):
            S.problem("from_shorthand(%r) refused: the note afterwards" % text, ["D", 1, 70, 2], [m.name, m.octave, m.velocity, m.channel])
    else:
        S.problem("from_shorthand(%r) (no note letter in the text)" % text, "refused (malformed names are rejected)", [m.name, m.octave])
    S.trans(1)
    S.outcome(("helm_reject", len(text)))


# ---------------------------------------------------------------------------------------
# bounds
# ---------------------------------------------------------------------------------------
VIAS = ["ctor_kw", "ctor_dynamics", "ctor_text_kw", "set_note_kw", "set_note_dynamics", "setter",
        # the same with a (legal) value for the other field given alongside, by keyword and in a dynamics dict
        "ctor_kw_both", "set_note_kw_both", "set_note_dynamics_and_kw", "ctor_dynamics_and_kw"]
OTHER_OK = {"velocity": ("channel", 7), "channel": ("velocity", 100)}
LIMIT = {"velocity": 127, "channel": 15}


def run_bounds(case):
    S = engine.S
    S.sample(case)
    via, field, value = case
    ok_expected = 0 <= value <= LIMIT[field]
    n = None
    try:
        if via == "ctor_kw":
            n = Note("E", 3, **{field: value})
        elif via == "ctor_dynamics":
            n = Note("E", 3, {field: value})
        elif via == "ctor_text_kw":
            n = Note("E-3", **{field: value})
        elif via == "set_note_kw":
            n = Note("C", 4)
            n.set_note("E", 3, **{field: value})
        elif via == "set_note_dynamics":
            n = Note("C", 4)
            n.set_note("E", 3, {field: value})
        elif via == "setter":
            n = Note("E", 3)
            getattr(n, "set_" + field)(value)
        elif via == "ctor_kw_both":
            n = Note("E", 3, **{field: value, OTHER_OK[field][0]: OTHER_OK[field][1]})
        elif via == "set_note_kw_both":
            n = Note("C", 4)
            n.set_note("E", 3, **{field: value, OTHER_OK[field][0]: OTHER_OK[field][1]})
        elif via == "set_note_dynamics_and_kw":
            n = Note("C", 4)
            n.set_note("E", 3, {OTHER_OK[field][0]: OTHER_OK[field][1]}, **{field: value})
        elif via == "ctor_dynamics_and_kw":
            n = Note("E", 3, {OTHER_OK[field][0]: OTHER_OK[field][1]}, **{field: value})
        else:
            raise engine.HarnessError("bad via %r" % via)
        err = None
    except engine.HarnessError:
        raise
    except Exception as e:                                  # noqa -- 'rejected' = raises
        err = e
    S.trans(1)
    site = "%s %s=%d" % (via, field, value)
    if ok_expected:
        if err is not None:
            S.problem(site, "accepted", "%s: %s" % (type(err).__name__, err))
        elif getattr(n, field) != value:
            S.problem(site + " read back", value, getattr(n, field))
        elif via in ("ctor_kw_both", "set_note_kw_both", "set_note_dynamics_and_kw", "ctor_dynamics_and_kw") \
                and getattr(n, OTHER_OK[field][0]) != OTHER_OK[field][1]:
            S.problem(site + ": the other field given alongside", OTHER_OK[field][1], getattr(n, OTHER_OK[field][0]))
        else:
            other = "channel" if field == "velocity" else "velocity"
            S.count("bounds_accepted")
            S.outcome(("accepted", field, via, getattr(n, other)))
    else:
        if err is None:
            S.problem(site, "rejected (an exception)", "accepted; %s = %r" % (field, getattr(n, field)))
        else:
            S.count("bounds_rejected")
            S.count("bounds_rejected_with_" + type(err).__name__)
            S.outcome(("rejected", field, via, type(err).__name__))


# ---------------------------------------------------------------------------------------
# malformed names
# ---------------------------------------------------------------------------------------
MAL_ALPHABET = ["C", "H", "#", "b", "z", "1", "-", " "]


def classify_text(s):
    """'valid' | 'malformed' | 'ambiguous' for a candidate note text."""
    import re
    if re.match(r"^[A-G][#b]*(-[0-9]+)?\Z", s):         # \Z, not $: "C#\n" is not a note text
        return "valid"
    if s and s[0] in "abcdefg":
        return "ambiguous"                      # a lower-case note name
    t = s.replace(" ", "")
    if re.match(r"^[A-G][#b]*-[0-9]+\s+\Z", s):
        return "ambiguous"                      # white space after the octave number: int() reads it, not judged
    if "\n" in s or "\t" in s:
        return "malformed"
    if re.match(r"^[A-G][#b]*-?-?[0-9]+\Z", t) or (t != s and re.match(r"^[A-G][#b]*\Z", t)):
        return "ambiguous"                      # blanks, scientific 'C4', negative octave 'C--1'
    return "malformed"


def malformed_texts(maxlen):
    out = [""]
    for k in range(1, maxlen + 1):
        for tup in itertools.product(MAL_ALPHABET, repeat=k):
            out.append("".join(tup))
    extra = ["C-4-5", "C-x", "C#-", "-4", "H-4", "Cz", "C-4.5", "4", "#C", "C-#", "Z", "Do", "C-4-", "C#-b", "I", "C-4#",
             "C\n", "C#\n", "Bb\n", "E-4\n", "C\n\n", "\nC", "C\t", "Gbb\n"]
    res = []
    for s in out + extra:
        if classify_text(s) == "malformed" and s not in res:
            res.append(s)
    return res


def run_malformed(case):
    S = engine.S
    S.sample(case)
    text, via = case
    if classify_text(text) != "malformed":
        raise engine.HarnessError("not a malformed text: %r" % text)
    n = None
    try:
        if via == "ctor":
            n = Note(text)
        elif via == "ctor_octave":
            n = Note(text, 4)
        elif via == "set_note":
            n = Note("E", 3)
            n.set_note(text)
        else:
            raise engine.HarnessError("bad via %r" % via)
        err = None
    except engine.HarnessError:
        raise
    except Exception as e:                                  # noqa
        err = e
    S.trans(1)
    if err is None:
        S.problem("%s %r" % (via, text), "rejected (an exception)", "accepted: %r" % (attrs(n),))
    else:
        S.count("malformed_rejected")
        S.count("malformed_rejected_with_" + type(err).__name__)
        S.outcome(("malformed", type(err).__name__))


def run_wellformed(case):
    """non-vacuity companion of run_malformed: every well-formed text is accepted."""
    S = engine.S
    S.sample(case)
    text, via = case
    if classify_text(text) != "valid":
        raise engine.HarnessError("not a valid text: %r" % text)
    if via == "ctor":
        n = Note(text)
    else:
        n = Note("E", 3)
        n.set_note(text)
    parts = text.split("-")
    want = (parts[0], int(parts[1]) if len(parts) == 2 else 4)
    S.trans(1)
    if attrs(n) != want:
        S.problem("%s %r" % (via, text), list(want), list(attrs(n)))
    else:
        S.count("wellformed_accepted")
        S.outcome(("wellformed", len(text)))


# ---------------------------------------------------------------------------------------
# copies
# ---------------------------------------------------------------------------------------
MUTATIONS = [
    ["set_note", "D#", 2], ["set_note_text", "Gb-7"], ["transpose", "3", True], ["transpose", "b2", False],
    ["augment"], ["diminish"], ["change_octave", 1], ["change_octave", -2], ["octave_up"], ["set_velocity", 5],
    ["set_channel", 3], ["set_note_dyn", 99, 9], ["from_int", 30], ["from_hertz", 100.0], ["from_shorthand", "d''"],
    ["empty"], ["remove_redundant_accidentals"], ["attr", "name", "F"], ["attr", "octave", 8], ["attr", "velocity", 1],
    ["attr", "channel", 2],
]
COPIERS = ["Note(n)", "copy.copy", "copy.deepcopy"]


def four(n):
    return (n.name, n.octave, n.channel, n.velocity)


def mutate(n, mu):
    k = mu[0]
    if k == "set_note":
        n.set_note(mu[1], mu[2])
    elif k == "set_note_text":
        n.set_note(mu[1])
    elif k == "transpose":
        n.transpose(mu[1], mu[2])
    elif k == "augment":
        n.augment()
    elif k == "diminish":
        n.diminish()
    elif k == "change_octave":
        n.change_octave(mu[1])
    elif k == "octave_up":
        n.octave_up()
    elif k == "set_velocity":
        n.set_velocity(mu[1])
    elif k == "set_channel":
        n.set_channel(mu[1])
    elif k == "set_note_dyn":
        n.set_note("A", 5, velocity=mu[1], channel=mu[2])
    elif k == "from_int":
        n.from_int(mu[1])
    elif k == "from_hertz":
        n.from_hertz(mu[1])
    elif k == "from_shorthand":
        n.from_shorthand(mu[1])
    elif k == "empty":
        n.empty()
    elif k == "remove_redundant_accidentals":
        n.remove_redundant_accidentals()
    elif k == "attr":
        setattr(n, mu[1], mu[2])
    else:
        raise engine.HarnessError("bad mutation %r" % (mu,))


def run_copy(case):
    S = engine.S
    S.sample(case)
    name, octave, velocity, channel, how = case
    calls = 0
    for mu in MUTATIONS:
        for side in ("copy", "original"):
            a = Note(name, octave, velocity=velocity, channel=channel)
            if how == "Note(n)":
                b = Note(a)
            elif how == "copy.copy":
                b = copy.copy(a)
            elif how == "copy.deepcopy":
                b = copy.deepcopy(a)
            else:
                raise engine.HarnessError("bad copier %r" % how)
            calls += 2
            want = (name, octave, channel, velocity)
            if b is a:
                S.problem(how, "a new object", "the same object")
                return
            if four(a) != want:
                S.problem("Note(%r, %d, velocity=%d, channel=%d)" % (name, octave, velocity, channel), want, four(a))
                return
            if four(b) != want:
                S.problem("%s of %r" % (how, want), want, four(b))
                return
            if not (b == a) or int(b) != int(a):
                S.problem("%s == original" % how, True, False)
            target, other = (b, a) if side == "copy" else (a, b)
            before = four(target)
            mutate(target, mu)
            calls += 1
            if four(target) != before:
                S.count("copy_mutations_effective")
            if four(other) != want:
                S.problem("%s; %s mutated by %s; the other one" % (how, side, mu), want, four(other))
            else:
                S.count("copy_independent")
    S.trans(calls)
    S.outcome(("copy", how, velocity, channel))


# ---------------------------------------------------------------------------------------
# history: one Note object under sequences of mutators, observed after every step
# ---------------------------------------------------------------------------------------
import math


class NoteHistorySpec(engine.BfsSpec):
    observe_prefix = True      # the invariant's observations are made at every step of a replayed history

    """bfs over the mutators of ONE Note object.  After every step everything observable (int, the six
    comparisons against fixed probes, Hz, printed form, equality with a freshly built note) must be the
    function of the note's current (name, octave) that the statement defines -- whatever was called or
    observed before.  canon = the whole instance state of the note (so a remembered value is state)."""

    ACTIONS = ([["set", "C", 4], ["set", "B#", 3], ["set", "Cb", 5], ["text", "D-5"], ["text", "Bb-2"], ["text", "B#-4"],
                ["from_int", 0], ["from_int", 59], ["from_int", 60], ["from_hertz", 440.0], ["from_hertz", 261.6255653005986],
                ["augment"], ["diminish"], ["octave_up"], ["octave_down"], ["change_octave", -2],
                ["transpose", "3", True], ["transpose", "b2", False], ["helmholtz", "c'"], ["helmholtz", "Bb,"] ])

    def init(self):
        return {"n": Note("G", 4), "want": ("G", 4)}

    def actions(self):
        return self.ACTIONS

    def step(self, st, act, check=True):
        n = st["n"]
        k = act[0]
        want = None                      # (name, octave) when the statement fixes it, else only the pitch number
        want_number = None
        if k == "set":
            n.set_note(act[1], act[2])
            want = (act[1], act[2])
        elif k == "text":
            n.set_note(act[1])
            nm, o = act[1].split("-")
            want = (nm, int(o))
        elif k == "from_int":
            n.from_int(act[1])
            want_number = act[1]
        elif k == "from_hertz":
            n.from_hertz(act[1])
            want_number = int(round(57 + 12 * math.log(act[1] / 440.0, 2)))
        elif k == "augment":
            want_number = number_of(n) + 1
            n.augment()
        elif k == "diminish":
            want_number = number_of(n) - 1
            n.diminish()
        elif k == "octave_up":
            want = (n.name, n.octave + 1)
            n.octave_up()
        elif k == "octave_down":
            want = (n.name, max(0, n.octave - 1))
            n.octave_down()
        elif k == "change_octave":
            want = (n.name, max(0, n.octave + act[1]))
            n.change_octave(act[1])
        elif k == "transpose":
            num, semis = P.shorthand_semitones(act[1])
            want_number = number_of(n) + (semis if act[2] else -semis)
            n.transpose(act[1], act[2])
        elif k == "helmholtz":
            n.from_shorthand(act[1])
            want = {"c'": ("C", 4), "Bb,": ("Bb", 1)}[act[1]]
        else:
            raise engine.HarnessError("bad action %r" % (act,))
        if check:
            S = engine.S
            if want is not None and attrs(n) != want:
                S.problem("%r: (name, octave) afterwards" % (act,), list(want), list(attrs(n)))
            if want_number is not None and number_of(n) != want_number:
                S.problem("%r: pitch number (from the attributes) afterwards" % (act,), want_number, number_of(n))

    def invariant(self, st):
        S = engine.S
        n = st["n"]
        num = number_of(n)
        if not isinstance(num, int):
            S.problem("note attributes", "a name and an integer octave", num)
            return
        S.trans(8)
        if int(n) != num:
            S.problem("int(note) vs 12*octave + letter + accidentals of its current attributes", num, int(n), detail={"attrs": attrs(n)})
        fresh = Note(n.name, n.octave)
        if not (n == fresh) or (n != fresh):
            S.problem("note == Note(its own name, its own octave)", True, False, detail={"attrs": attrs(n)})
        for pn, po in (("C", 4), ("B", 3), ("B#", 3), ("A", 9), ("C", 0)):
            probe = Note(pn, po)
            pnum = R.pitch_number(pn, po)
            row = (n < probe, n <= probe, n == probe, n != probe, n > probe, n >= probe)
            exp = (num < pnum, num <= pnum, num == pnum, num != pnum, num > pnum, num >= pnum)
            if row != exp:
                S.problem("comparisons of the note with %s-%d" % (pn, po), list(exp), list(row), detail={"attrs": attrs(n)})
        hz = n.to_hertz()
        ref = R.hertz(num)
        if abs(hz - ref) > 1e-9 * ref:
            S.problem("to_hertz() vs the pitch of its current attributes", ref, hz, detail={"attrs": attrs(n)})
        printed = repr(n)
        if ("%s-%d" % (n.name, n.octave)) not in printed:
            S.problem("repr(note)", "contains %s-%d" % (n.name, n.octave), printed)
        S.outcome((attrs(n), int(n)))
        S.count("note_history_states_observed")

    def canon(self, st):
        return engine.deep_key(st["n"])


def run_note_history(case):
    engine.bfs_execute(NoteHistorySpec(), case["history"], check_prefix=True)


# ---------------------------------------------------------------------------------------
# hertz_pairs: the same frequency read under two standard pitches, one after the other
# ---------------------------------------------------------------------------------------
def run_hertz_pairs(case):
    """case = [key number k, sp1, sp2]: f = 440*2^((k-57)/12) read with from_hertz(f, sp1) and then
    from_hertz(f, sp2); each must give the note nearest to f under *its* standard pitch."""
    S = engine.S
    k, sp1, sp2 = case
    f = 440.0 * 2 ** ((k - 57) / 12.0)
    for sp in (sp1, sp2):
        x = 57 + 12 * math.log(f / sp, 2)
        want = int(round(x))
        if abs(x - want) > 0.4 or want < 0:
            S.count("hertz_pairs_outside_40_cents_skipped")
            continue
        n = Note()
        n.from_hertz(f, sp)
        S.trans(1)
        S.count("hertz_pairs_checked")
        got = number_of(n)
        S.outcome((k, sp, got))
        if got != want:
            S.problem("from_hertz(%r, %r) [asked as part of the sequence sp=%r then sp=%r]" % (f, sp, sp1, sp2), want, got)


CLAUSES = {
    "history": run_note_history,
    "hertz_pairs": run_hertz_pairs,
    "pitch": run_pitch,
    "from_int": run_from_int,
    "compare": run_compare,
    "sorting": run_sorting,
    "hertz": run_hertz,
    "helmholtz": run_helmholtz,
    "helmholtz_reject": run_helmholtz_reject,
    "bounds": run_bounds,
    "malformed": run_malformed,
    "wellformed": run_wellformed,
    "copy": run_copy,
}


# ---------------------------------------------------------------------------------------
def _gen_pitch(octave):
    for nm in P.names(2):
        yield [nm, octave]


def explore(ctx):
    ctx.use_thorough_bounds('thorough bounds take a few seconds')
    names = P.names(2)
    octaves = list(range(0, 10))
    ctx.bound("names", "7 letters x accidental strings of length <= 2 (49)")
    ctx.bound("octaves", [0, 9])
    if ctx.want("pitch"):
        ctx.product("pitch", octaves, _gen_pitch)
    if ctx.want("from_int"):
        ctx.bound("integers", [0, 127])
        ctx.serial("from_int", list(range(0, 128)))
    if ctx.want("compare"):
        olo, ohi = 0, 9
        ctx.bound("comparison_octaves", [olo, ohi])
        ctx.product("compare", list(range(olo, ohi + 1)),
                    lambda o: ([nm, o, olo, ohi] for nm in names))
    if ctx.want("sorting"):
        olo, ohi = 0, 9
        ctx.serial("sorting", [[olo, ohi, s] for s in (1, 11, 13, 17, 97, 101)])
    if ctx.want("hertz"):
        sps = ctx.pick(STANDARD_PITCHES_Q, STANDARD_PITCHES_T)
        step = ctx.pick(5, 0.5)
        ctx.bound("standard_pitches", sps)
        ctx.bound("detune_cents", {"from": -40, "to": 40, "step": step})
        ctx.product("hertz", sps, lambda sp: itertools.chain((["int", i, sp, step] for i in range(0, 128)),
                                                              (["name", nm, sp] for nm in names)))
    if ctx.want("history"):
        d = ctx.pick(3, 4)
        ctx.bound("note_history_depth", d)
        ctx.bfs("history", NoteHistorySpec(), d, label="history of one Note object")
    if ctx.want("hertz_pairs"):
        sps = ctx.pick(STANDARD_PITCHES_Q, STANDARD_PITCHES_T)
        ctx.product("hertz_pairs", list(sps), lambda sp1: ([k, sp1, sp2] for k in range(0, 128) for sp2 in sps if sp2 != sp1))
    if ctx.want("helmholtz_reject"):
        import itertools as _it
        texts = ["".join(t) for n in range(0, 4) for t in _it.product("',#hx 1-", repeat=n)]
        ctx.bound("helmholtz_reject", "%d texts over \"',#hx 1-\" of length <= 3 (no note letter)" % len(texts))
        ctx.serial("helmholtz_reject", texts)
    if ctx.want("helmholtz"):
        ctx.product("helmholtz", octaves, _gen_pitch)
    if ctx.want("bounds"):
        cases = []
        for via in VIAS:
            for v in range(-2, 131):
                cases.append([via, "velocity", v])
            for c in range(-2, 19):
                cases.append([via, "channel", c])
            # far outside: around every power of two up to 2^16 and their negatives (where bit tests and masks go wrong)
            for k in range(4, 17):
                for d in (-1, 0, 1, 5):
                    for sign in (1, -1):
                        far = sign * ((1 << k) + d)
                        if not 0 <= far < 128:
                            cases.append([via, "velocity", far])
                        if not 0 <= far < 16:
                            cases.append([via, "channel", far])
        ctx.bound("velocity_window", [-2, 130])
        ctx.bound("channel_window", [-2, 18])
        ctx.bound("far_values", "+-(2^k + d), k = 4..16, d in {-1, 0, 1, 5}")
        ctx.serial("bounds", cases)
    if ctx.want("malformed"):
        maxlen = ctx.pick(3, 4)
        texts = malformed_texts(maxlen)
        ctx.bound("malformed_texts", {"alphabet": MAL_ALPHABET, "max_length": maxlen, "count": len(texts)})
        ctx.product("malformed", ["ctor", "ctor_octave", "set_note"], lambda via: ([t, via] for t in texts))
    if ctx.want("wellformed"):
        good = [nm for nm in names] + ["%s-%d" % (nm, o) for nm in names for o in (0, 4, 9)]
        ctx.serial("wellformed", [[t, via] for via in ("ctor", "set_note") for t in good])
    if ctx.want("copy"):
        cnames = ctx.pick(P.canon_names(1) + ["C#b", "Bb#"], names)
        coct = ctx.pick([0, 4, 9], octaves)
        dyn = [(64, 1), (0, 0), (127, 15)]
        ctx.product("copy", COPIERS, lambda how: ([nm, o, v, c, how] for nm in cnames for o in coct for (v, c) in dyn))
    if not ctx.only:
        ctx.guard("pitch numbers checked", ctx.counter("pitch_numbers_checked"), 490)
        ctx.guard("re-entries from an integer", ctx.counter("reentry_from_int"), 480)
        ctx.guard("integers 0..127 checked", ctx.counter("from_int_checked"), 128)
        ctx.guard("ordered pairs compared", ctx.counter("ordered_pairs"), 21609)
        ctx.guard("enharmonic pairs found equal", ctx.counter("enharmonic_pairs_equal"), 400)
        ctx.guard("Hz round trips", ctx.counter("hz_round_trips_ok"), 10000)
        ctx.guard("Helmholtz textbook anchors", ctx.counter("helmholtz_textbook_checked"), 70)
        ctx.guard("Helmholtz round trips of flatted names", ctx.counter("helmholtz_flat_round_trips_ok"), 100)
        ctx.guard("velocity/channel accepted", ctx.counter("bounds_accepted"), 6 * (128 + 16))
        ctx.guard("velocity/channel rejected", ctx.counter("bounds_rejected"), 6 * (5 + 5))
        ctx.guard("malformed names rejected", ctx.counter("malformed_rejected"), 500)
        ctx.guard("well-formed names accepted", ctx.counter("wellformed_accepted"), 390)
        ctx.guard("copy mutations that changed the mutated note", ctx.counter("copy_mutations_effective"), 1000)
    if ctx.counter("negative_pitch_number_skipped_for_from_int"):
        ctx.note("%d (name, octave) cases have a negative pitch number and were not judged for re-entry from an integer"
                 % ctx.counter("negative_pitch_number_skipped_for_from_int"))


KNOWN = {}
