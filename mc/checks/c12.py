# -*- coding: utf-8 -*-
"""C12 -- a NoteContainer is a pitch-ordered, duplicate-free set under any history
(DESIGN.md section 4, C12).

Clauses
  history   bfs over add/remove operation sequences on a real NoteContainer in lock-step with the
            pitch-keyed set model of mc/ref/sets.py; the full observable surface (stored notes,
            len, in, ==, !=, get_note_names, the consonance predicates) is compared in every state
  forms     every spelling of "add this note" / "remove this note" (method, operator, list, Note
            object, other container, 'Name-octave' text) applied to every base container of a
            small universe: all equivalent forms must produce the model's content
  shared    one Note object handed to two containers, then every action (and action pairs) on the first: the
            second container and the caller's Note stay as they were
  voicing   ordered bare-name pairs / triples: each name at or above the previous top note and
            less than an octave above it, through the constructor, add_note and '+'
  chord / interval / numeral   the three shorthand constructors
"""
import itertools

from mc import engine
from mc.engine import BfsSpec
from mc.ref import pitch as P
from mc.ref import sets as R

from mingus.containers.note import Note
from mingus.containers.note_container import NoteContainer
from mingus.core import chords as _chords
from mingus.core import progressions as _progressions

PROPERTY = "C12"
RULE = ("bfs over add/remove histories on a real NoteContainer in lock-step with a pitch-keyed set model (state = "
        "stored (name, octave, channel, velocity) tuple); exhaustive products for equivalent call forms, bare-name "
        "voicing and the three shorthand constructors; distinct_nontrivial = distinct observed outcome keys "
        "(stored contents per clause)")
ASSUMPTIONS = [
    "when a note of an already present pitch is added the statement only fixes the pitches: the surviving spelling may be the "
    "old or the new one (the model adopts whichever the library shows); anything else is a violation",
    "membership is probed with Note objects only; equality is judged against containers with identical (name, octave) content and "
    "against containers holding the same pitches with one note respelled enharmonically (both must be equal: the content is the "
    "pitches), and against containers with a different pitch set (must be unequal)",
    "the unique-name list is compared as a duplicate-free collection (order not required)",
    "'the consonance predicates (true exactly when every pair satisfies the pairwise predicate)' is applied to is_consonant, "
    "is_perfect_consonant and is_imperfect_consonant on ordered low->high pairs; for is_dissonant both 'every pair is dissonant' "
    "and 'not consonant' are accepted where they differ, and it is judged strictly where they coincide",
    "the pairwise predicates are the interval classes of the C02 statement (perfect 0/7 and optionally 5, imperfect 3/4/8/9) on "
    "pitch-class differences, taken from mc/ref/sets.py, not from the library",
    "chord and numeral constructors are checked compositionally: the name list is what chords.from_shorthand / "
    "progressions.to_chords return (C06/C08 check those lists); C12 checks that the container voices that list upward from "
    "the root (given in the input / derived from the key by line-of-fifths arithmetic) in octave 4",
    "interval constructor: only string start notes and shorthands whose size is 0..11 semitones (for the others 'less than an "
    "octave' and the interval size disagree); downward intervals are read as start note in octave 4 plus the note that many "
    "semitones below, sorted",
    "slash chords and polychords: the container must voice the note list of chords.from_shorthand upward from its first name "
    "(the bass / the lower chord's root) in octave 4, repeated names included (octave doublings); unknown numerals are not judged",
    "'names with octave' includes the 'Name-octave' text form accepted by Note (C10) for additions only",
    "removal forms are those the docstrings list: a name, a name with octave, a Note, a list of names and/or Notes; removal by "
    "Note removes the stored note equal to it, equality of notes being equality of pitch (C10), so an enharmonic Note removes it too",
]

NAMES8 = ["C", "E", "G", "B", "D#", "Eb", "B#", "Cb"]
OCTS = [3, 4, 5]

BARE_FORMS = 4
PUT_FORMS = 8
DEL_FORMS = 4
DELNOTE_FORMS = 4

BARE_PAIRS = [("C", "E"), ("E", "C"), ("G", "B#"), ("B", "Cb"), ("D#", "Eb"), ("Eb", "D#"), ("B#", "C"), ("Cb", "G")]

# lists mixing octaves and element forms: items are ("n", name) bare, ("no", name, oct) -> [name, oct],
# ("N", name, oct) -> Note, ("nov", name, oct, vel) -> [name, oct, {'velocity': vel}], ("t", name, oct) -> 'Name-oct'
MIXED = [
    [("no", "G", 5), ("no", "C", 3)],
    [("no", "E", 4), ("n", "G")],
    [("N", "B", 3), ("n", "C"), ("no", "Eb", 5)],
    [("n", "E"), ("no", "Cb", 4), ("N", "D#", 4)],
    [("nov", "C", 5, 64), ("n", "B#"), ("N", "Eb", 3)],
]
OTHERS = [
    [("C", 4), ("E", 4), ("G", 4)],
    [("Eb", 3), ("B#", 4)],
    [("Cb", 5), ("D#", 3)],
]
DEL_LISTS = [
    [("n", "C"), ("n", "Eb")],
    [("N", "D#", 4), ("n", "B")],
    [("n", "B#"), ("N", "Cb", 5), ("n", "G")],
]


def stored(nc):
    return [(n.name, n.octave) for n in nc.notes]


def rot(ref, k):
    """Which of k equivalent call forms to use: a function of the state, not of the path."""
    return (len(ref.notes) + sum(ref.pitches())) % k


def build_item(item):
    if item[0] == "n":
        return item[1]
    if item[0] == "no":
        return [item[1], item[2]]
    if item[0] == "N":
        return Note(item[1], item[2])
    if item[0] == "nov":
        return [item[1], item[2], {"velocity": item[3]}]
    if item[0] == "t":
        return "%s-%d" % (item[1], item[2])
    raise engine.HarnessError("bad item %r" % (item,))


def item_note(item):
    return (item[1], None) if item[0] == "n" else (item[1], item[2])


class State(object):
    def __init__(self):
        self.nc = NoteContainer()
        self.ref = R.RefSet()
        self.alts = {}
        self.operands = []          # containers handed to add_notes / '+' earlier, with the notes they must still hold


# ---------------------------------------------------------------------------------------
# model side of an addition (records which alternative spelling a duplicate may leave behind)
# ---------------------------------------------------------------------------------------
def model_add(st, name, octave=None):
    S = engine.S
    note, idx = st.ref.add(name, octave)
    if idx is not None:
        st.alts[R.pitch(note)] = note
        if st.ref.notes[idx] != note:
            S.count("enharmonic_duplicate_not_added")
        else:
            S.count("identical_duplicate_not_added")
    else:
        if octave is None and note[1] != 4:
            S.count("bare_name_voiced_outside_octave_4")
        if st.ref.notes[-1] != note:
            S.count("added_below_the_top")
    return note


def sync_spelling(st):
    """Weaker reading for duplicates: adopt the new spelling if that is what the library kept."""
    got = stored(st.nc)
    if len(got) != len(st.ref.notes):
        return
    for i, g in enumerate(got):
        m = st.ref.notes[i]
        if g != m and st.alts.get(R.pitch(m)) == g:
            st.ref.notes[i] = g
            engine.S.count("duplicate_respelled_adopted")
    st.alts = {}


# ---------------------------------------------------------------------------------------
# the real calls, one function per operation kind; `form` selects the spelling of the call
# ---------------------------------------------------------------------------------------
def call_bare(nc, name, form):
    if form == 0:
        nc.add_note(name)
    elif form == 1:
        r = nc + name
    elif form == 2:
        nc.add_notes(name)
    elif form == 3:
        nc.add_notes([name])
    else:
        raise engine.HarnessError("bare form %r" % form)


def call_put(nc, name, octave, form):
    if form == 0:
        nc.add_note(name, octave)
    elif form == 1:
        nc.add_note(Note(name, octave))
    elif form == 2:
        nc.add_notes([[name, octave]])
    elif form == 3:
        r = nc + Note(name, octave)
    elif form == 4:
        nc.add_notes(Note(name, octave))
    elif form == 5:
        nc.add_notes([Note(name, octave)])
    elif form == 6:
        nc.add_notes(NoteContainer(Note(name, octave)))
    elif form == 7:
        r = nc + [[name, octave]]
    # 'Name-octave' text forms (only used by the forms clause)
    elif form == 8:
        nc.add_note("%s-%d" % (name, octave))
    elif form == 9:
        nc.add_notes("%s-%d" % (name, octave))
    elif form == 10:
        nc.add_notes(["%s-%d" % (name, octave)])
    elif form == 11:
        r = nc + ("%s-%d" % (name, octave))
    elif form == 12:
        r = nc + NoteContainer([[name, octave]])
    else:
        raise engine.HarnessError("put form %r" % form)


PUT_FORMS_ALL = 13


def call_del(nc, name, form):
    if form == 0:
        nc.remove_note(name)
    elif form == 1:
        r = nc - name
    elif form == 2:
        nc.remove_notes(name)
    elif form == 3:
        nc.remove_notes([name])
    else:
        raise engine.HarnessError("del form %r" % form)


def call_del_note(nc, name, octave, form):
    if form == 0:
        nc.remove_note(Note(name, octave))
    elif form == 1:
        r = nc - Note(name, octave)
    elif form == 2:
        nc.remove_notes(Note(name, octave))
    elif form == 3:
        nc.remove_notes([Note(name, octave)])
    else:
        raise engine.HarnessError("del_note form %r" % form)


def apply_action(st, act):
    """One action on the real container and on the model."""
    S = engine.S
    nc, ref = st.nc, st.ref
    kind = act[0]
    st.alts = {}
    if kind == "bare":
        form = rot(ref, BARE_FORMS)
        model_add(st, act[1])
        call_bare(nc, act[1], form)
    elif kind == "put":
        form = rot(ref, PUT_FORMS)
        model_add(st, act[1], act[2])
        call_put(nc, act[1], act[2], form)
    elif kind == "pair":
        form = rot(ref, 2)
        a, b = act[1], act[2]
        model_add(st, a)
        model_add(st, b)
        if form == 0:
            nc.add_notes([a, b])
        else:
            r = nc + [a, b]
    elif kind == "mixed":
        items = MIXED[act[1]]
        form = rot(ref, 2)
        arg = [build_item(it) for it in items]
        for it in items:
            n, o = item_note(it)
            model_add(st, n, o)
        if form == 0:
            nc.add_notes(arg)
        else:
            r = nc + arg
    elif kind == "other":
        notes = OTHERS[act[1]]
        form = rot(ref, 2)
        other = NoteContainer([[n, o] for n, o in notes])
        oref = R.RefSet(notes)
        if stored(other) != oref.notes:
            S.problem("NoteContainer(%r)" % (notes,), oref.notes, stored(other))
        for n, o in oref.notes:
            model_add(st, n, o)
        if form == 0:
            nc.add_notes(other)
        else:
            r = nc + other
        # the operand is itself a container with a history ("created with these notes"): keep it, the
        # invariant checks in every later state that it still holds exactly those notes
        st.operands.append((other, list(oref.notes)))
    elif kind == "del":
        form = rot(ref, DEL_FORMS)
        hit = [n for n in ref.notes if n[0] == act[1]]
        if len(hit) >= 2:
            S.count("removed_a_name_in_several_octaves")
        ref.remove_name(act[1])
        call_del(nc, act[1], form)
    elif kind == "del_oct":
        same_name = [n for n in ref.notes if n[0] == act[1]]
        if (act[1], act[2]) in same_name and len(same_name) >= 2:
            S.count("removed_one_octave_of_a_name_present_in_several")
        if same_name and (act[1], act[2]) not in same_name:
            S.count("remove_with_octave_missed_name_in_other_octave")
        ref.remove_name_octave(act[1], act[2])
        nc.remove_note(act[1], act[2])
    elif kind == "del_note":
        form = rot(ref, DELNOTE_FORMS)
        p = R.pitch((act[1], act[2]))
        hit = [n for n in ref.notes if R.pitch(n) == p]
        if hit and hit[0] != (act[1], act[2]):
            S.count("removed_by_enharmonic_note")
        ref.remove_pitch(p)
        call_del_note(nc, act[1], act[2], form)
    elif kind == "del_list":
        items = DEL_LISTS[act[1]]
        form = rot(ref, 2)
        arg = [build_item(it) for it in items]
        for it in items:
            if it[0] == "n":
                ref.remove_name(it[1])
            else:
                ref.remove_pitch(R.pitch((it[1], it[2])))
        if form == 0:
            nc.remove_notes(arg)
        else:
            r = nc - arg
    elif kind == "empty":
        nc.empty()
        ref.notes[:] = []
    elif kind == "from_chord":
        nc.from_chord_shorthand(act[1]) if rot(ref, 2) == 0 else nc.from_chord(act[1])
        ref.notes[:] = []
        for n, o in {"NC": [], "C": [("C", 4), ("E", 4), ("G", 4)], "Am7": [("A", 4), ("C", 5), ("E", 5), ("G", 5)]}[act[1]]:
            ref.add(n, o)
    elif kind == "from_progression":
        r = nc.from_progression_shorthand(act[1], "C")
        if r is not False:
            S.problem("from_progression_shorthand(%r, 'C') return value" % act[1], False, r)
        ref.notes[:] = []
    else:
        raise engine.HarnessError("bad action %r" % (act,))
    sync_spelling(st)


# ---------------------------------------------------------------------------------------
# the observable surface, compared in every state
# ---------------------------------------------------------------------------------------
PROBE_NOTES = [(n, o) for o in (3, 4, 5, 6) for n in ("C", "Eb", "E", "G", "B#", "Cb")]
_PROBES = []


def probes():
    if not _PROBES:
        for n, o in PROBE_NOTES:
            _PROBES.append((Note(n, o), R.pitch((n, o))))
    return _PROBES


def container_of(notes):
    nc = NoteContainer()
    nc.notes = [Note(n, o) for n, o in notes]      # built without going through add_note
    return nc


def check_content(nc, ref, S, where=""):
    """Everything the statement says about a container whose content the model predicts."""
    got = stored(nc)
    if got != ref.notes:
        S.problem(where + "stored notes", ref.notes, got,
                  tags={"got_pitches": [R.pitch(n) for n in got], "want_pitches": ref.pitches()})
        return False
    ps = [R.pitch(n) for n in got]
    if any(b <= a for a, b in zip(ps, ps[1:])):
        S.problem(where + "strictly ascending pitches", "sorted, no equal pitches", ps)
        return False
    if len(nc) != len(ref.notes):
        S.problem(where + "len()", len(ref.notes), len(nc))
    present = set(ps)
    for note, p in probes():
        g = note in nc
        if g is not (p in present):
            S.problem(where + "%r in container" % (note,), p in present, g)
            break
    if got:
        # state-dependent probes: the extremes, their semitone and octave neighbours, respelled
        for q in (ps[0], ps[0] - 1, ps[-1], ps[-1] + 1, ps[-1] + 12, ps[0] - 12):
            probe = Note("C", 0)
            probe.octave, probe.name = q // 12, ("C", "Db", "D", "Eb", "Fb", "E#", "F#", "G", "Ab", "A", "A#", "Cb")[q % 12]
            if q % 12 == 11:
                probe.octave += 1
            if R.pitch((probe.name, probe.octave)) != q:
                raise engine.HarnessError("probe spelling")
            g = probe in nc
            if g is not (q in present):
                S.problem(where + "%r in container" % (probe,), q in present, g)
                break
    # equality: identical content / different pitch sets
    same = container_of(ref.notes)
    if not (nc == same) or (nc != same):
        S.problem(where + "== container of identical notes", True, False)
    if not (same == nc):
        S.problem(where + "container of identical notes == this", True, False)
    # the same pitches under another spelling (C#-4 for Db-4, B#-3 for C-4): still the same content
    SHARPISH = ("B#", "C#", "D", "D#", "E", "E#", "F#", "G", "G#", "A", "A#", "B")
    FLATTISH = ("C", "Db", "D", "Eb", "Fb", "F", "Gb", "G", "Ab", "A", "Bb", "Cb")
    for i, (nm, o) in enumerate(ref.notes):
        q = R.pitch((nm, o))
        for table in (SHARPISH, FLATTISH):
            alt = table[q % 12]
            if alt == nm:
                continue
            ao = q // 12 + (1 if alt == "Cb" else 0) - (1 if alt == "B#" else 0)
            if R.pitch((alt, ao)) != q:
                raise engine.HarnessError("respelling helper")
            twin = container_of(ref.notes[:i] + [(alt, ao)] + ref.notes[i + 1:])
            if not (nc == twin) or (nc != twin) or not (twin == nc):
                S.problem(where + "== container with the same pitches, note %d respelled as %s-%d" % (i, alt, ao), True, False)
            S.count("respelled_equalities_checked")
            break
    variants = []
    if ref.notes:
        variants.append(ref.notes[:-1])
        variants.append(ref.notes[1:])
        top = ref.notes[-1]
        variants.append(ref.notes[:-1] + [(top[0], top[1] + 1)])
    variants.append(ref.notes + [("F", 8)])
    # one note -- at every position in turn -- a semitone off, the others as they are
    for i, (nm, o) in enumerate(ref.notes):
        for alt in ((nm + "#", o), (nm + "b", o)):
            q = R.pitch(alt)
            if q not in ps:
                variants.append(ref.notes[:i] + [alt] + ref.notes[i + 1:])
                break
    for v in variants:
        other = container_of(v)
        if (nc == other) or not (nc != other) or (other == nc):
            S.problem(where + "== container with different pitches", False, True, detail={"other": v})
            break
    names = nc.get_note_names()
    want_names = ref.names()
    if sorted(names) != sorted(want_names):
        S.problem(where + "get_note_names()", want_names, names)
    for f in (True, False):
        want = ref.all_pairs(lambda a, b: R.consonant(a, b, f))
        g = nc.is_consonant(f)
        if g is not want:
            S.problem(where + "is_consonant(%r)" % f, want, g)
        want = ref.all_pairs(lambda a, b: R.perfect(a, b, f))
        g = nc.is_perfect_consonant(f)
        if g is not want:
            S.problem(where + "is_perfect_consonant(%r)" % f, want, g)
        every = ref.all_pairs(lambda a, b: R.dissonant(a, b, f))
        some = ref.any_pair(lambda a, b: R.dissonant(a, b, f))
        g = nc.is_dissonant(f)
        if every == some:
            S.count("is_dissonant_judged")
            if g is not every:
                S.problem(where + "is_dissonant(%r)" % f, every, g)
        else:
            S.count("is_dissonant_readings_differ_not_judged")
            if g is not True and g is not False:
                S.problem(where + "is_dissonant(%r)" % f, "a bool", g)
    want = ref.all_pairs(R.imperfect)
    g = nc.is_imperfect_consonant()
    if g is not want:
        S.problem(where + "is_imperfect_consonant()", want, g)
    # defaults of the flags: fourths count as consonant
    if nc.is_consonant() is not ref.all_pairs(lambda a, b: R.consonant(a, b, True)):
        S.problem(where + "is_consonant()", ref.all_pairs(lambda a, b: R.consonant(a, b, True)), nc.is_consonant())
    if len(ref.notes) >= 3:
        S.count("consonance_checked_on_3_or_more_notes")
    return True


class HistorySpec(BfsSpec):
    observe_prefix = True      # the invariant's observations are made at every step of a replayed history

    """bfs over operation histories.

    canon: the only instance state of a NoteContainer is the list `notes`; every method reads at most
    name, octave (and copies channel/velocity) of the stored Note objects, in stored order (notes[-1] is the
    voicing reference), so the ordered tuple of (name, octave, channel, velocity) determines all future
    behaviour.  Every action creates fresh Note objects that are never touched again by the harness, so
    no aliasing survives an action."""

    def __init__(self, names=NAMES8, octs=OCTS, reduced=False):
        self.names = list(names)
        self.octs = list(octs)
        self.reduced = reduced

    def params(self):
        return {"names": self.names, "octs": self.octs, "reduced": self.reduced}

    def init(self):
        return State()

    def actions(self):
        acts = []
        for n in self.names:
            acts.append(["bare", n])
        for o in self.octs:
            for n in self.names:
                acts.append(["put", n, o])
        for a, b in BARE_PAIRS:
            if a in self.names and b in self.names:
                acts.append(["pair", a, b])
        if not self.reduced:
            for i in range(len(MIXED)):
                acts.append(["mixed", i])
            for i in range(len(OTHERS)):
                acts.append(["other", i])
        for n in self.names:
            acts.append(["del", n])
        for o in self.octs:
            for n in self.names:
                acts.append(["del_oct", n, o])
        for o in self.octs:
            for n in self.names:
                acts.append(["del_note", n, o])
        if not self.reduced:
            for i in range(len(DEL_LISTS)):
                acts.append(["del_list", i])
        # emptying and refilling through the constructors (what the names/consonance queries say afterwards
        # must follow the new content)
        acts += [["empty"], ["from_chord", "NC"], ["from_chord", "C"], ["from_chord", "Am7"], ["from_progression", "VIII"]]
        return acts

    def step(self, st, act, check=True):
        apply_action(st, act)
        if check:
            engine.S.sample({"history_step": act, "stored": stored(st.nc)})

    def invariant(self, st):
        S = engine.S
        check_content(st.nc, st.ref, S)
        for k, (other, onotes) in enumerate(st.operands):
            if stored(other) != onotes:
                S.problem("operand container #%d (added earlier with add_notes/'+') afterwards" % k, onotes, stored(other))
            S.count("operand_containers_rechecked")
        S.outcome(tuple(stored(st.nc)))

    def canon(self, st):
        # whole instance state of the real container (every attribute of it and of its notes), so
        # that hidden state a changed library adds still separates states
        return engine.deep_key([st.nc] + [o for o, _ in st.operands])


def run_history(case):
    spec = HistorySpec(case.get("names", NAMES8), case.get("octs", OCTS), case.get("reduced", False))
    engine.bfs_execute(spec, case["history"], check_prefix=True)


# ---------------------------------------------------------------------------------------
# forms: every equivalent spelling of one addition / removal on every base container
# ---------------------------------------------------------------------------------------
UNIVERSE = [("C", 4), ("D#", 4), ("G", 4), ("Eb", 5), ("Cb", 5), ("E", 3), ("C", 0)]
FORM_OCTS = [0, 3, 4, 5]             # octave 0 is a legal octave (and a falsy number)


def bases(maxsize):
    out = []
    for k in range(maxsize + 1):
        for sub in itertools.combinations(UNIVERSE, k):
            out.append([list(n) for n in sub])
    return out


def run_forms(case):
    """case = [base notes, kind, name, octave|None, form]"""
    S = engine.S
    base, kind, name, octave, form = case
    st = State()
    st.nc = NoteContainer([[n, o] for n, o in base])
    st.ref = R.RefSet([(n, o) for n, o in base])
    if stored(st.nc) != st.ref.notes:
        S.problem("NoteContainer(%r)" % (base,), st.ref.notes, stored(st.nc))
        return
    if kind == "bare":
        model_add(st, name)
        call_bare(st.nc, name, form)
    elif kind == "put":
        model_add(st, name, octave)
        call_put(st.nc, name, octave, form)
    elif kind == "del":
        st.ref.remove_name(name)
        call_del(st.nc, name, form)
    elif kind == "del_oct":
        st.ref.remove_name_octave(name, octave)
        st.nc.remove_note(name, octave)
    elif kind == "del_note":
        st.ref.remove_pitch(R.pitch((name, octave)))
        call_del_note(st.nc, name, octave, form)
    else:
        raise engine.HarnessError("bad forms kind %r" % kind)
    sync_spelling(st)
    S.trans(1)
    check_content(st.nc, st.ref, S)
    S.outcome((kind, form, tuple(stored(st.nc))))
    S.count("forms_" + kind)


def gen_forms(shard):
    base = shard
    for n in NAMES8:
        for f in range(BARE_FORMS):
            yield [base, "bare", n, None, f]
        for f in range(DEL_FORMS):
            yield [base, "del", n, None, f]
        for o in FORM_OCTS:
            for f in range(PUT_FORMS_ALL):
                yield [base, "put", n, o, f]
            yield [base, "del_oct", n, o, 0]
            for f in range(DELNOTE_FORMS):
                yield [base, "del_note", n, o, f]


# ---------------------------------------------------------------------------------------
# voicing: ordered bare names
# ---------------------------------------------------------------------------------------
def run_voicing(case):
    """case = [names..., ] given bare and in order, through three routes"""
    S = engine.S
    names = list(case)
    ref = R.RefSet()
    for n in names:
        top = ref.top()
        note, idx = ref.add(n)
        if top is not None:
            p = R.pitch(note)
            if not (top <= p < top + 12):
                raise engine.HarnessError("model voiced %r outside the window" % (note,))
    routes = []
    nc = NoteContainer(list(names))
    routes.append(("NoteContainer(%r)" % (names,), nc))
    nc2 = NoteContainer()
    for n in names:
        nc2.add_note(n)
    routes.append(("add_note x%d" % len(names), nc2))
    nc3 = NoteContainer()
    for n in names:
        nc3 = nc3 + n
    routes.append(("'+' x%d" % len(names), nc3))
    S.trans(1 + 2 * len(names))
    for site, c in routes:
        got = stored(c)
        # duplicates: either spelling may survive (see ASSUMPTIONS); compare pitch-wise then spelling-wise
        gp = [R.pitch(n) for n in got]
        if gp != ref.pitches():
            S.problem(site, ref.notes, got, tags={"got_pitches": gp, "want_pitches": ref.pitches(), "names": names})
            continue
        for g, m in zip(got, ref.notes):
            if g != m and g[0] not in names:
                S.problem(site + " spelling", ref.notes, got)
                break
    if len(ref.notes) < len(names):
        S.count("voicing_enharmonic_duplicate_dropped")
    if any((R.pitch(n) // 12) != n[1] for n in ref.notes):
        S.count("voicing_octave_label_differs_from_pitch_octave")
    S.outcome(tuple(stored(nc)))
    S.sample({"names": names, "stored": stored(nc)})


# ---------------------------------------------------------------------------------------
# shorthand constructors
# ---------------------------------------------------------------------------------------
def fold_bare(names):
    ref = R.RefSet()
    for n in names:
        ref.add(n)
    return ref


def compare_voiced(S, site, nc, names, root):
    ref = fold_bare(names)
    got = stored(nc)
    ok = True
    if [R.pitch(n) for n in got] != ref.pitches() or any(g != m and g[0] not in names for g, m in zip(got, ref.notes)):
        S.problem(site, ref.notes, got, tags={"names": names})
        ok = False
    if root is not None and (not got or got[0] != (root, 4)):
        S.problem(site + " starts on the root in octave 4", (root, 4), got[:1], tags={"names": names})
        ok = False
    return ok, ref


def reused_containers(names):
    """Containers a constructor may be called on: a new one, one holding unrelated notes, and ones whose notes carry the
    very names the constructor is about to place -- in other octaves, and with one name doubled on top."""
    out = [("", NoteContainer()), (" on a non-empty container", NoteContainer([["A", 2], ["F#", 6]]))]
    good = [n for n in names if P.is_name(n)]
    if good:
        low = []
        for i, n in enumerate(good):
            cand = (n, 1 + i)
            if not low or R.pitch(cand) > R.pitch(low[-1]):
                low.append(cand)
        if len(low) == len(good):
            out.append((" on a container holding the same names in other octaves", container_of(low)))
            top = (good[0], low[-1][1] + 2)
            out.append((" on a container holding the same names and one of them doubled", container_of(low + [top])))
    return out


def run_chord(case):
    """case = [root, suffix]"""
    S = engine.S
    root, suffix = case
    sh = root + suffix
    try:
        names = list(_chords.from_shorthand(sh))
    except Exception as e:                             # noqa -- the chord itself is C06's subject
        S.count("chord_not_buildable_skipped")
        S.outcome(("unbuildable", suffix, type(e).__name__))
        return
    if not names or not all(P.is_name(n) for n in names):
        S.count("chord_not_buildable_skipped")
        return
    for via in ("from_chord_shorthand", "from_chord"):
        for where, nc in reused_containers(names):
            r = getattr(nc, via)(sh)
            S.trans(1)
            site = "%s(%r)%s" % (via, sh, where)
            if r is not nc:
                # the docstring example shows the container; the statement only speaks of "a container built from"
                S.count("constructor_returned_other_object")
                if not isinstance(r, NoteContainer):
                    S.problem(site + " result", "a NoteContainer", type(r).__name__)
                    continue
                nc = r
            # a slash chord starts on its bass note, a polychord on the lower chord's root: in both cases the
            # first name of the chord's note list
            start = names[0] if ("/" in suffix or "|" in suffix) else root
            ok, ref = compare_voiced(S, site, nc, names, start)
            if ok:
                check_content(nc, R.RefSet(stored(nc)), S, where=site + ": ")
    S.count("chords_checked")
    if "/" in suffix or "|" in suffix:
        S.count("slash_or_poly_chords_checked")
        if len(set(names)) < len(names):
            S.count("chords_naming_a_note_twice")
    if len(fold_bare(names).notes) >= 5:
        S.count("chords_with_5_or_more_notes")
    S.outcome((suffix, tuple(stored(nc))))
    S.sample({"chord": sh, "stored": stored(nc)})


def slash_suffixes(root):
    """Slash chords over a chord tone / a foreign bass and polychords sharing notes: the chord's note list then
    names a note twice, and both belong in the container (the second an octave doubling further up)."""
    up = lambda sh: P.apply_shorthand_up(root, sh)
    out = []
    for quality, basses in (("", ("3", "5", "2")), ("m", ("b3", "5")), ("7", ("3", "b7")), ("m7", ("b7", "b3")), ("M7", ("7",))):
        for b in basses:
            name = up(b)
            if P.is_name(name) and len(name) <= 2:
                out.append([root, "%s/%s" % (quality, name)])
    for other in (up("6") + "m", up("5"), up("2") + "m7", root + "m"):
        if len(other.rstrip("m7")) <= 2:
            out.append([root, "|" + other])
    return out


def run_interval(case):
    """case = [start, shorthand, up]"""
    S = engine.S
    start, sh, up = case
    num, size = P.shorthand_semitones(sh)
    if not 0 <= size <= 11:
        S.count("interval_size_outside_0_11_skipped")
        return
    target_name = P.apply_shorthand_up(start, sh) if up else P.apply_shorthand_down(start, sh)
    sp = R.pitch((start, 4))
    tp = sp + size if up else sp - size
    base = P.NAT[target_name[0]] + P.net(target_name)
    if (tp - base) % 12 != 0:
        raise engine.HarnessError("reference interval spelling %r does not have the required pitch class" % target_name)
    target = (target_name, (tp - base) // 12)
    want = R.RefSet([(start, 4), target])
    for via in ("from_interval_shorthand", "from_interval"):
      for where, nc in reused_containers([n for n, _ in want.notes]):
        r = getattr(nc, via)(start, sh, up)
        S.trans(1)
        site = "%s(%r, %r, %r)%s" % (via, start, sh, up, where)
        if isinstance(r, NoteContainer):
            nc = r
        got = stored(nc)
        if [R.pitch(n) for n in got] != want.pitches():
            S.problem(site, want.notes, got)
            continue
        if got != want.notes:
            # same pitches, other spelling: only the start note's own name is fixed by the statement
            if (start, 4) not in got and size != 0:
                S.problem(site + " start note", (start, 4), got)
            S.count("interval_spelling_differs_from_reference")
        if size == 0:
            S.count("interval_unison_collapsed")
        if got == want.notes:
            check_content(nc, want, S, where=site + ": ")
    S.count("intervals_checked")
    S.outcome((sh, up, tuple(stored(nc))))
    S.sample({"interval": case, "stored": stored(nc)})


NUMERALS = ["I", "II", "III", "IV", "V", "VI", "VII"]


def run_numeral(case):
    """case = [key, numeral]"""
    S = engine.S
    key, numeral = case
    base = numeral[:-1] if numeral.endswith("7") else numeral
    if base.upper() not in NUMERALS:
        nc = NoteContainer()
        r = nc.from_progression_shorthand(numeral, key)
        S.count("unknown_numeral_not_judged")
        S.outcome(("unknown", numeral, repr(r)))
        return
    try:
        lst = _progressions.to_chords(numeral, key)
        names = list(lst[0])
    except Exception as e:                             # noqa -- the chord list itself is C08's subject
        S.count("numeral_not_buildable_skipped")
        return
    root = P.notes_of_key(key)[NUMERALS.index(base.upper())]
    for via in ("from_progression_shorthand", "from_progression"):
      for where, nc in reused_containers(names):
        r = getattr(nc, via)(numeral, key)
        S.trans(1)
        site = "%s(%r, %r)%s" % (via, numeral, key, where)
        if not isinstance(r, NoteContainer):
            S.problem(site + " result", "a NoteContainer", repr(r))
            continue
        nc = r
        ok, ref = compare_voiced(S, site, nc, names, root)
        if ok:
            check_content(nc, R.RefSet(stored(nc)), S, where=site + ": ")
    S.count("numerals_checked")
    S.outcome((numeral, tuple(stored(nc))))
    S.sample({"numeral": case, "stored": stored(nc)})


SHARE_FORMS = 4


def run_shared(case):
    """case = [name, octave, form, [actions...]] -- one Note object handed to two containers.

    The library stores the caller's Note object itself (add_note(Note), add_notes([Note]), '+' Note), so the
    same object may sit in several containers.  No add or remove operation on container a may change what
    container b holds: b saw no operation, its model content is still the one note it was given."""
    S = engine.S
    name, octave, form, acts = case
    st = State()
    n = Note(name, octave)
    if form == 0:
        st.nc.add_note(n)
    elif form == 1:
        st.nc.add_notes([n])
    elif form == 2:
        st.nc.add_notes(n)
    else:
        r = st.nc + n
    st.ref.add(name, octave)
    b = NoteContainer()
    b.add_note(n)
    bref = R.RefSet([(name, octave)])
    for i, act in enumerate(acts):
        apply_action(st, act)
        S.trans(1)
        where = "Note %s-%d given to containers a and b, then on a: %r: " % (name, octave, acts[:i + 1])
        check_content(st.nc, st.ref, S, where=where + "a: ")
        if (n.name, n.octave) != (name, octave):
            S.problem(where + "the caller's Note object", (name, octave), (n.name, n.octave))
            break
        if not check_content(b, bref, S, where=where + "b (untouched): "):
            break
    S.count("shared_note_histories")
    S.outcome((tuple(stored(st.nc)), tuple(stored(b))))


def gen_shared(shard):
    name, octave, second = shard
    spec = HistorySpec()
    acts = spec.actions()
    for form in range(SHARE_FORMS):
        for a in acts:
            if not second:
                yield [name, octave, form, [a]]
            elif form == 0:
                for a2 in acts:
                    yield [name, octave, form, [a, a2]]


CLAUSES = {
    "history": run_history,
    "shared": run_shared,
    "forms": run_forms,
    "voicing": run_voicing,
    "chord": run_chord,
    "interval": run_interval,
    "numeral": run_numeral,
}


def _gen_voicing(shard):
    first, pool2, pool3 = shard
    for b in pool2:
        yield [first, b]
    for b in pool3:
        for c in pool3:
            yield [first, b, c]


def explore(ctx):
    # ---- history bfs
    if ctx.want("history"):
        depth = ctx.pick(3, 4)
        spec = HistorySpec()
        ctx.bound("history_depth", depth)
        ctx.bound("history_names", NAMES8)
        ctx.bound("history_octaves", OCTS)
        ctx.bound("history_actions", len(spec.actions()))
        ctx.bfs("history", spec, depth, label="history (full alphabet)")
        if not ctx.quick:
            # one level deeper on a reduced alphabet (4 colliding names, 2 octaves, no list forms)
            spec2 = HistorySpec(["C", "B#", "Eb", "D#"], [4, 5], reduced=True)
            ctx.bound("history_reduced_depth", 6)
            ctx.bound("history_reduced_actions", len(spec2.actions()))
            ctx.bfs("history", spec2, 6, label="history (reduced alphabet)")
    # ---- one Note object in two containers
    if ctx.want("shared"):
        two = ctx.pick(["C", "D#", "B#"], NAMES8)
        shards = [(n, o, False) for n in NAMES8 for o in OCTS] + [(n, o, True) for n in two for o in ctx.pick([4], OCTS)]
        ctx.bound("shared_notes", len(NAMES8) * len(OCTS))
        ctx.bound("shared_two_step_notes", len([x for x in shards if x[2]]))
        ctx.product("shared", shards, gen_shared)
    # ---- forms
    if ctx.want("forms"):
        bs = bases(ctx.pick(2, 3))
        ctx.bound("forms_bases", len(bs))
        ctx.product("forms", bs, gen_forms)
    # ---- voicing
    if ctx.want("voicing"):
        pool2 = ctx.pick(P.canon_names(2), P.names(2))
        pool3 = ctx.pick(P.canon_names(1), P.canon_names(2))
        ctx.bound("voicing_pairs_over", len(pool2))
        ctx.bound("voicing_triples_over", len(pool3))
        firsts = sorted(set(pool2) | set(pool3))
        ctx.product("voicing", [(f, pool2 if f in pool2 else [], pool3 if f in pool3 else []) for f in firsts], _gen_voicing)
    # ---- constructors
    if ctx.want("chord"):
        suffixes = sorted(_chords.chord_shorthand.keys())
        roots = ctx.pick(P.canon_names(2), P.names(2))
        ctx.bound("chord_suffixes", len(suffixes))
        ctx.bound("chord_roots", len(roots))
        ctx.product("chord", roots, lambda root: itertools.chain(([root, s] for s in suffixes), slash_suffixes(root)))
        ctx.guard("chord suffixes enumerated", len(suffixes), 47)
    if ctx.want("interval"):
        starts = ctx.pick(P.canon_names(2), P.names(2))
        ctx.product("interval", starts, lambda s: ([s, sh, up] for sh in P.SH35 for up in (True, False)))
    if ctx.want("numeral"):
        nums = NUMERALS + [n + "7" for n in NUMERALS]
        extra = ctx.pick([], [n.lower() for n in NUMERALS])
        unknown = ["", "VIII", "IIII", "X"]
        ctx.product("numeral", P.KEYS30, lambda k: ([k, n] for n in nums + extra + unknown))
    if not ctx.only:
        ctx.guard("enharmonic duplicates not added", ctx.counter("enharmonic_duplicate_not_added"), 100)
        ctx.guard("identical duplicates not added", ctx.counter("identical_duplicate_not_added"), 100)
        ctx.guard("bare names voiced outside octave 4", ctx.counter("bare_name_voiced_outside_octave_4"), 100)
        ctx.guard("notes added below the top", ctx.counter("added_below_the_top"), 100)
        ctx.guard("name removed in several octaves", ctx.counter("removed_a_name_in_several_octaves"), 20)
        ctx.guard("one octave of a multi-octave name removed", ctx.counter("removed_one_octave_of_a_name_present_in_several"), 20)
        ctx.guard("removal by enharmonic note", ctx.counter("removed_by_enharmonic_note"), 20)
        ctx.guard("consonance on >= 3 notes", ctx.counter("consonance_checked_on_3_or_more_notes"), 1000)
        ctx.guard("is_dissonant judged", ctx.counter("is_dissonant_judged"), 1000)
        ctx.guard("chords checked", ctx.counter("chords_checked"), 47 * 35)
        ctx.guard("intervals checked", ctx.counter("intervals_checked"), 1000)
        ctx.guard("numerals checked", ctx.counter("numerals_checked"), 30 * 14)
        ctx.guard("voicing duplicates", ctx.counter("voicing_enharmonic_duplicate_dropped"), 50)
    if ctx.counter("duplicate_respelled_adopted"):
        ctx.note("%d duplicate additions left the new spelling behind (accepted reading)" % ctx.counter("duplicate_respelled_adopted"))


KNOWN = {}
