# -*- coding: utf-8 -*-
"""C15 helper: the table of representative arguments for every public callable (clauses
``arguments``, ``instances`` and ``copies``).

The table is *checked against* ``dir()``: :func:`catalogue` walks every public function of the
theory modules / ``extra.fft`` / ``extra.tunings`` and every public method (plus the container
dunder operators) of every class in scope and resolves each parameter name to representative
values through  CALL[(owner, callable, param)]  ->  OWNER[(owner, param)]  ->  GLOBAL[param].
A parameter that resolves nowhere, or a callable that is neither covered nor explicitly excluded
(with a reason), is a harness error -- a new public function can therefore not silently escape.

Every value is produced by a factory, so each call gets fresh, caller-owned objects.
"""
from __future__ import annotations

import importlib
import inspect
import io
import os
import types

from mingus.containers.note import Note
from mingus.containers.note_container import NoteContainer
from mingus.containers.bar import Bar
from mingus.containers.track import Track
from mingus.containers.composition import Composition
from mingus.containers.suite import Suite
from mingus.containers import instrument as _instr
from mingus.core.keys import Key
from mingus.midi.midi_track import MidiTrack
from mingus.midi import midi_file_out as _mfo
from mingus.midi import midi_file_in as _mfi
from mingus.midi.sequencer import Sequencer
from mingus.midi.sequencer_observer import SequencerObserver
from mingus.extra import tunings as _tunings

DUNDERS = ("__init__", "__add__", "__sub__", "__setitem__", "__getitem__", "__eq__", "__ne__", "__len__",
           "__contains__", "__lt__", "__gt__", "__le__", "__ge__", "__int__", "__repr__", "__str__")

TMP = {"dir": None, "midi": None}       # set by c15.setup_tmp()


# ---------------------------------------------------------------------------------------
# object factories
# ---------------------------------------------------------------------------------------
def bar2():
    b = Bar("C", (4, 4))
    b.place_notes(["C", "E"], 4)
    b.place_notes(NoteContainer(["D", "F", "A"]), 4)
    return b


def bar_rest():
    """a 3/4 bar in G that ends with a rest"""
    b = Bar("G", (3, 4))
    b.place_notes("D", 4)
    b.place_rest(2)
    return b


def track_rest():
    t = Track()
    t.add_bar(bar_rest())
    t.add_bar(bar_rest())
    return t


def track_mixed():
    """a bar that ends with a rest, followed by a bar in another meter and key"""
    t = Track()
    t.add_bar(bar_rest())
    t.add_bar(bar2())
    return t


def track1():
    t = Track()
    t.add_bar(bar2())
    return t


def track2(instr=None):
    t = Track(instr)
    t.add_bar(bar2())
    t.add_bar(bar2())
    return t


def comp2():
    c = Composition()
    c.add_track(track2())
    c.add_track(track2())
    return c


def comp3():
    c = comp2()
    c.add_track(track2())
    return c


class _Omit(object):
    """alternative value of a parameter: the argument is not passed at all (the callable's own default applies)"""

    def __repr__(self):
        return "<argument omitted>"


OMIT = _Omit()


def tuning6():
    return _tunings.StringTuning("Guitar", "test", ["E-2", "A-2", "D-3", "G-3", "B-3", "E-4"])


def midi_bytes():
    t = MidiTrack(120)
    t.play_Bar(bar2())
    return _mfo.MidiFile([t]).get_midi_data()


def fp_at(offset):
    f = io.BytesIO(midi_bytes())
    f.seek(offset)
    return f


def tmpfile(name="out.mid"):
    return os.path.join(TMP["dir"], "%d_%s" % (os.getpid(), name))


def midi_path():
    return TMP["midi"]


def observer_seq():
    s = Sequencer()
    s.attach(SequencerObserver())
    return s


# ---------------------------------------------------------------------------------------
# representative values:   name -> factory returning the list of alternatives (first = default)
# ---------------------------------------------------------------------------------------
GLOBAL = {
    "note": lambda: ["C"],
    "note1": lambda: ["C"],
    "note2": lambda: ["E"],
    "key": lambda: ["C"],
    "up": lambda: [True],
    "shorthand": lambda: [True],
    "include_fourths": lambda: [True],
    "octave": lambda: [5],
    "octaves": lambda: [1],
    "channel": lambda: [2],
    "velocity": lambda: [100],
    "bpm": lambda: [120],
    "bank": lambda: [1],
    "instr": lambda: [5],
    "duration": lambda: [4],
    "meter": lambda: [(4, 4)],
    "index": lambda: [0],
    "item": lambda: [0],
    "title": lambda: ["T"],
    "subtitle": lambda: ["S"],
    "author": lambda: ["A"],
    "email": lambda: ["e@x"],
    "verbose": lambda: [False],
    "file": lambda: [tmpfile()],
    "maxfret": lambda: [24],
    "max_distance": lambda: [4],
    "seconds": lambda: [0.0],
    "control": lambda: [7],
    "bar": lambda: [bar2(), bar_rest()],
    "bars": lambda: [[bar2(), bar2()]],
    "channels": lambda: [[1, 2], [1, 2, 9]],
    "track": lambda: [track2(), track_rest(), track_mixed()],
    "tracks": lambda: [[track2(), track2()], [track2(), track1(), track2()]],
    "composition": lambda: [comp2(), comp3()],
    "nc": lambda: [NoteContainer(["C", "E"])],
    "notecontainer": lambda: [NoteContainer(["C", "E"])],
    "interval": lambda: ["3"],
    "dynamics": lambda: [{"velocity": 90}, {"velocity": 90, "channel": 3}, {}],
    "msg_type": lambda: [5],
    "params": lambda: [{"note": Note("C", 4), "channel": 1, "velocity": 100}],
    "direction": lambda: ["a"],
    "degree_number": lambda: [2],
}

OWNER = {
    # ---- theory modules
    ("core.notes", "note"): lambda: ["C#"],
    ("core.notes", "note_int"): lambda: [3],
    ("core.notes", "accidentals"): lambda: ["#"],
    ("core.intervals", "note"): lambda: ["E"],
    ("core.intervals", "start_note"): lambda: ["E"],
    ("core.intervals", "interval"): lambda: [2],
    ("core.keys", "accidentals"): lambda: [0],
    # roots outside the key: what a chord on them is must not depend on whether the key's chords were asked before
    ("core.chords", "note"): lambda: ["C", "Eb", "F#"],
    ("core.chords", "key"): lambda: ["C", "G", "a"],
    ("core.chords", "chord"): lambda: [["C", "E", "G"], ["C", "E", "G", "B"], ["C", "E", "G", "B", "D"],
                                       ["C", "E", "G", "B", "D", "F"], ["C", "E", "G", "B", "D", "F", "A"],
                                       ["C", "E", "G", "Bb", "D", "F", "A", "C#"], [], ["C"], ["C", "E"]],
    ("core.chords", "triad"): lambda: [["C", "E", "G"], ["A", "C", "E"]],
    ("core.chords", "seventh"): lambda: [["C", "E", "G", "B"], ["E", "G", "B", "C"]],
    ("core.chords", "shorthand"): lambda: [False, True],
    ("core.chords", "no_inversions"): lambda: [False, True],
    ("core.chords", "no_inversion"): lambda: [False],
    ("core.chords", "no_polychords"): lambda: [False, True],
    ("core.chords", "placeholder"): lambda: [None],
    ("core.chords", "tries"): lambda: [2],
    ("core.chords", "shorthand_string"): lambda: ["Cm7", ["Cm7", "G7"], ["Am/G", "Dm|G", "NC"]],
    ("core.progressions", "progression"): lambda: [["I", "IV", "V7"], ["Im7", "V"], ["VIIdim7"], ["IM7", "bIIdim"], "I"],
    ("core.progressions", "chord"): lambda: [["C", "E", "G"], [["C", "E", "G"], ["G", "B", "D", "F"]], ["C", "E", "G", "B"],
                                             ["C", "E", "G", "B", "D"],
                                             # one chord with two readings (C6 / A minor) in its three rotations
                                             ["C", "E", "A"], ["A", "C", "E"], ["E", "A", "C"], ["F", "A", "C", "D"], ["D", "F", "A", "C"]],
    ("core.progressions", "prog_tuple"): lambda: [("I", 0, "7")],
    ("core.progressions", "substitute_index"): lambda: [0],
    ("core.progressions", "ignore_suffix"): lambda: [False, True],
    ("core.progressions", "depth"): lambda: [0, 1, 2],
    ("core.progressions", "progression1"): lambda: ["I"],
    ("core.progressions", "progression2"): lambda: ["V"],
    ("core.progressions", "interval"): lambda: [7],
    ("core.progressions", "roman_numeral"): lambda: ["I"],
    ("core.progressions", "skip_count"): lambda: [2],
    ("core.scales", "notes"): lambda: [["A", "Bb", "E", "F#", "G"], ["C", "E"], []],
    ("core.value", "value"): lambda: [4],
    ("core.value", "value1"): lambda: [4],
    ("core.value", "value2"): lambda: [8],
    ("core.value", "nr"): lambda: [1],
    ("core.value", "rat1"): lambda: [3],
    ("core.value", "rat2"): lambda: [2],
    ("core.value", "in_fourths"): lambda: [True],
    ("extra.fft", "f"): lambda: [440.0],
    ("extra.fft", "data"): lambda: [[0, 1000, 0, -1000, 0, 1000, 0, -1000]],
    ("extra.fft", "freq"): lambda: [44100],
    ("extra.fft", "bits"): lambda: [16],
    ("extra.fft", "chunksize"): lambda: [4],
    ("extra.fft", "freqTable"): lambda: [[(440.0, 1.0), (880.0, 0.5), (20000.0, 0.1)]],
    ("extra.fft", "maxNote"): lambda: [100],
    ("extra.tunings", "fingering"): lambda: [[0, 2, 2, 1, 0, 0]],
    ("extra.tunings", "instrument"): lambda: ["Guitar"],
    ("extra.tunings", "description"): lambda: ["standard"],
    ("extra.tunings", "nr_of_strings"): lambda: [6],
    ("extra.tunings", "nr_of_courses"): lambda: [1],
    # ---- scales classes
    ("scale", "note"): lambda: ["C"],
    ("scale", "semitones"): lambda: [(3, 7)],
    ("scale", "other"): lambda: [_mod("mingus.core.scales").Major("C")],
    # ---- containers
    ("Note", "name"): lambda: ["D"],
    ("Note", "diff"): lambda: [1],
    ("Note", "integer"): lambda: [61],
    ("Note", "hertz"): lambda: [440],
    ("Note", "standard_pitch"): lambda: [440],
    ("Note", "shorthand"): lambda: ["c'"],
    ("Note", "other"): lambda: [Note("E", 4)],
    ("NoteContainer", "notes"): lambda: [["C", "E", "G"], [["C", 5], ["E", 5]], [["C", 5, {"velocity": 20}], ["E", 6, {"velocity": 20}]],
                                         [Note("C", 4), Note("G", 4)], NoteContainer(["C", "E"]), "C"],
    ("NoteContainer", "note"): lambda: ["E", Note("E", 4)],
    ("NoteContainer", "startnote"): lambda: ["C", Note("C", 4)],
    ("NoteContainer", "value"): lambda: ["B", Note("B", 4)],
    ("NoteContainer", "other"): lambda: [NoteContainer(["C", "E"])],
    ("Bar", "notes"): lambda: [["C", "E"], [Note("C", 4), Note("E", 4)], "C", NoteContainer(["C", "E"]), None],
    ("Bar", "at"): lambda: [0.0],
    ("Bar", "to"): lambda: [8],
    ("Bar", "value"): lambda: [["C", "E"], "C", NoteContainer(["C", "E"])],
    ("Bar", "note_container"): lambda: [["C", "E"], NoteContainer(["C", "E"])],
    ("Bar", "other"): lambda: [bar2()],
    ("Bar", "shorthand"): lambda: [True],
    ("Track", "instrument"): lambda: [None],
    ("Track", "note"): lambda: ["C", ["C", "E"], NoteContainer(["C", "E"])],
    ("Track", "chords"): lambda: [["C", ["Am", "Dm"], "G7"], ["C", None]],
    ("Track", "duration"): lambda: [4],
    ("Track", "tuning"): lambda: [tuning6()],
    ("Track", "value"): lambda: ["C", bar2(), NoteContainer(["C", "E"])],
    ("Track", "other"): lambda: [track2()],
    ("Composition", "note"): lambda: ["C", NoteContainer(["C", "E"])],
    ("Composition", "value"): lambda: [track2(), "C"],
    ("Suite", "value"): lambda: [comp2()],
    ("Instrument", "range"): lambda: [["C-2", "C-6"], (Note("C", 2), Note("C", 6)), [Note("C", 2), Note("C", 6)]],
    ("Instrument", "note"): lambda: ["C", Note("C", 4)],
    ("Instrument", "notes"): lambda: [["C", "E"], [Note("C", 4), Note("E", 4)], NoteContainer(["C", "E"])],
    ("Instrument", "name"): lambda: [""],
    ("Key", "other"): lambda: [Key("G")],
    # ---- midi
    ("MidiTrack", "start_bpm"): lambda: [120],
    ("MidiTrack", "note"): lambda: [Note("C", 4)],
    ("MidiTrack", "event_type"): lambda: [9],
    ("MidiTrack", "param1"): lambda: [60],
    ("MidiTrack", "param2"): lambda: [64],
    ("MidiTrack", "contr_nr"): lambda: [7],
    ("MidiTrack", "contr_val"): lambda: [100],
    ("MidiTrack", "delta_time"): lambda: [10],
    ("MidiTrack", "name"): lambda: ["track"],
    ("MidiTrack", "value"): lambda: [300],
    ("MidiTrack", "velocity"): lambda: [64],
    ("MidiTrack", "channel"): lambda: [1],
    ("MidiFileOut", "tracks"): lambda: [[MidiTrack(120)], None],
    ("MidiFileIn", "file"): lambda: [midi_path()],
    ("MidiFileIn", "fp"): lambda: [fp_at(0)],
    ("MidiFileIn", "_bytes"): lambda: [b"\x00\x01"],
    ("MidiFileIn", "bytes"): lambda: [b"\x00\x48"],
    ("MidiFileIn", "return_bytes_read"): lambda: [True],
    ("Sequencer", "listener"): lambda: [SequencerObserver()],
    ("Sequencer", "note"): lambda: [Note("C", 4)],
    ("Sequencer", "value"): lambda: [100],
    ("Sequencer", "channel"): lambda: [1],
    ("SequencerObserver", "int_note"): lambda: [60],
    ("SequencerObserver", "note"): lambda: [Note("C", 4)],
    ("SequencerObserver", "notes"): lambda: [NoteContainer(["C", "E"])],
    ("SequencerObserver", "value"): lambda: [100],
    ("SequencerObserver", "channel"): lambda: [1],
    # ---- tunings
    ("StringTuning", "instrument"): lambda: ["Guitar"],
    ("StringTuning", "description"): lambda: ["test"],
    ("StringTuning", "tuning"): lambda: [["E-2", "A-2", "D-3", "G-3", "B-3", "E-4"], [["E-2", "E-3"], ["A-2", "A-3"], "D-3"]],
    ("StringTuning", "note"): lambda: ["C-4", Note("C", 4)],
    ("StringTuning", "notes"): lambda: [["E-3", "B-3"], [Note("E", 3), Note("B", 3)], NoteContainer(["E-3", "B-3"])],
    ("StringTuning", "not_strings"): lambda: [None, [0]],
    ("StringTuning", "max_fingers"): lambda: [4],
    ("StringTuning", "return_best_as_NoteContainer"): lambda: [False],
    ("StringTuning", "fingering"): lambda: [[0, 2, 2, 1, 0, 0]],
    ("StringTuning", "notelist"): lambda: [["A", "C", "E"], NoteContainer(["A", "C", "E"])],
    ("StringTuning", "string"): lambda: [0],
    ("StringTuning", "fret"): lambda: [1],
}

CALL = {
    ("core.intervals", "invert", "interval"): lambda: [["C", "E"], ["C", "E", "G", "B"], [], ["C"]],
    ("core.intervals", "from_shorthand", "interval"): lambda: ["b3"],
    ("core.intervals", "get_interval", "interval"): lambda: [3],
    ("core.intervals", "augment_or_diminish_until_the_interval_is_right", "interval"): lambda: [4],
    ("core.intervals", "determine", "shorthand"): lambda: [True],
    ("core.chords", "int_desc", "tries"): lambda: [2],
    ("core.meter", "valid_beat_duration", "duration"): lambda: [4],
    ("NoteContainer", "from_chord", "shorthand"): lambda: ["Am"],
    ("NoteContainer", "from_chord_shorthand", "shorthand"): lambda: ["Am"],
    ("NoteContainer", "from_interval", "shorthand"): lambda: ["5"],
    ("NoteContainer", "from_interval_shorthand", "shorthand"): lambda: ["5"],
    ("NoteContainer", "from_progression", "shorthand"): lambda: ["VI", ["VI"]],
    ("NoteContainer", "from_progression_shorthand", "shorthand"): lambda: ["VI", ["VI"]],
    ("NoteContainer", "remove_notes", "notes"): lambda: [["C", "E"], [Note("C", 4)], "C", Note("C", 4)],
    ("NoteContainer", "__sub__", "notes"): lambda: [["C", "E"], "C"],
    ("NoteContainer", "__contains__", "item"): lambda: [Note("C", 4)],
    ("Bar", "place_notes_at", "notes"): lambda: [["C", "E"], "C", NoteContainer(["C", "E"])],
    ("Bar", "__init__", "key"): lambda: ["C", Key("G")],
    ("Bar", "set_meter", "meter"): lambda: [(3, 4), [3, 4]],
    ("Track", "add_notes", "duration"): lambda: [4],
    ("Track", "from_chords", "duration"): lambda: [1],
    ("MidiTrack", "set_key", "key"): lambda: ["C", Key("G")],
    ("MidiTrack", "key_signature_event", "key"): lambda: ["C"],
    ("MidiTrack", "set_meter", "meter"): lambda: [(4, 4)],
    ("MidiFileIn", "parse_track", "fp"): lambda: [fp_at(14)],
    ("MidiFileIn", "parse_track_header", "fp"): lambda: [fp_at(14)],
    ("MidiFileIn", "parse_midi_event", "fp"): lambda: [fp_at(23)],
    ("MidiFileIn", "parse_varbyte_as_int", "fp"): lambda: [fp_at(22)],
    ("Sequencer", "notify_listeners", "msg_type"): lambda: [5],
    ("Sequencer", "stop_Note", "note"): lambda: [Note("C", 4)],
    ("Sequencer", "control_change", "value"): lambda: [100],
    ("Sequencer", "play_Composition", "channels"): lambda: [OMIT, [1, 2, 3], None],
    ("StringTuning", "find_chord_fingering", "notes"): lambda: [["C", "E", "G"], NoteContainer(["C", "E", "G"])],
}

# parameters that the documentation reserves for the library's own recursion (not caller-facing)
INTERNAL_PARAMS = {
    ("core.chords", "from_shorthand", "slash"): "docstring: 'The second argument should not be given and is only used for a recursive call'",
}

EXCLUDED = {
    ("extra.fft", "data_from_file"): "needs a .wav file; takes no list/dict",
    ("extra.fft", "find_melody"): "needs a .wav file; takes no list/dict",
    ("extra.tunings", "add_tuning"): "registers into the module-wide tuning index by design (not a query)",
    ("Sequencer", "stop_everything"): "1 888 notifications; no argument",
}


# ---------------------------------------------------------------------------------------
# owners
# ---------------------------------------------------------------------------------------
class Owner(object):
    def __init__(self, name, target, kind, pool=None, make=None, populated=None):
        self.name = name            # key used in the tables
        self.target = target        # module or class
        self.kind = kind            # "module" | "class"
        self.pool = pool or name    # table owner key (families share one)
        self.make = make            # class: factory of a fresh instance built the canonical way
        self.populated = populated or make

    def callables(self):
        out = []
        if self.kind == "module":
            for n, v in sorted(vars(self.target).items()):
                if isinstance(v, types.FunctionType) and v.__module__ == self.target.__name__:
                    if n.startswith("_") and n != "_find_log_index":
                        continue
                    out.append((n, v))
        else:
            for n in sorted(dir(self.target)):
                if n.startswith("_") and n not in DUNDERS:
                    continue
                v = getattr(self.target, n)
                if not callable(v) or isinstance(v, type):
                    continue
                if getattr(v, "__qualname__", "").startswith("object."):
                    continue
                out.append((n, v))
        return out


def _mod(name):
    return importlib.import_module(name)


def owners():
    out = []
    for n in ["notes", "intervals", "keys", "chords", "progressions", "scales", "value", "meter"]:
        out.append(Owner("core." + n, _mod("mingus.core." + n), "module"))
    out.append(Owner("extra.fft", _mod("mingus.extra.fft"), "module"))
    out.append(Owner("extra.tunings", _tunings, "module"))
    scales = _mod("mingus.core.scales")
    for n, c in sorted(vars(scales).items()):
        if isinstance(c, type) and c.__module__ == scales.__name__ and not n.startswith("_"):
            if n == "Diatonic":
                mk = (lambda c=c: c("C", (3, 7)))
            else:
                mk = (lambda c=c: c("C"))
            out.append(Owner(n, c, "class", pool="scale", make=mk))
    out.append(Owner("Key", Key, "class", make=lambda: Key("C")))
    out.append(Owner("Note", Note, "class", make=lambda: Note("C", 4), populated=lambda: Note("C", 4, velocity=90, channel=3)))
    out.append(Owner("NoteContainer", NoteContainer, "class", make=lambda: NoteContainer(), populated=lambda: NoteContainer(["C", "E", "G"])))
    out.append(Owner("Bar", Bar, "class", make=lambda: Bar("C", (4, 4)), populated=bar2))
    out.append(Owner("Track", Track, "class", make=lambda: Track(), populated=track2))
    out.append(Owner("Composition", Composition, "class", make=lambda: Composition(), populated=comp2))

    def suite1():
        s = Suite()
        s.add_composition(comp2())
        return s
    out.append(Owner("Suite", Suite, "class", make=lambda: Suite(), populated=suite1))
    for n in ["Instrument", "Piano", "Guitar", "MidiInstrument", "MidiPercussionInstrument"]:
        c = getattr(_instr, n)
        out.append(Owner(n, c, "class", pool="Instrument", make=(lambda c=c: c())))
    out.append(Owner("MidiTrack", MidiTrack, "class", make=lambda: MidiTrack(120)))
    out.append(Owner("MidiFileOut", _mfo.MidiFile, "class", make=lambda: _mfo.MidiFile(), populated=lambda: _mfo.MidiFile([MidiTrack(120)])))
    out.append(Owner("MidiFileIn", _mfi.MidiFile, "class", make=lambda: _mfi.MidiFile()))
    out.append(Owner("Sequencer", Sequencer, "class", make=lambda: Sequencer(), populated=observer_seq))
    out.append(Owner("SequencerObserver", SequencerObserver, "class", make=lambda: SequencerObserver()))
    out.append(Owner("StringTuning", _tunings.StringTuning, "class", make=tuning6))
    return out


class Incomplete(Exception):
    pass


def resolve(owner, cname, pname):
    for table, key in ((CALL, (owner.pool, cname, pname)), (CALL, (owner.name, cname, pname)),
                       (OWNER, (owner.pool, pname)), (OWNER, (owner.name, pname)), (GLOBAL, pname)):
        if key in table:
            return table[key]
    if pname == "other" and owner.kind == "class":
        # comparison operators: another, separately built, populated instance of the same class
        return lambda: [owner.populated()]
    return None


def signature_params(owner, cname, fn):
    try:
        sig = inspect.signature(fn)
    except (TypeError, ValueError):
        return None
    ps = [p for p in sig.parameters.values() if p.name != "self"]
    if owner.kind == "class" and cname == "__init__":
        ps = [p for p in inspect.signature(owner.target.__init__).parameters.values() if p.name != "self"]
    return ps


def catalogue():
    """-> (entries, problems).  entry = dict(owner, cname, fn, params=[(pname, factory|None, kind)])"""
    entries, problems, excluded = [], [], []
    for ow in owners():
        for cname, fn in ow.callables():
            if (ow.pool, cname) in EXCLUDED or (ow.name, cname) in EXCLUDED:
                excluded.append((ow.name, cname))
                continue
            ps = signature_params(ow, cname, fn)
            if ps is None:
                problems.append("%s.%s: no signature" % (ow.name, cname))
                continue
            params = []
            bad = False
            for p in ps:
                if p.kind in (p.VAR_POSITIONAL, p.VAR_KEYWORD):
                    continue
                if (ow.pool, cname, p.name) in INTERNAL_PARAMS:
                    params.append((p.name, None, "internal"))
                    continue
                fac = resolve(ow, cname, p.name)
                if fac is None:
                    problems.append("%s.%s: parameter %r has no representative value in the table" % (ow.name, cname, p.name))
                    bad = True
                    continue
                params.append((p.name, fac, "given"))
            if not bad:
                entries.append({"owner": ow, "cname": cname, "params": params})
    return entries, problems, excluded


def contains_list_or_dict(x):
    if isinstance(x, (list, dict)):
        return True
    if isinstance(x, tuple):
        return any(contains_list_or_dict(i) for i in x)
    return False
