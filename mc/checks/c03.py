# -*- coding: utf-8 -*-
"""C03 -- interval naming and interval shorthand are mutually inverse (DESIGN.md section 4, C03).

* determine: every ordered pair of names of the bounded family; pairs whose ascending distance along
  the spanned letters is 0..11 get the long-name oracle (number word from the letters, quality word
  from the offset to the major/perfect size) and the inverse oracle
  from_shorthand(a, determine(a, b, True)) == b;
* shorthand: names x every shorthand with <= 2 accidentals (all orders) x {up, down}: right letter,
  exact semitone distance, down(up(x)) == x;
* invert: every list of length <= n over a small name alphabet.
"""
import itertools

from mc import engine
from mc.ref import pitch as P
from mc.ref import ivl as I

from mingus.core import intervals

PROPERTY = "C03"
RULE = ("product over ordered name pairs (determine, long and short form), names x shorthands x {up, down} "
        "(from_shorthand) and all short lists (invert); distinct_nontrivial counts distinct observed "
        "(long name, shorthand) / (shorthand, direction, result) / list-shape keys")
ASSUMPTIONS = [
    "pairs whose ascending distance counted along the spanned letters is outside 0..11 (C -> Cb, C -> B##) are outside "
    "the statement and are skipped (counted)",
    "at offset 0 the quality word may be 'major' or 'perfect' for unisons, fourths and fifths (the statement says "
    "'major or perfect'; the library says 'major unison' but 'perfect fifth'), and must be 'major' for the other numbers",
    "the shorthand form is judged by its degree digit and by what applying it yields, not by its literal accidental string",
    "'reproduces the second note exactly' / 'returns the starting name' is string equality when the names involved are "
    "canonical (accidentals all of one kind); for names with redundant accidentals (C#b) equality of letter and net "
    "accidental count is accepted",
    "from_shorthand results are judged on being a valid name, the letter and the pitch class (semitone distance modulo "
    "the octave), not on a particular spelling",
    "name families are bounded by accidental count: the quantifier says 'up to double accidentals', the tiers go to "
    "three / four.  Nothing is claimed for five or more: the major interval above such a name can need six net "
    "accidentals, where +6 and -6 are the same pitch class and C02 allows the constructor either spelling, so a "
    "string-exact reproduction cannot be demanded there",
    "invert is given list arguments only",
]


def _same(x, y, exact):
    return x == y if exact else I.same_note(x, y)


def run_determine(case):
    S = engine.S
    a, b = case
    D = P.span_distance(a, b)
    if not (0 <= D <= 11):
        S.count("pairs_out_of_scope")
        return
    S.count("pairs_in_scope")
    number, off, _ = P.interval_name(a, b)
    exact = I.is_canonical(a) and I.is_canonical(b)
    if not exact:
        S.count("pairs_with_redundant_accidentals")
    if abs(off) >= 2:
        S.count("pairs_doubly_altered")
    if number == 1:
        S.count("unison_pairs_in_scope")

    long_ = intervals.determine(a, b)
    accepted = I.accepted_long_names(a, b)
    if long_ not in accepted:
        S.problem("determine(%r, %r)" % (a, b), accepted, long_, detail={"distance": D, "number": number, "offset": off})

    short = intervals.determine(a, b, True)
    S.trans(2)
    site = "determine(%r, %r, True)" % (a, b)
    parsed = I.parse_shorthand(short)
    S.outcome((long_ if isinstance(long_, str) else repr(long_), short if isinstance(short, str) else repr(short)))
    if parsed is None:
        S.problem(site, "accidentals followed by a degree 1-7", short)
        return
    if parsed[0] != number:
        S.problem(site + " degree", number, short, detail={"distance": D})
    back = intervals.from_shorthand(a, short)
    back2 = intervals.from_shorthand(a, short, True)
    S.trans(2)
    if not (isinstance(back, str) and _same(back, b, exact)):
        S.problem("from_shorthand(%r, %r) after %s" % (a, short, site), b, back,
                  detail={"distance": D, "number": number, "offset": off, "shorthand": short},
                  tags={"number": number, "offset": off})
    if back2 != back:
        S.problem("from_shorthand(%r, %r, True) vs default direction" % (a, short), back, back2)
    # the same questions with the flag passed by keyword, in alternating order: the flag's value decides, not how it is passed
    kw = [intervals.determine(a, b, shorthand=True), intervals.determine(a, b, shorthand=False),
          intervals.determine(a, b, shorthand=True), intervals.determine(a, b, shorthand=False)]
    S.trans(4)
    if kw != [short, long_, short, long_]:
        S.problem("determine(%r, %r, shorthand=True / False / True / False) with the flag passed by keyword" % (a, b),
                  [short, long_, short, long_], kw)
    if a == "C" and len(b) == 3:
        S.sample(case)


def run_shorthand(case):
    S = engine.S
    name, sh = case
    num, semis = P.shorthand_semitones(sh)
    exact = I.is_canonical(name)
    pc0 = P.pc(name)

    # first, the same degree under loosely spelled shorthands, which the library accepts ('M3', 'm7', 'P5'): their
    # results are not judged, but they must not colour what is asked afterwards
    digit = sh[-1]
    for loose in ("M" + digit, "m" + digit, "P" + digit):
        try:
            intervals.from_shorthand(name, loose)
        except Exception:                               # noqa
            pass
    up = intervals.from_shorthand(name, sh)
    up2 = intervals.from_shorthand(name, sh, True)
    down = intervals.from_shorthand(name, sh, False)
    S.trans(3)
    wantL_up = P.letter_up(name[0], num - 1)
    wantL_down = P.letter_up(name[0], -(num - 1))
    for site, r, wantL, wantpc in (
            ("from_shorthand(%r, %r)" % (name, sh), up, wantL_up, (pc0 + semis) % 12),
            ("from_shorthand(%r, %r, True)" % (name, sh), up2, wantL_up, (pc0 + semis) % 12),
            ("from_shorthand(%r, %r, False)" % (name, sh), down, wantL_down, (pc0 - semis) % 12)):
        if not P.is_name(r):
            S.problem(site, "a valid note name", r)
            continue
        if r[0] != wantL:
            S.problem(site + " letter", wantL, r)
        if P.pc(r) != wantpc:
            S.problem(site + " pitch class", wantpc, {"result": r, "pc": P.pc(r)}, detail={"semitones": semis})
    if up != up2:
        S.problem("from_shorthand(%r, %r) default direction" % (name, sh), up2, up)
    kw = [intervals.from_shorthand(name, sh, up=True), intervals.from_shorthand(name, sh, up=False),
          intervals.from_shorthand(name, sh, up=True), intervals.from_shorthand(name, sh, up=False)]
    S.trans(4)
    if kw != [up, down, up, down]:
        S.problem("from_shorthand(%r, %r, up=True / False / True / False) with the flag passed by keyword" % (name, sh),
                  [up, down, up, down], kw)
    S.outcome((sh, "up", up if isinstance(up, str) else repr(up)))
    S.outcome((sh, "down", down if isinstance(down, str) else repr(down)))
    if P.is_name(up):
        back = intervals.from_shorthand(up, sh, False)
        S.trans(1)
        S.count("round_trips")
        if not (isinstance(back, str) and _same(back, name, exact)):
            S.problem("from_shorthand(from_shorthand(%r, %r, True), %r, False)" % (name, sh, sh), name, back,
                      detail={"up": up})
    if sh in ("b#3", "##7") and len(name) == 2:
        S.sample(case)
    # naming and application are mutually inverse *in this order too*: name the interval that was just applied
    # (also after it was applied under a loosely spelled shorthand, which the library accepts: 'M3', 'm7', 'P5')
    if P.is_name(up) and 0 <= P.span_distance(name, up) <= 11:
        named = intervals.determine(name, up, True)
        S.trans(4)
        parsed = I.parse_shorthand(named)
        if parsed is None or parsed[0] != num:
            S.problem("determine(%r, %r, True) right after from_shorthand(%r, %r)" % (name, up, name, sh),
                      "accidentals followed by the degree %d" % num, named)
        else:
            again = intervals.from_shorthand(name, named)
            if not (isinstance(again, str) and I.same_note(again, up)):
                S.problem("from_shorthand(%r, determine(%r, %r, True))" % (name, name, up), up, again, detail={"shorthand": named})
    # the answers are a function of the arguments, whatever else was asked just before about the same note
    for cname in I.CONSTRUCTOR_NAMES:
        try:
            getattr(intervals, cname)(name)
        except Exception:                               # noqa -- the constructors are C02's subject
            continue
        a_up = intervals.from_shorthand(name, sh)
        a_down = intervals.from_shorthand(name, sh, False)
        S.trans(3)
        if a_up != up or a_down != down:
            S.problem("from_shorthand(%r, %r) up/down asked again right after intervals.%s(%r)" % (name, sh, cname, name),
                      [up, down], [a_up, a_down])
            break


BAD_SUFFIXES = ["s", "+", "x#", "#x", "h", "-4"]


def run_after_refusal(letter):
    """Cold start; the first thing asked about this letter are refused calls (malformed names starting with it)
    on every named constructor and on from_shorthand/determine; afterwards every shorthand on every spelling of
    the letter must still be applied correctly."""
    S = engine.S
    import importlib
    importlib.reload(intervals)
    n = 0
    for suf in BAD_SUFFIXES:
        bad = letter + suf
        for cname in I.CONSTRUCTOR_NAMES:
            try:
                getattr(intervals, cname)(bad)
            except Exception:                           # noqa -- how a malformed name is refused is C02's subject
                pass
            n += 1
        for fn, args in ((intervals.from_shorthand, (bad, "3")), (intervals.determine, (bad, "C")), (intervals.determine, ("C", bad, True))):
            try:
                fn(*args)
            except Exception:                           # noqa
                pass
            n += 1
    S.count("refusals_made", n)
    for acc in ("", "#", "b", "##", "bb"):
        name = letter + acc
        pc0 = P.pc(name)
        for sh in P.SH35:
            num, semis = P.shorthand_semitones(sh)
            for up in (True, False):
                try:
                    r = intervals.from_shorthand(name, sh, up)
                except Exception as e:                  # noqa
                    S.problem("from_shorthand(%r, %r, %r) after refused calls on letter %s" % (name, sh, up, letter), "a note name", e)
                    return
                S.trans(1)
                wantL = P.letter_up(name[0], (num - 1) if up else -(num - 1))
                wantpc = (pc0 + (semis if up else -semis)) % 12
                if not P.is_name(r) or r[0] != wantL or P.pc(r) != wantpc:
                    S.problem("from_shorthand(%r, %r, %r) after refused calls on letter %s" % (name, sh, up, letter),
                              {"letter": wantL, "pc": wantpc}, r)
                    return
    S.outcome((letter, "ok"))
    S.count("letters_checked_after_refusals")


def run_invert(lst):
    S = engine.S
    arg = list(lst)
    before = list(arg)
    r = intervals.invert(arg)
    S.trans(1)
    want = list(reversed(before))
    if not isinstance(r, list) or r != want:
        S.problem("invert(%r)" % (before,), want, r)
    if arg != before:
        S.problem("invert(%r) argument afterwards" % (before,), before, arg)
    # the answer is the caller's: after it was edited, an equal question gets the plain answer again (and a new list)
    if isinstance(r, list):
        r.append("G")
        if r:
            r[0] = "Bb"
        r2 = intervals.invert(list(before))
        S.trans(1)
        if r2 != want or r2 is r:
            S.problem("invert(%r) asked again after the caller edited the list returned before" % (before,), want, r2)
    S.count("invert_lists")
    if want != before:
        S.count("invert_non_palindromes")
    S.outcome((len(before), want == before, r == want, arg == before))
    if len(before) == 3 and want != before:
        S.sample(before)


# ---------------------------------------------------------------------------------------
# histories: the answer to a question does not depend on what was asked (or refused) before
# ---------------------------------------------------------------------------------------
def _history_calls(small):
    calls = []
    for a in (("C", "Eb") if small else ("C", "E", "G", "Eb")):
        for b in (("E", "F") if small else ("E", "B", "C#", "F")):
            calls.append(("determine", (a, b, True)))
            calls.append(("determine", (a, b)))
    # a pair and its inversion, one semitone off the perfect fourth / fifth (the qualities that have no mirror image)
    calls += [("determine", ("C", "F#")), ("determine", ("F#", "C")), ("determine", ("C", "Gb")), ("determine", ("Gb", "C"))]
    for n in (("C", "E") if small else ("C", "E", "Eb")):
        for sh in (("b3", "5") if small else ("3", "b3", "5", "#4")):
            for up in (True, False):
                calls.append(("from_shorthand", (n, sh, up)))
    # a start note spelled with a sharp and a flat (a valid name), and the way back from where it leads
    calls += [("from_shorthand", ("C#b", "5", True)), ("from_shorthand", ("G", "5", False))]
    # refused questions (how they are refused is not judged, only that they are refused the same way every time)
    # sibling helpers of the same module (their own answers are compared with their cold answers too)
    calls += [("get_interval", ("C", 3, "G")), ("get_interval", ("E", 5, "Bb")), ("invert", (["C", "E", "G"],)), ("measure", ("E", "C")),
              ("augment_or_diminish_until_the_interval_is_right", ("C", "Eb", 3)), ("from_shorthand", ("a", "b3"))]
    calls += [("determine", ("G-4", "B")), ("determine", ("C", "Hb", True)), ("from_shorthand", ("Cx", "3")),
              ("from_shorthand", ("C", "9")), ("from_shorthand", ("E", "b3x", False))]
    return calls


HCALLS = _history_calls(True)
_HBASE = {}


def _hdo(i):
    name, args = HCALLS[i]
    try:
        return ["ok", getattr(intervals, name)(*args)]
    except Exception as e:                              # noqa
        return ["raised", type(e).__name__]


def _hbase(i):
    import importlib
    if i not in _HBASE:
        importlib.reload(intervals)
        _HBASE[i] = _hdo(i)
    return _HBASE[i]


def run_history3(case):
    """case = [i, j]: for every third call k, the sequence (i, j, k) from a cold module; every answer must be the
    answer the same question gets as the first question of a cold module."""
    import importlib
    S = engine.S
    i, j, which = case
    want = _history_calls(which == "small")
    if HCALLS != want:
        HCALLS[:] = want
        _HBASE.clear()
    bi, bj = _hbase(i), _hbase(j)
    for k in range(len(HCALLS)):
        bk = _hbase(k)
        importlib.reload(intervals)
        got = [_hdo(i), _hdo(j), _hdo(k)]
        S.trans(3)
        for pos, (g, b, c) in enumerate(zip(got, (bi, bj, bk), (i, j, k))):
            if g != b:
                S.problem("intervals.%s%r as call %d of the history %s" % (HCALLS[c][0], HCALLS[c][1], pos + 1,
                          [HCALLS[x][0] + repr(HCALLS[x][1]) for x in (i, j, k)[:pos + 1]]), b, g)
                return
    S.count("histories_of_three_calls", len(HCALLS))
    S.outcome((i, j))


def run_long_history(case):
    """One long history in one cold module: a fixed list of questions, then every diatonic step in every key (the
    functions of the same module that C04 is about), then the same questions again."""
    import importlib
    S = engine.S
    order, which = case
    want = _history_calls(which == "small")
    if HCALLS != want:
        HCALLS[:] = want
        _HBASE.clear()
    importlib.reload(intervals)
    idx = list(range(len(HCALLS)))
    if order == "reversed":
        idx.reverse()
    first = [(i, _hdo(i)) for i in idx]
    work = 0
    for key in P.KEYS30:
        for L in "CDEFGAB":
            for fn in ("unison", "second", "third", "fourth", "fifth", "sixth", "seventh"):
                for acc in ("", "#", "b"):
                    try:
                        getattr(intervals, fn)(L + acc, key)
                    except Exception:                   # noqa -- C04's subject
                        pass
                    work += 1
    S.trans(work)
    again = [(i, _hdo(i)) for i in idx]
    for (i, a), (_, b) in zip(first, again):
        if a != b:
            S.problem("intervals.%s%r asked again after %d diatonic steps in all 30 keys" % (HCALLS[i][0], HCALLS[i][1], work), a, b)
            break
    # and against the cold single-call answers
    for (i, a) in first:
        if a != _hbase(i):
            S.problem("intervals.%s%r in a sequence of %d questions (%s order)" % (HCALLS[i][0], HCALLS[i][1], len(idx), order), _hbase(i), a)
            break
    S.count("long_histories")
    S.outcome((order, work))


CLAUSES = {
    "determine": run_determine,
    "shorthand": run_shorthand,
    "invert": run_invert,
    "after_refusal": run_after_refusal,
    "history3": run_history3,
    "long_history": run_long_history,
}

_PAIR_NAMES = [[]]
_SHORTHANDS = [[]]
INVERT_NAMES = ["C", "E", "Gb", "B#"]


def family(kc, km):
    """canonical names with <= kc accidentals plus every ordering with <= km accidentals"""
    out = list(P.canon_names(kc))
    for n in P.names(km):
        if n not in out:
            out.append(n)
    return out


def gen_pairs(a):
    for b in _PAIR_NAMES[0]:
        yield [a, b]


def gen_shorthand(name):
    for sh in _SHORTHANDS[0]:
        yield [name, sh]


def all_shorthands(max_acc):
    out = []
    for n in range(max_acc + 1):
        for acc in itertools.product("b#", repeat=n):
            for d in range(1, 8):
                out.append("".join(acc) + str(d))
    return out


def explore(ctx):
    ctx.use_thorough_bounds('thorough bounds take under a second')
    kc, km = ctx.pick((3, 2), (4, 3))
    fam = family(kc, km)
    ctx.bound("determine_names", "canonical <= %d accidentals + every order <= %d accidentals (%d names)" % (kc, km, len(fam)))
    if ctx.want("determine"):
        _PAIR_NAMES[0] = fam
        ctx.bound("determine_pairs", len(fam) ** 2)
        ctx.product("determine", list(fam), gen_pairs)
    if ctx.want("shorthand"):
        ks, kms = ctx.pick((2, 2), (3, 3))
        fam_s = family(ks, kms)
        _SHORTHANDS[0] = all_shorthands(2)
        ctx.bound("shorthand_names", "canonical <= %d accidentals + every order <= %d accidentals (%d names)" % (ks, kms, len(fam_s)))
        ctx.bound("shorthands", _SHORTHANDS[0])
        ctx.product("shorthand", list(fam_s), gen_shorthand)
    if ctx.want("invert"):
        n = ctx.pick(4, 6)
        ctx.bound("invert_alphabet", INVERT_NAMES)
        ctx.bound("invert_max_length", n)
        ctx.serial("invert", [list(t) for m in range(n + 1) for t in itertools.product(INVERT_NAMES, repeat=m)])
    if ctx.want("after_refusal"):
        # one worker process per letter: the refusals really are the first thing that process asks about it
        ctx.product("after_refusal", list("CDEFGAB"), lambda L: [L])
    which = "small" if ctx.tier == "quick" else "full"        # (the other clauses run their thorough bounds in both tiers)
    HCALLS[:] = _history_calls(which == "small")
    if ctx.want("history3"):
        ctx.bound("history3", "every sequence of 3 calls over %d calls (determine both forms, from_shorthand up/down, refused calls), each from a cold module" % len(HCALLS))
        ctx.product("history3", list(range(len(HCALLS))), lambda i: ([i, j, which] for j in range(len(HCALLS))))
    if ctx.want("long_history"):
        ctx.product("long_history", ["forward", "reversed"], lambda o: [[o, which]])
    if not ctx.only:
        ctx.guard("histories of three calls", ctx.counter("histories_of_three_calls"), len(HCALLS) ** 3)
        ctx.guard("letters checked after refusals", ctx.counter("letters_checked_after_refusals"), 7)
        ctx.guard("pairs in scope", ctx.counter("pairs_in_scope"), 500)
        ctx.guard("pairs out of scope (skipped)", ctx.counter("pairs_out_of_scope"), 1)
        ctx.guard("unison pairs in scope", ctx.counter("unison_pairs_in_scope"), 50)
        ctx.guard("pairs altered by two or more semitones", ctx.counter("pairs_doubly_altered"), 100)
        ctx.guard("pairs with redundant accidentals", ctx.counter("pairs_with_redundant_accidentals"), 100)
        ctx.guard("up/down round trips", ctx.counter("round_trips"), 1000)
        ctx.guard("inverted lists", ctx.counter("invert_lists"), 100)
        ctx.guard("inverted non-palindromes", ctx.counter("invert_non_palindromes"), 50)
    ctx.note("%d of %d ordered pairs lie outside the 0..11 span and were skipped" % (
        ctx.counter("pairs_out_of_scope"), ctx.counter("pairs_out_of_scope") + ctx.counter("pairs_in_scope")))
