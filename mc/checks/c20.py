# -*- coding: utf-8 -*-
"""C20 -- tunings and tablature: exact fret arithmetic; tabs decode to the same pitches
(DESIGN.md section 4, C20).

Clauses
  frets            find_frets on every registered tuning x note 0..127 x maxfret (all strings per call)
  get_note         get_Note on strings -1..n x frets -1..maxfret+1 (RangeError outside)
  lookup           get_tunings / get_tuning by prefix, string count, course count: "returns only ..."
  fingering        find_fingering against the brute-force specification mc/ref/frets.py
  chord_fingering  find_chord_fingering: the stated constraints on every fingering returned
  tab_note         from_Note rendered, decoded by mc/ref/tab.py
  tab_container    from_NoteContainer   "
  tab_bar          from_Bar over the bar zoo x widths
  tab_track        from_Track over sequences of zoo bars x page widths x ways of attaching a tuning
  tab_composition  from_Composition over sequences of zoo tracks x page widths x headers
"""
from fractions import Fraction
import itertools
import math

from mc import engine
from mc.ref import frets as RF
from mc.ref import pitch as P
from mc.ref import tab as RT
from mc.ref import values as V

import mingus.extra.tunings as tunings
import mingus.extra.tablature as tablature
from mingus.containers.note import Note
from mingus.containers.note_container import NoteContainer
from mingus.containers.bar import Bar
from mingus.containers.track import Track
from mingus.containers.composition import Composition
from mingus.containers.instrument import Instrument
from mingus.core.mt_exceptions import RangeError, FingerError

PROPERTY = "C20"
RULE = ("exhaustive products: every registered tuning x every string x notes 0..127 x maxfret grid; every "
        "(string, fret) of the get_Note grid; every case-variant prefix x string count x course count; every ordered "
        "note tuple of the pitch window per tuning x max_distance against the brute-force fingering set; every chord "
        "shorthand x root x finger limit; every zoo bar / track / composition x width rendered by the real library and "
        "decoded by an independent reader.  distinct_nontrivial = distinct observed results per clause (fret lists, "
        "fingering lists, (found / result-count) of a lookup, decoded entry sequences or the error class)")
ASSUMPTIONS = [
    "pitch of a library Note is computed here from its .name and .octave (12*octave + letter + accidentals), not by calling int(Note)",
    "course tunings: 'the open string' of a course is the member the library itself sounds at get_Note(string, 0); it must be a member "
    "of the course and find_frets, get_Note and find_fingering must all use that same member (octave pairs make the choice ambiguous in the statement)",
    "lookup: only 'returns only tunings satisfying all given constraints' is required (the statement claims no completeness); "
    "instrument/description constraint = case-insensitive prefix of the returned tuning's own .instrument/.description",
    "find_fingering searches frets 0..24 (the documented default of find_frets): every assignment within 24 frets is required, "
    "assignments using a fret above 24 are neither required nor forbidden; a fingering is compared as the set of its (string, fret) pairs",
    "ordered by total fret number = the totals are non-decreasing along the list (ties in any order)",
    "chord fingerings: the finger count is the lower bound of mc/ref/frets.py (barre with the index finger on the lowest fretted "
    "position from the last string down to the first open string, muted strings need no finger); the library's own count is never "
    "smaller, so the limit is checked in its weakest form; frets above the maxfret argument are counted, not flagged (statement silent); "
    "checked on single-course tunings only (find_chord_fingering takes int() of a course list -- the statement's quantifier names guitar-family tunings)",
    "tablature is checked on the 48 registered tunings without courses and the default tuning (tablature never supported courses: begin_track calls "
    "to_shorthand on a list); this restricts the domain and is not reported as a finding",
    "'a width giving each entry at least one column' is read as: the entry's share of the bar (floor(4*q/value) columns, q the quarter-note size the "
    "module documents: (bar width - header - 3)/4.5 rounded down; bar width = page width, /2 above 60, /3 above 120) holds its widest fret number plus one "
    "separating column; other widths are rendered and only checked for equal-length lines, never decoded; a share that is an exact integer for a value "
    "that is not a power of two is taken one smaller (float rounding in the renderer)",
    "'no possible fingering' -> error is required only when no injective assignment of strings exists at all (any fret, any span); a rendering is required "
    "whenever a fingering with span < 4 inside 24 frets exists; in between (only wider spans / frets above 24) both a correct rendering and the error are accepted; "
    "an empty NoteContainer entry may raise or render nothing; FingerError and RangeError are accepted interchangeably",
    "only the string lines are required to be equally long (one per string, per system); the beat-mark line and the || connector lines are not string lines",
    "decoded order: systems top to bottom, left to right; in a composition the systems of one line group (tied by || connectors) belong, in order, to the tracks "
    "that still have bars left (or are identified by their string labels when all tracks have different tunings); only the per-track entry sequence is compared, "
    "not the bar boundaries",
    "filler between fret numbers may be '-' or blank (the renderer right-aligns numbers of one chord with blanks)",
]

ALLOWED_ERRORS = (RangeError, FingerError)


# ---------------------------------------------------------------------------------------
# registry access and reference view of a tuning
# ---------------------------------------------------------------------------------------
def _registry():
    """Every registered tuning, through the public API only (get_tunings() without constraints returns them
    all; get_instruments() names the instruments): (INSTRUMENT, DESCRIPTION, tuning), sorted."""
    out = []
    seen = set()
    for instrument in [None] + list(tunings.get_instruments()):
        for t in (tunings.get_tunings() if instrument is None else tunings.get_tunings(instrument)):
            k = (t.instrument.upper(), t.description.upper())
            if k not in seen:
                seen.add(k)
                out.append((k[0], k[1], t))
    out.sort(key=lambda r: (r[0], r[1]))
    if len(out) < 60:
        raise engine.HarnessError("only %d registered tunings found through get_tunings()/get_instruments()" % len(out))
    return out


REG = _registry()
REG_BY_KEY = {(k, dk): t for k, dk, t in REG}


def npitch(note):
    """Reference pitch of a library Note, from its spelled name and octave."""
    return RF.pitch_of(note.name, note.octave)


class TunView(object):
    """What the reference side knows about a tuning: member pitches per string."""

    def __init__(self, tkey, lib=None):
        self.tkey = list(tkey) if tkey is not None else None
        if lib is not None:
            self.lib = lib                  # a tuning object of the caller's own (tkey is then only a cache label)
        elif tkey is None:
            self.lib = None
            lib = REG_BY_KEY[("GUITAR", "STANDARD TUNING")]
        else:
            lib = self.lib = REG_BY_KEY[(tkey[0], tkey[1])]
        self.obj = lib
        self.members = []
        self.course = False
        for x in lib.tuning:
            if isinstance(x, list):
                self.course = True
                self.members.append([npitch(n) for n in x])
            else:
                self.members.append([npitch(x)])
        self.n = len(self.members)
        self._open = None
        if not self.course:
            self._open = [m[0] for m in self.members]
            self.labels = [RT.helmholtz_label(x.name, x.octave) for x in lib.tuning]

    def opens(self):
        """Open pitch per string.  For a course: the member the library sounds at get_Note(s, 0)
        (None when that is not a member of the course -> the caller reports it)."""
        if self._open is None:
            res = []
            for s, m in enumerate(self.members):
                if len(set(m)) == 1:
                    res.append(m[0])
                    continue
                try:
                    p = npitch(self.obj.get_Note(s, 0))
                except Exception:                                   # noqa
                    p = None
                res.append(p if p in m else None)
            self._open = res
        return self._open


_VIEWS = {}


def view(tkey):
    k = None if tkey is None else (tkey[0], tkey[1])
    if k not in _VIEWS:
        _VIEWS[k] = TunView(tkey)
    return _VIEWS[k]


def mknote(p):
    name, octave = RF.name_of(p)
    return Note(name, octave)


def mkstr(p):
    name, octave = RF.name_of(p)
    return "%s-%d" % (name, octave)


def check_opens(S, tv):
    op = tv.opens()
    if any(o is None for o in op):
        S.problem("get_Note(string, 0) on a course", "a member of the course %r" % (tv.members,), op)
        return None
    return op


# ---------------------------------------------------------------------------------------
# clause: frets
# ---------------------------------------------------------------------------------------
def run_frets(case):
    """case = [key, desc, maxfret | None, form]: find_frets for every note 0..127."""
    S = engine.S
    S.sample(case)
    key, dk, maxfret, form = case
    tv = view([key, dk])
    op = check_opens(S, tv)
    if op is None:
        return
    mf = 24 if maxfret is None else maxfret
    if form == "spelled":
        # every spelling (letter + up to two accidentals, any order) of every pitch within reach of the strings:
        # the fret depends on the pitch, however the note is spelled (Cb-4 is B-3, B#-3 is C-4)
        n = 0
        for octave in range(0, 10):
            for name in P.names(2):
                p = P.note_int(name, octave)
                if p < 0 or p > 127 or not (min(op) - 2 <= p <= max(op) + mf + 2):
                    continue
                for arg in (Note(name, octave), "%s-%d" % (name, octave)):
                    got = tv.obj.find_frets(arg) if maxfret is None else tv.obj.find_frets(arg, maxfret)
                    want = RF.frets(op, p, mf)
                    n += 1
                    if not isinstance(got, list) or got != want:
                        S.problem("find_frets(%s-%d, maxfret=%r)" % (name, octave, maxfret), want, got, detail={"open": op, "pitch": p})
                if len(name) > 1 and (P.NAT[name[0]] + P.net(name) < 0 or P.NAT[name[0]] + P.net(name) > 11):
                    S.count("frets_spellings_crossing_the_octave")
        S.trans(n)
        S.outcome(("spelled", n))
        return
    for p in range(0, 128):
        arg = mknote(p) if form == "note" else mkstr(p)
        got = tv.obj.find_frets(arg) if maxfret is None else tv.obj.find_frets(arg, maxfret)
        want = RF.frets(op, p, mf)
        if not isinstance(got, list) or got != want or any(type(g) is not int for g in got if g is not None):
            S.problem("find_frets(%s, maxfret=%r)" % (mkstr(p), maxfret), want, got, detail={"open": op, "pitch": p})
        S.outcome(tuple(got) if isinstance(got, list) else repr(got))
        if any(w is not None for w in want):
            S.count("frets_some_string")
        else:
            S.count("frets_no_string")
    S.trans(128)
    S.count("fret_cells", 128 * tv.n)


# ---------------------------------------------------------------------------------------
# clause: get_note
# ---------------------------------------------------------------------------------------
def run_get_note(case):
    """case = [key, desc, maxfret | None]: strings -1..n, frets -1..maxfret+1."""
    S = engine.S
    S.sample(case)
    key, dk, maxfret = case
    tv = view([key, dk])
    op = check_opens(S, tv)
    if op is None:
        return
    mf = 24 if maxfret is None else maxfret
    n = 0
    for s in range(-1, tv.n + 2):
        for f in range(-1, mf + 2):
            n += 1
            ok = (0 <= s < tv.n) and (0 <= f <= mf)
            site = "get_Note(%d, %d%s)" % (s, f, "" if maxfret is None else ", %d" % maxfret)
            try:
                note = tv.obj.get_Note(s, f) if maxfret is None else tv.obj.get_Note(s, f, maxfret)
            except RangeError:
                if ok:
                    S.problem(site, "the note %d" % (op[s] + f), "RangeError")
                S.count("get_note_refused")
                continue
            except Exception as e:                                  # noqa
                S.problem(site, "note or RangeError", e)
                continue
            if not ok:
                S.problem(site, "RangeError", repr(note))
                continue
            S.count("get_note_returned")
            if not isinstance(note, Note) or npitch(note) != op[s] + f:
                S.problem(site, op[s] + f, [repr(note), npitch(note) if isinstance(note, Note) else None])
            S.outcome((s, f, npitch(note) if isinstance(note, Note) else None))
            if isinstance(note, Note) and f in (0, 1, mf):
                # the caller owns the note it was given: changing it must not change the tuning
                note.octave_up()
                note.augment()
                try:
                    again = tv.obj.get_Note(s, f) if maxfret is None else tv.obj.get_Note(s, f, maxfret)
                    n += 1
                    if not isinstance(again, Note) or npitch(again) != op[s] + f:
                        S.problem(site + " asked again after the caller changed the note it had been given", op[s] + f,
                                  [repr(again), npitch(again) if isinstance(again, Note) else None])
                except Exception as e:                              # noqa
                    S.problem(site + " asked again after the caller changed the note it had been given", op[s] + f, e)
    S.trans(n)


# ---------------------------------------------------------------------------------------
# clause: lookup
# ---------------------------------------------------------------------------------------
def _courses(t):
    tot = sum(len(x) if isinstance(x, list) else 1 for x in t.tuning)
    return Fraction(tot, len(t.tuning))


def _satisfies(t, iprefix, dprefix, nstr, ncourses):
    bad = []
    if not isinstance(t, tunings.StringTuning):
        return ["not a StringTuning: %r" % (t,)]
    if iprefix is not None and not t.instrument.upper().startswith(iprefix.upper()):
        bad.append("instrument %r does not start with %r" % (t.instrument, iprefix))
    if dprefix is not None and not t.description.upper().startswith(dprefix.upper()):
        bad.append("description %r does not start with %r" % (t.description, dprefix))
    if nstr is not None and len(t.tuning) != nstr:
        bad.append("%d strings, asked for %r" % (len(t.tuning), nstr))
    if ncourses is not None and abs(_courses(t) - Fraction(ncourses).limit_denominator(1000)) > Fraction(1, 10 ** 9):
        bad.append("%s courses per string, asked for %r" % (_courses(t), ncourses))
    return bad


def run_lookup(case):
    S = engine.S
    S.sample(case)
    kind = case[0]
    S.trans(1)
    if kind == "tunings":
        _, prefix, nstr, nc = case
        got = tunings.get_tunings(prefix, nstr, nc)
        if not isinstance(got, list):
            S.problem("get_tunings%r" % (tuple(case[1:]),), "a list", repr(got))
            return
        for t in got:
            bad = _satisfies(t, prefix, None, nstr, nc)
            if bad:
                S.problem("get_tunings%r" % (tuple(case[1:]),), "only tunings satisfying all constraints", bad,
                          detail={"instrument": getattr(t, "instrument", None), "description": getattr(t, "description", None)})
                break
        S.count("lookup_list_nonempty" if got else "lookup_list_empty")
        S.count("lookup_tunings_returned", len(got))
        S.outcome(("tunings", len(got), nstr, nc))
    else:
        _, ip, dp, nstr, nc = case
        t = tunings.get_tuning(ip, dp, nstr, nc)
        if t is None:
            S.count("lookup_none")
            S.outcome(("tuning", None))
            return
        bad = _satisfies(t, ip, dp, nstr, nc)
        if bad:
            S.problem("get_tuning%r" % (tuple(case[1:]),), "a tuning satisfying all constraints (or None)", bad,
                      detail={"instrument": getattr(t, "instrument", None), "description": getattr(t, "description", None)})
        S.count("lookup_found")
        S.outcome(("tuning", getattr(t, "instrument", None), getattr(t, "description", "")[:12]))


def _case_variants(s):
    return [s, s.lower(), s.upper(), s.swapcase()]


def _prefixes(name, lengths):
    out = []
    for k in range(1, len(name) + 1):
        if lengths is None or k in lengths or k == len(name):
            for v in _case_variants(name[:k]):
                if v not in out:
                    out.append(v)
    return out


STR_COUNTS = [None, 0, 3, 4, 5, 6, 12]          # 0 is a count like any other (no tuning has it)
COURSE_COUNTS = [None, 0, 1, 1.5, 1.6, 2, 3]


def gen_lookup(shard):
    """shard = (index into REG, instrument prefix lengths | None, description prefix lengths | None)."""
    idx, ilens, dlens, tier = shard
    key, dk, t = REG[idx]
    first_of_instrument = (idx == 0 or REG[idx - 1][0] != key)
    iprefixes = _prefixes(t.instrument, ilens)
    if first_of_instrument:
        for p in iprefixes + [t.instrument + "x", "zz"] + ([None, ""] if idx == 0 else []):
            for ns in STR_COUNTS:
                for nc in COURSE_COUNTS:
                    yield ["tunings", p, ns, nc]
    desc = t.description
    dps = [""]
    for k in range(1, len(desc) + 1):
        if dlens is None or k in dlens or k == len(desc):
            for v in (desc[:k], desc[:k].lower()):
                if v not in dps:
                    dps.append(v)
    dps.append(desc + "x")
    if tier == "quick":
        iprefixes = [p for p in iprefixes if p == p.lower() or p == t.instrument[:len(p)]]
    for ip in iprefixes + [t.instrument + "x"]:
        for dp in dps:
            for ns in STR_COUNTS:
                for nc in COURSE_COUNTS:
                    yield ["tuning", ip, dp, ns, nc]


# ---------------------------------------------------------------------------------------
# clause: fingering
# ---------------------------------------------------------------------------------------
def _shape_ok(f, k):
    return (isinstance(f, list) and len(f) == k and
            all(isinstance(x, tuple) and len(x) == 2 and type(x[0]) is int and type(x[1]) is int for x in f))


def run_fingering(case):
    """case = [key, desc, pitches, max_distance | None, form]"""
    S = engine.S
    S.sample(case)
    key, dk, pitches, md, form = case
    tv = view([key, dk])
    op = check_opens(S, tv)
    if op is None:
        return
    if form == "notes":
        arg = [mknote(p) for p in pitches]
    elif form == "after_refused":
        # an earlier search that was abandoned half-way (its second note is not a note) must leave nothing behind
        for bad in ("H-2", None):
            try:
                r = tv.obj.find_fingering([mkstr(pitches[0]), bad])
                S.count("fingering_bad_note_list_answered")
            except Exception:                                   # noqa -- what a malformed list does is not the subject
                S.count("fingering_bad_note_list_raised")
        arg = [mknote(p) for p in pitches]
    elif form == "strs":
        arg = [mkstr(p) for p in pitches]
    else:
        arg = NoteContainer([mknote(p) for p in pitches])
        pitches = [npitch(n) for n in arg.notes]          # a container sorts and drops equal pitches (C12)
    got = tv.obj.find_fingering(arg) if md is None else tv.obj.find_fingering(arg, md)
    S.trans(1)
    dist = 4 if md is None else md
    site = "find_fingering(%s%s)" % ([mkstr(p) for p in pitches], "" if md is None else ", %d" % md)
    if not isinstance(got, list) or not all(_shape_ok(f, len(pitches)) for f in got):
        S.problem(site, "a list of lists of %d (string, fret) tuples" % len(pitches), got)
        return
    anyfret = RF.assignments(op, pitches, None)
    within24 = [a for a in anyfret if all(f <= 24 for _, f in a)]
    core = set(frozenset(a) for a in within24 if RF.span_ok([f for _, f in a], dist))
    widest = set(frozenset(a) for a in anyfret if RF.span_ok([f for _, f in a], dist))
    obs = set(frozenset(f) for f in got)
    missing = core - obs
    extra = obs - widest
    if missing:
        S.problem(site, "every assignment of the brute-force set (%d)" % len(core),
                  {"missing": sorted(sorted(m) for m in missing)[:6], "returned": len(got)},
                  detail={"open": op, "pitches": pitches, "max_distance": dist}, tags={"kind": "missing"})
    if extra:
        S.problem(site, "only assignments of distinct strings sounding the notes with non-open span < %d" % dist,
                  {"extra": sorted(sorted(m) for m in extra)[:6]},
                  detail={"open": op, "pitches": pitches, "max_distance": dist}, tags={"kind": "extra"})
    if len(set(tuple(f) for f in got)) != len(got):
        S.problem(site, "no fingering listed twice", got[:8], tags={"kind": "duplicate"})
    totals = [sum(fr for _, fr in f) for f in got]
    if any(a > b for a, b in zip(totals, totals[1:])):
        S.problem(site, "totals non-decreasing", totals[:12], tags={"kind": "order"})
    S.count("fingering_nonempty" if got else "fingering_empty")
    S.count("fingerings_compared", len(got))
    if len(obs - core):
        S.count("fingering_beyond_24_frets")
    if len(set(frozenset(a) for a in within24)) > len(core):
        S.count("fingering_span_filter_active")
    S.outcome((len(got), totals[0] if totals else None, totals[-1] if totals else None))


def _window(tv, below, above):
    op = [m[0] for m in tv.members]
    return list(range(max(0, min(op) - below), min(127, max(op) + above) + 1))


def gen_fingering(shard):
    idx, tier = shard
    key, dk, t = REG[idx]
    tv = view([key, dk])
    singles = _window(tv, 2, 26)
    for p in singles:
        for md in (None, 3, 1):
            yield [key, dk, [p], md, "notes"]
    yield [key, dk, [singles[5]], None, "strs"]
    for p in singles[2::5]:
        yield [key, dk, [p], None, "after_refused"]
        yield [key, dk, [p, p + 4], None, "after_refused"]
    win = _window(tv, 0, 12)
    dists = [3, 4, 5] if tier == "quick" else [1, 3, 4, 5, None]
    for a in win:
        for b in win:
            for md in dists:
                if tier == "quick" and a > b and md != 4:
                    continue                              # both orders at the default distance, one order otherwise
                yield [key, dk, [a, b], md, "notes"]
            if a < b and (a + b) % 5 == 0:
                yield [key, dk, [a, b], None, "strs"]
                yield [key, dk, [b, a], None, "nc"]
    if tier == "quick":
        # a thin slice of triples: every third pitch of the window
        sub = win[::3]
        for tr in itertools.combinations_with_replacement(sub, 3):
            for md in (4, 6, 2):        # the caller's max_distance must reach every level of the search
                yield [key, dk, list(tr), md, "notes"]
    else:
        for tr in itertools.combinations_with_replacement(win, 3):
            for md in (3, 4, 5, 7):
                yield [key, dk, list(tr), md, "notes"]
            yield [key, dk, [tr[2], tr[0], tr[1]], 4, "notes"]
        sub = win[::4]
        for q in itertools.combinations(sub, 4):
            yield [key, dk, list(q), 4, "nc"]
            yield [key, dk, list(q), 6, "notes"]


# ---------------------------------------------------------------------------------------
# clause: chord_fingering
# ---------------------------------------------------------------------------------------
ROOTS = ["C", "C#", "D", "Eb", "E", "F", "F#", "G", "Ab", "A", "Bb", "B"]
CHORDS_Q = ["", "m", "7", "m7", "M7", "dim", "aug", "sus4", "5", "6"]
CHORDS_T = CHORDS_Q + ["m6", "9", "dim7", "sus2", "m7b5", "13"]


def run_chord_fingering(case):
    """case = [key, desc, chord, max_fingers | None, max_distance | None, form]"""
    S = engine.S
    S.sample(case)
    key, dk, chord, max_fingers, md, form = case
    tv = view([key, dk])
    op = tv.opens()
    nc = NoteContainer().from_chord(chord)
    names = [n.name for n in nc]
    if not names:
        raise engine.HarnessError("chord %r gave no notes" % chord)
    pcs = set((RF.NAT[n[0]] + n.count("#") - n.count("b")) % 12 for n in names)
    arg = nc if form == "nc" else list(names)
    kwargs = {}
    if max_fingers is not None:
        kwargs["max_fingers"] = max_fingers
    if md is not None:
        kwargs["max_distance"] = md
    got = tv.obj.find_chord_fingering(arg, **kwargs)
    S.trans(1)
    fingers = 4 if max_fingers is None else max_fingers
    dist = 4 if md is None else md
    site = "find_chord_fingering(%s%s)" % (chord, "".join(", %s=%d" % kv for kv in sorted(kwargs.items())))
    if not isinstance(got, list):
        S.problem(site, "a list of fret lists", got)
        return
    for f in got:
        bad = None
        if not isinstance(f, list) or len(f) != tv.n:
            bad = "one entry per string (%d)" % tv.n
        elif not all(x is None or (type(x) is int and x >= 0) for x in f):
            bad = "every entry a fret >= 0 or None"
        else:
            sounding = [(s, x) for s, x in enumerate(f) if x is not None]
            heard = set((op[s] + x) % 12 for s, x in sounding)
            if not heard <= pcs:
                bad = "only pitch classes of the chord %s" % sorted(pcs)
            elif not pcs <= heard:
                bad = "all pitch classes of the chord %s covered" % sorted(pcs)
            elif not RF.span_ok(f, dist):
                bad = "non-open frets span less than %d" % dist
            elif RF.fingers_lower_bound(f) > fingers or RF.distinct_fretted(f) > fingers:
                bad = "at most %d fingers (needs at least %d)" % (fingers, max(RF.fingers_lower_bound(f), RF.distinct_fretted(f)))
            if any(x > 18 for _, x in sounding):
                S.count("chord_fret_above_default_maxfret")
            if any(x is None for x in f):
                S.count("chord_fingerings_with_muted_string")
            if RF.fingers_lower_bound(f) == fingers:
                S.count("chord_fingerings_at_finger_limit")
            fr = [x for _, x in sounding if x]
            if fr and max(fr) - min(fr) == dist - 1:
                S.count("chord_fingerings_at_span_limit")
        if bad:
            S.problem(site, bad, f, detail={"open": op, "chord_names": names, "all": len(got)})
            break
    S.count("chord_fingerings_checked", len(got))
    S.count("chord_calls_nonempty" if got else "chord_calls_empty")
    S.outcome((len(got), tuple(got[0]) if got else None))


# ---------------------------------------------------------------------------------------
# tablature: shared helpers
# ---------------------------------------------------------------------------------------
TAB_KEYS = [None] + [[k, dk] for k, dk, t in REG if not any(isinstance(x, list) for x in t.tuning)]


def zone(tv, pitches):
    """('core', digits) | ('between', 2) | ('none', 0) | ('empty', 0) for one sounding entry."""
    if not pitches:
        return ("empty", 0)
    op = tv.opens()
    core = RF.fingerings(op, pitches, 4, 24)
    if core:
        return ("core", 2 if any(f >= 10 for a in core for _, f in a) else 1)
    if RF.assignments(op, pitches, None):
        return ("between", 2)
    return ("none", 0)


_ZONES = {}


def zone_cached(tv, pitches):
    k = (tuple(tv.tkey) if tv.tkey else None, tuple(pitches))
    if k not in _ZONES:
        _ZONES[k] = zone(tv, list(pitches))
    return _ZONES[k]


_BARSTART = {}


def barstart_of(tv):
    """Header width the library prints for this tuning (column of '||'), observed on a one-note tab."""
    k = tuple(tv.tkey) if tv.tkey else None
    if k not in _BARSTART:
        val = None
        try:
            txt = tablature.from_Note(mknote(tv.opens()[0]), 40, tv.lib)
            for ln in txt.split("\n"):
                if "||" in ln:
                    val = ln.index("||")
                    break
        except Exception:                                           # noqa
            val = None
        if val is None:
            val = len(max(tv.labels)) + 3
        _BARSTART[k] = val
    return _BARSTART[k]


def bar_width(page):
    if page <= 60:
        return page
    if page <= 120:
        return page // 2
    return page // 3


def quarter_size(width, barstart):
    return max(0, int(math.floor(Fraction(width - barstart - 3) / Fraction(9, 2))))


def share(q, vexact):
    x = Fraction(4 * q) / vexact
    k = int(math.floor(x))
    if x == k:
        d = Fraction(vexact)
        pow2 = d.numerator > 0 and (d.numerator & (d.numerator - 1)) == 0 and (d.denominator & (d.denominator - 1)) == 0
        if not pow2:
            k -= 1
    return k


def bar_admissible(tv, entries, width, barstart):
    q = quarter_size(width, barstart)
    for vlabel, content in entries:
        if content is None:
            continue
        z, digits = zone_cached(tv, content)
        if z in ("none", "empty"):
            continue
        if share(q, V.BY_LABEL[vlabel][2]) < digits + 1:
            return False
    return True


def build_bar(meter, entries):
    """Real Bar from [[value label, None | [] | [pitches]], ...]; None if a placement is refused."""
    b = Bar("C", (meter[0], meter[1]))
    for vlabel, content in entries:
        v = V.BY_LABEL[vlabel][1]
        if content is None:
            ok = b.place_rest(v)
        else:
            ok = b.place_notes(NoteContainer([mknote(p) for p in content]), v)
        if not ok:
            return None
    return b


def expected_of_bars(tv, bars):
    """-> (must_raise, may_raise, flattened expected entries) for a list of bar descriptions."""
    must = may = False
    exp = []
    for meter, entries in bars:
        for vlabel, content in entries:
            if content is None:
                continue
            z, _ = zone_cached(tv, content)
            if z == "none":
                must = True
            elif z in ("between", "empty"):
                may = True
            if z != "empty":
                exp.append(sorted(content))
    return must, may, exp


def check_systems(S, site, systems, tv):
    """one line per string and the printed open strings are the tuning's."""
    ok = True
    for sysm in systems:
        if sysm["rows"] != tv.n:
            S.problem(site, "one string line per string (%d)" % tv.n, sysm["rows"], detail={"line": sysm["line"]})
            ok = False
        elif sorted(sysm["open"]) != sorted(tv.opens()):
            S.problem(site, "string lines labelled with the tuning's open strings %r" % (tv.opens(),), sysm["labels"])
            ok = False
    return ok


def render(S, site, fn, args, kwargs, must, may, admissible):
    """Call a renderer.  Returns the text, or None when the outcome is already settled."""
    try:
        text = fn(*args, **kwargs)
    except ALLOWED_ERRORS as e:
        S.trans(1)
        if not admissible:
            S.count("tab_inadmissible_width")
            return None
        if must or may:
            S.count("tab_refused_as_required" if must else "tab_refused_where_optional")
            S.outcome(("error", type(e).__name__))
        else:
            S.problem(site, "a tablature (every entry has a fingering)", e, tags={"kind": "spurious_error"})
        return None
    except Exception as e:                                           # noqa
        S.trans(1)
        if not admissible:
            S.count("tab_inadmissible_width")
            S.count("tab_inadmissible_width_raised_" + type(e).__name__)
            return None
        S.problem(site, "FingerError/RangeError" if must else "a tablature", e, tags={"kind": "exception", "type": type(e).__name__})
        return None
    S.trans(1)
    if not isinstance(text, str):
        S.problem(site, "a string", repr(text))
        return None
    return text


def _kw(tv, wname, width):
    kw = {}
    if width is not None:
        kw[wname] = width
    if tv.lib is not None:
        kw["tuning"] = tv.lib
    return kw


def decode(S, site, text, read_entries=True):
    """read_entries=False (widths too narrow to keep entries apart): line structure only."""
    try:
        return RT.parse(text, read_entries)
    except RT.TabError as e:
        S.problem(site, "a well-formed tablature (equally long string lines, aligned bar lines)", str(e),
                  detail=text.split("\n")[:14], tags={"kind": "malformed"})
        return None


# ---------------------------------------------------------------------------------------
# clause: tab_same_name -- two tuning objects that carry the same instrument and description
# ---------------------------------------------------------------------------------------
SAME_NAME_TUNINGS = [
    ["E-2", "A-2", "D-3", "G-3"],
    ["G-3", "C-4", "E-4", "A-4", "D-5", "G-5"],
    ["C-3", "G-3", "D-4", "A-4", "E-5"],
    ["E-2", "A-2", "D-3", "G-3", "B-3", "E-4", "A-4"],
]


def run_tab_same_name(case):
    """case = [i, j, name]: tablature is rendered for tuning i, then for tuning j; both objects were created with the
    same instrument name and description (as the library's own docstrings do: StringTuning('test', 'test', ...))."""
    S = engine.S
    i, j, name = case
    for step, k in enumerate((i, j)):
        obj = tunings.StringTuning(name, name, list(SAME_NAME_TUNINGS[k]))
        tv = TunView(["<own tuning %s>" % name, "%d:%d:%d" % (i, j, step)], lib=obj)
        op = tv.opens()
        for s in range(tv.n):
            for fret in (0, 5):
                p = op[s] + fret
                z, _ = zone_cached(tv, [p])
                site = "from_Note(%s, tuning=StringTuning(%r, %r, %r))%s" % (
                    mkstr(p), name, name, SAME_NAME_TUNINGS[k], "" if step == 0 else " after rendering for StringTuning(%r, %r, %r)" % (name, name, SAME_NAME_TUNINGS[i]))
                text = render(S, site, tablature.from_Note, [mknote(p)], _kw(tv, "width", 60), z == "none", z == "between", True)
                if text is None:
                    continue
                systems = decode(S, site, text)
                if systems is None:
                    continue
                if len(systems) != 1 or not check_systems(S, site, systems, tv):
                    if len(systems) != 1:
                        S.problem(site, "one system", len(systems))
                    continue
                got = RT.entries(systems[0])
                if got != [[p]]:
                    S.problem(site, [[p]], got, detail=text.split("\n"), tags={"kind": "decode"})
                S.count("tab_entries_decoded")
                S.trans(1)
    S.count("same_name_tuning_pairs")
    S.outcome((i, j))


# ---------------------------------------------------------------------------------------
# clauses: tab_note, tab_container
# ---------------------------------------------------------------------------------------
def run_tab_note(case):
    """case = [tkey | None, pitch, width | None, form]"""
    S = engine.S
    S.sample(case)
    tkey, p, width, form = case
    tv = view(tkey)
    op = tv.opens()
    z, _ = zone_cached(tv, [p])
    if form == "attr":
        # a Note carrying a valid string/fret (the documented way to force a position): highest-fret position
        pos = [(s, p - o) for s, o in enumerate(op) if 0 <= p - o <= 24]
        if not pos:
            return
        s, f = max(pos, key=lambda sf: sf[1])
        note = tv.obj.get_Note(s, f)
    else:
        note = mknote(p) if form == "note" else mkstr(p)
    site = "from_Note(%s, width=%r, tuning=%s)" % (mkstr(p), width, tkey)
    text = render(S, site, tablature.from_Note, [note], _kw(tv, "width", width), z == "none", z == "between", True)
    if text is None:
        return
    if z == "none":
        S.problem(site, "RangeError (no string can sound the note)", text.split("\n")[:8])
        return
    systems = decode(S, site, text)
    if systems is None:
        return
    if len(systems) != 1 or not check_systems(S, site, systems, tv):
        if len(systems) != 1:
            S.problem(site, "one system", len(systems))
        return
    got = RT.entries(systems[0])
    if got != [[p]]:
        S.problem(site, [[p]], got, detail=text.split("\n"), tags={"kind": "decode"})
    S.count("tab_entries_decoded")
    S.outcome(("note", tuple(systems[0]["bars"][0][0]["frets"]) if got else None, systems[0]["length"]))


def run_tab_container(case):
    """case = [tkey | None, pitches, width | None, form]"""
    S = engine.S
    S.sample(case)
    tkey, pitches, width, form = case
    tv = view(tkey)
    if form == "nc":
        arg = NoteContainer([mknote(p) for p in pitches])
        pitches = [npitch(n) for n in arg.notes]
    elif form == "notes":
        arg = [mknote(p) for p in pitches]
    else:
        arg = [mkstr(p) for p in pitches]
    z, _ = zone_cached(tv, pitches)
    site = "from_NoteContainer(%s, width=%r, tuning=%s)" % ([mkstr(p) for p in pitches], width, tkey)
    text = render(S, site, tablature.from_NoteContainer, [arg], _kw(tv, "width", width), z == "none", z in ("between", "empty"), True)
    if text is None:
        return
    if z == "none":
        S.problem(site, "FingerError (no assignment of distinct strings)", text.split("\n")[:8])
        return
    systems = decode(S, site, text)
    if systems is None:
        return
    if len(systems) != 1 or not check_systems(S, site, systems, tv):
        if len(systems) != 1:
            S.problem(site, "one system", len(systems))
        return
    got = RT.entries(systems[0])
    want = [sorted(pitches)] if pitches else []
    if got != want:
        S.problem(site, want, got, detail=text.split("\n"), tags={"kind": "decode"})
    S.count("tab_entries_decoded")
    S.count("tab_container_zone_" + z)
    S.outcome(("nc", tuple(systems[0]["bars"][0][0]["frets"]) if got and systems[0]["bars"][0] else None))


def gen_tab_note(shard):
    ti, tier = shard
    tkey = TAB_KEYS[ti]
    tv = view(tkey)
    op = tv.opens()
    widths = [None, 0, 17, 40, 41] if tier == "quick" else [None, 0, 9, 10, 17, 40, 41, 79, 120, 151]
    for p in range(max(0, min(op) - 3), min(127, max(op) + 27) + 1):
        for w in widths:
            yield [tkey, p, w, "note"]
        yield [tkey, p, None, "str"]
        yield [tkey, p, 40, "attr"]


def gen_tab_container(shard):
    ti, tier = shard
    tkey = TAB_KEYS[ti]
    tv = view(tkey)
    op = tv.opens()
    win = list(range(max(0, min(op) - 1), min(127, max(op) + 13) + 1))
    widths = [None, 41] if tier == "quick" else [None, 0, 17, 40, 41, 120]
    for a, b in itertools.combinations(win, 2):
        for w in widths:
            yield [tkey, [a, b], w, "nc"]
        if (a + b) % 7 == 0:
            yield [tkey, [b, a], 40, "notes"]
            yield [tkey, [a, b], 40, "strs"]
    yield [tkey, [], None, "nc"]
    yield [tkey, [win[3], win[3]], 40, "notes"]
    sub = win[::3] if tier == "quick" else win[::2]
    for tr in itertools.combinations(sub, 3):
        yield [tkey, list(tr), 40, "nc"]
    if tier != "quick":
        for q in itertools.combinations(win[::4], 4):
            yield [tkey, list(q), 41, "nc"]
        for q in itertools.combinations(win[::5], tv.n + 1):
            yield [tkey, list(q), 40, "nc"]
            break


# ---------------------------------------------------------------------------------------
# bar zoo
# ---------------------------------------------------------------------------------------
def zoo_contents(tv):
    """content kinds of the zoo for one tuning -> pitch lists (None = rest, [] = empty container)."""
    op = tv.opens()
    lo, hi = min(op), max(op)
    out = {"R": None, "E": []}
    out["A"] = [lo + 3]                                  # low, single-digit fret on every possible string
    out["B"] = [hi + 12]                                 # two-digit fret on every possible string
    for offs in ((2, 1, 0), (2, 2, 1), (0, 2, 3), (1, 3, 0)):
        ch = sorted(set(op[i] + offs[i] for i in range(min(3, tv.n))))
        if len(ch) >= 2 and zone(tv, ch)[0] == "core":
            out["C"] = ch
            break
    d = sorted(set([op[0] + 9, op[1] + 10]))
    if len(d) == 2 and zone(tv, d)[0] == "core":
        out["D"] = d                                     # a chord that may mix 1- and 2-digit frets
    out["U"] = [lo - 1]                                  # below every string: no fingering at all
    x = [lo, lo + 1]
    out["X"] = x                                         # two notes, often both only on the lowest string
    return out


def bars_of_zoo(kinds, values, max_entries, meter, contents):
    length = Fraction(meter[0], meter[1])
    acts = [(k, v) for k in kinds if k in contents for v in values]

    def rec(prefix, total):
        yield list(prefix)
        if len(prefix) == max_entries:
            return
        for (k, v) in acts:
            d = 1 / V.BY_LABEL[v][2]
            if total + d <= length:
                prefix.append([v, contents[k]])
                for x in rec(prefix, total + d):
                    yield x
                prefix.pop()
    for entries in rec([], Fraction(0)):
        yield entries


def run_tab_bar(case):
    """case = [tkey | None, meter, entries, width | None]"""
    S = engine.S
    S.sample(case)
    tkey, meter, entries, width = case
    tv = view(tkey)
    bar = build_bar(meter, entries)
    if bar is None:
        S.count("zoo_bar_not_reachable")
        return
    w = 40 if width is None else width
    adm = bar_admissible(tv, entries, w, barstart_of(tv))
    must, may, exp = expected_of_bars(tv, [(meter, entries)])
    site = "from_Bar(%s, width=%r, tuning=%s)" % (entries, width, tkey)
    text = render(S, site, tablature.from_Bar, [bar], _kw(tv, "width", width), must, may, adm)
    if text is None:
        return
    systems = decode(S, site, text, adm)
    if systems is None:
        return
    if not check_systems(S, site, systems, tv):
        return
    if len(systems) != 1:
        S.problem(site, "one system", len(systems), detail=text.split("\n"))
        return
    actual = text.split("\n")[systems[0]["line"]].index("||")
    if actual != barstart_of(tv):
        adm = adm and bar_admissible(tv, entries, w, actual)
        S.count("tab_header_width_differs_from_probe")
    if not adm:
        S.count("tab_inadmissible_width")
        return
    if must:
        S.problem(site, "FingerError/RangeError (an entry has no fingering)", text.split("\n"), tags={"kind": "no_error"})
        return
    got = RT.entries(systems[0])
    if got != exp:
        S.problem(site, exp, got, detail=text.split("\n"), tags={"kind": "decode"})
    S.count("tab_entries_decoded", len(exp))
    S.count("tab_bars_decoded")
    q = quarter_size(w, actual)
    if any(c is not None and zone_cached(tv, c)[0] == "core" and share(q, V.BY_LABEL[v][2]) == zone_cached(tv, c)[1] + 1 for v, c in entries):
        S.count("tab_bars_decoded_at_the_narrowest_admissible_width")
    if any(f >= 10 for b in systems[0]["bars"] for e in b for _, f in e["frets"]):
        S.count("tab_two_digit_frets_decoded")
    S.outcome(("bar", tuple((e["column"], tuple(e["frets"])) for b in systems[0]["bars"] for e in b), systems[0]["length"]))


# ---------------------------------------------------------------------------------------
# clause: tab_attr -- entries whose Notes carry their own string/fret (as get_Note hands them out)
# ---------------------------------------------------------------------------------------
ATTR_FRETS = [0, 3, 7, 10, 12]


def run_tab_attr(case):
    """case = [tkey | None, [s1, f1], [s2, f2] | None, width]: the entry holds the Note objects returned by
    get_Note (they carry .string / .fret); whatever the renderer makes of those hints, the tab must decode to
    exactly the pitches of the entry -- also when both hints name the same string."""
    S = engine.S
    tkey, a, b, width = case
    tv = view(tkey)
    op = tv.opens()
    notes, pitches = [], []
    for pos in (a, b):
        if pos is None:
            continue
        n = tv.obj.get_Note(pos[0], pos[1])
        notes.append(n)
        pitches.append(op[pos[0]] + pos[1])
    if len(set(pitches)) != len(pitches):
        S.count("tab_attr_same_pitch_skipped")
        return
    bar = Bar("C", (4, 4))
    bar.place_notes(NoteContainer(notes), 4)
    if [npitch(n) for n in bar[0][2].notes] != sorted(pitches):
        raise engine.HarnessError("container does not hold the notes of get_Note")
    z, _ = zone_cached(tv, sorted(pitches))
    site = "from_Bar([get_Note%r%s], width=%r, tuning=%s)" % (tuple(a), (", get_Note%r" % (tuple(b),)) if b else "", width, tkey)
    text = render(S, site, tablature.from_Bar, [bar], _kw(tv, "width", width), z == "none", z == "between", True)
    if text is None:
        return
    systems = decode(S, site, text)
    if systems is None or len(systems) != 1 or not check_systems(S, site, systems, tv):
        return
    got = RT.entries(systems[0])
    if got != [sorted(pitches)]:
        S.problem(site, [sorted(pitches)], got, detail=text.split("\n"), tags={"kind": "decode"})
    S.count("tab_attr_decoded")
    if b is not None and a[0] == b[0]:
        S.count("tab_attr_both_hints_on_one_string")
    S.outcome(("attr", tuple(systems[0]["bars"][0][0]["frets"]) if got and systems[0]["bars"][0] else None))


def gen_tab_attr(tkey):
    tv = view(tkey)
    pos = [[s, f] for s in range(tv.n) for f in ATTR_FRETS]
    for a in pos:
        yield [tkey, a, None, 40]
        for b in pos:
            if a < b:
                yield [tkey, a, b, 60]


# ---------------------------------------------------------------------------------------
# clause: tab_rerender -- a bar rendered, edited in place and rendered again shows its new content
# ---------------------------------------------------------------------------------------
RERENDER_ENTRIES = [[["4", [0, 7]], ["4", [5]]], [["2", [3]], ["4", None], ["4", [12, 16]]], [["4", [2, 9, 14]]]]
RERENDER_EDITS = [["transpose", "3", True], ["transpose", "5", False], ["augment"], ["diminish"], ["setitem", 0, [4, 11]],
                  ["transpose", "7", True, 4], ["refill"]]


def _render_outcome(fn, *args, **kw):
    try:
        return ("text", fn(*args, **kw))
    except ALLOWED_ERRORS as e:
        return ("refused", type(e).__name__)


def run_tab_rerender(case):
    """case = [tkey | None, entries index, edit, width]: entries are (value, offsets above the lowest open string)."""
    S = engine.S
    tkey, ei, edit, width = case
    tv = view(tkey)
    low = min(tv.opens())

    def build(entries):
        b = Bar("C", (4, 4))
        for v, offs in entries:
            if offs is None:
                b.place_rest(V.BY_LABEL[v][1])
            else:
                b.place_notes(NoteContainer([mknote(low + o) for o in offs]), V.BY_LABEL[v][1])
        return b

    def apply(b):
        if edit[0] == "transpose":
            for _ in range(edit[3] if len(edit) > 3 else 1):
                b.transpose(edit[1], edit[2])
        elif edit[0] == "augment":
            b.augment()
        elif edit[0] == "diminish":
            b.diminish()
        elif edit[0] == "setitem":
            b[edit[1]] = NoteContainer([mknote(low + o) for o in edit[2]])
        elif edit[0] == "refill":
            vals = [e[1] for e in b.bar]
            b.empty()
            for k, v in enumerate(vals):
                b.place_notes(NoteContainer([mknote(low + 1 + 2 * k)]), v)

    entries = RERENDER_ENTRIES[ei]
    kw = _kw(tv, "width", width)
    bar = build(entries)
    first = _render_outcome(tablature.from_Bar, bar, **kw)
    apply(bar)
    second = _render_outcome(tablature.from_Bar, bar, **kw)
    twin = build(entries)                      # same construction, same edit, never rendered before the edit
    apply(twin)
    fresh = _render_outcome(tablature.from_Bar, twin, **kw)
    S.trans(3)
    S.count("rerenders")
    if first != fresh:
        S.count("rerenders_where_the_edit_changed_the_tab")
    S.outcome((edit[0], second[0], first == second))
    if second != fresh:
        S.problem("from_Bar of a bar that was rendered, changed by %r and rendered again" % (edit,),
                  fresh[1].split("\n") if fresh[0] == "text" else list(fresh),
                  second[1].split("\n") if second[0] == "text" else list(second),
                  detail="differs from the tab of an identical bar that was not rendered before the change")


RETUNE_ENTRIES = [[["4", [64]], ["4", [69, 72]], ["2", [60]]], [["4", [55, 59, 64]], ["4", None], ["2", [67]]], [["1", [64, 69, 72]]],
                  [["4", [40]], ["4", [45, 50]], ["2", [43]]]]


def run_tab_retune(case):
    """case = [tkey A | None, tkey B | None, entries index, via]: one and the same Bar object (the same Note objects) is
    rendered for tuning A and then for tuning B; the second tab must be the tab of an identical bar that was never
    rendered for A."""
    S = engine.S
    ka, kb, ei, via = case
    ta, tb = view(ka), view(kb)

    def build():
        b = Bar("C", (4, 4))
        for v, ps in RETUNE_ENTRIES[ei]:
            if ps is None:
                b.place_rest(V.BY_LABEL[v][1])
            else:
                b.place_notes(NoteContainer([mknote(p) for p in ps]), V.BY_LABEL[v][1])
        return b

    def render(b, tv):
        if via == "bar":
            return _render_outcome(tablature.from_Bar, b, **_kw(tv, "width", 60))
        t = Track()
        t.add_bar(b)
        return _render_outcome(tablature.from_Track, t, **_kw(tv, "maxwidth", 80))

    # the reference rendering comes first (an identical bar, never rendered for A), preceded by a rendering of other music
    # so that nothing this case is about has been looked at just before
    other = Bar("C", (4, 4))
    other.place_notes(NoteContainer([mknote(min(tb.opens()) + 1)]), 1)
    render(other, tb)
    fresh = render(build(), tb)
    bar = build()
    first = render(bar, ta)
    second = render(bar, tb)
    S.trans(4)
    S.count("retunes")
    if first[0] == "text" and fresh[0] == "text":
        S.count("retunes_playable_on_both_tunings")
    S.outcome((via, first[0], second[0]))
    if second != fresh:
        S.problem("%s of a bar rendered for %s and then for %s" % ("from_Bar" if via == "bar" else "from_Track", ka, kb),
                  fresh[1].split("\n") if fresh[0] == "text" else list(fresh),
                  second[1].split("\n") if second[0] == "text" else list(second),
                  detail="differs from the tab (for the second tuning) of an identical bar that was never rendered for the first")


def gen_tab_rerender(tkey):
    for ei in range(len(RERENDER_ENTRIES)):
        for edit in RERENDER_EDITS:
            for width in (None, 60):
                yield [tkey, ei, edit, width]


WIDTHS = [40, 60, 80, 100, 120, 150]


def gen_tab_bar(shard):
    ti, tier, depth = shard
    tkey = TAB_KEYS[ti]
    tv = view(tkey)
    contents = zoo_contents(tv)
    if depth == "deep":
        kinds = ["A", "B", "C", "R", "U", "E"] if tier == "quick" else ["A", "B", "C", "D", "R", "U", "X", "E"]
        values = ["4", "8"] if tier == "quick" else ["4", "8", "2", "16"]
        nmax = 3
        widths = [None, 30, 60, 100] if tier == "quick" else [None, 17, 25, 30] + WIDTHS
        for entries in bars_of_zoo(kinds, values, nmax, (4, 4), contents):
            if len(entries) < 3:
                continue                                 # shorter bars are in the "wide" family
            for w in widths:
                yield [tkey, [4, 4], entries, w]
    else:
        kinds = ["A", "B", "C", "D", "R", "U", "X", "E"]
        values = ["4", "8", "2"] if tier == "quick" else ["1", "2", "4", "8", "16", "4.", "4*3:2", "8*3:2", "16*5:4", "32"]
        widths = [None, 30, 60, 100] if tier == "quick" else [None, 17, 25, 30] + WIDTHS
        if depth == "meters":
            if tier == "quick":
                values = ["4", "8", "2", "4.", "8*3:2"]
            meters = [(3, 4), (6, 8), (2, 2), (12, 8)]
        else:
            meters = [(4, 4)]
        for m in meters:
            for entries in bars_of_zoo(kinds, values, 2, m, contents):
                for w in widths:
                    yield [tkey, list(m), entries, w]


# ---------------------------------------------------------------------------------------
# tracks and compositions
# ---------------------------------------------------------------------------------------
def track_bar_pool(tv):
    c = zoo_contents(tv)
    ch = c.get("C", c["A"])
    return [
        [[4, 4], [["4", c["A"]], ["4", ch], ["4", None], ["4", c["B"]]]],
        [[4, 4], [["8", c["B"]], ["8", c["A"]], ["2", ch]]],
        [[4, 4], []],
        [[3, 4], [["2", None], ["4", c["A"]]]],
        [[4, 4], [["4", c["A"]]]],
        [[4, 4], [["1", None]]],
        [[4, 4], [["4", c["A"]], ["4", c["U"]]]],
    ]


def make_track(tv, bars, via):
    t = Track()
    if via == "instr":
        t = Track(Instrument())
        t.instrument.tuning = tv.obj
    elif via == "track":
        t.set_tuning(tv.obj)
    elif via == "arg_over_track":
        # the track carries a tuning of its own; the caller asks for the tab in another one (passed explicitly)
        other = ("BASS GUITAR", "STANDARD 4-STRING TUNING")
        if tv.tkey is not None and tuple(tv.tkey) == other:
            other = ("UKULELE", "STANDARD C6 TUNING FOR SOPRANO, CONCERT AND TENOR.")
        t.set_tuning(REG_BY_KEY[other])
    for meter, entries in bars:
        b = build_bar(meter, entries)
        if b is None:
            raise engine.HarnessError("track zoo bar not placeable: %r" % (entries,))
        t.add_bar(b)
    return t


def run_tab_track(case):
    """case = {"tkey": ..., "via": "default" | "arg" | "track" | "instr", "bars": [[meter, entries]...], "width": int | None}"""
    S = engine.S
    S.sample(case)
    tkey, via, bars, width = case["tkey"], case["via"], case["bars"], case["width"]
    tv = view(tkey if via != "default" else None)
    t = make_track(tv, bars, via)
    page = 80 if width is None else width
    bw = bar_width(page)
    adm = all(bar_admissible(tv, entries, bw, barstart_of(tv)) for _, entries in bars)
    must, may, exp = expected_of_bars(tv, bars)
    kw = {} if width is None else {"maxwidth": width}
    if via in ("arg", "arg_over_track"):
        kw["tuning"] = tv.obj
    site = "from_Track(%d bars, maxwidth=%r, tuning via %s %s)" % (len(bars), width, via, tkey)
    text = render(S, site, tablature.from_Track, [t], kw, must, may, adm)
    if text is None:
        return
    systems = decode(S, site, text, adm)
    if systems is None or not check_systems(S, site, systems, tv):
        return
    if not adm:
        S.count("tab_inadmissible_width")
        return
    if must:
        S.problem(site, "FingerError/RangeError (an entry has no fingering)", text.split("\n")[:12], tags={"kind": "no_error"})
        return
    got = [e for sysm in systems for e in RT.entries(sysm)]
    if got != exp:
        S.problem(site, exp, got, detail=text.split("\n"), tags={"kind": "decode"})
    S.count("tab_entries_decoded", len(exp))
    S.count("tab_tracks_decoded")
    if len(systems) > 1:
        S.count("tab_tracks_with_several_systems")
    if any(len(sysm["bars"]) > 1 for sysm in systems):
        S.count("tab_systems_with_several_bars")
    S.outcome(("track", tuple(len(sysm["bars"]) for sysm in systems), tuple(sysm["length"] for sysm in systems)))


def gen_tab_track(shard):
    ti, tier = shard
    tkey = TAB_KEYS[ti]
    tv = view(tkey)
    pool = track_bar_pool(tv)
    maxbars = 2 if tier == "quick" else 3
    if tkey is None:
        vias = ["default"]
        maxbars = 3 if tier == "quick" else 4
    else:
        vias = ["arg", "track", "instr", "arg_over_track"]
    widths = [None] + WIDTHS + ([] if tier == "quick" else [50, 61, 121, 200])
    for n in range(0, maxbars + 1):
        for combo in itertools.product(range(len(pool)), repeat=n):
            if n == maxbars and n >= 3 and tier == "quick" and 6 in combo:
                continue
            for vi, via in enumerate(vias):
                # every tuning route on short tracks, cycled on long ones
                if n >= 2 and (sum(combo) + n) % len(vias) != vi:
                    continue
                for w in widths:
                    yield {"tkey": tkey, "via": via, "bars": [pool[i] for i in combo], "width": w}


HEADERS = [
    {},
    {"title": "Blues in E", "subtitle": "for two", "author": "A. Nonymous", "email": "a@example.org",
     "description": "A slow twelve bar blues in the key of e minor with |bars| and 12 frets - 3 chords || 4 strings " * 2},
]

TRACK_TUNINGS = [None, ["BASS GUITAR", "STANDARD 4-STRING TUNING"], None,
                 ["UKULELE", "STANDARD C6 TUNING FOR SOPRANO, CONCERT AND TENOR."], ["GUITAR", "STANDARD TUNING"], None]
TRACK_BARS = [[0, 1], [0, 4], [4], [], [1, 2, 0], [4, 6]]  # indexes into the tuning's bar pool (6 = a bar with an unplayable note)
TRACK_VIA = ["default", "track", "default", "instr", "track", "default"]


def comp_track_descr(i):
    tkey = TRACK_TUNINGS[i]
    tv = view(tkey)
    pool = track_bar_pool(tv)
    return {"tkey": tkey, "via": TRACK_VIA[i], "bars": [pool[j] for j in TRACK_BARS[i]]}


def run_tab_composition(case):
    """case = {"tracks": [{"tkey", "via", "bars"}...], "width": int | None, "header": {...}}"""
    S = engine.S
    S.sample(case)
    width = case["width"]
    page = 80 if width is None else width
    bw = bar_width(page)
    c = Composition()
    h = case["header"]
    if "title" in h:
        c.set_title(h["title"], h.get("subtitle", ""))
        c.set_author(h.get("author", ""), h.get("email", ""))
        c.description = h.get("description", "")
    views, exps = [], []
    must = may = False
    adm = True
    for td in case["tracks"]:
        tv = view(td["tkey"] if td["via"] != "default" else None)
        views.append(tv)
        c.add_track(make_track(tv, td["bars"], td["via"]))
        m1, m2, exp = expected_of_bars(tv, td["bars"])
        must, may = must or m1, may or m2
        exps.append(exp)
        adm = adm and all(bar_admissible(tv, entries, bw, barstart_of(tv)) for _, entries in td["bars"])
    site = "from_Composition(%s, width=%r)" % ([(td["tkey"][0] if td["tkey"] else "default", len(td["bars"])) for td in case["tracks"]], width)
    text = render(S, site, tablature.from_Composition, [c], {} if width is None else {"width": width}, must, may, adm)
    if text is None:
        return
    systems = decode(S, site, text, adm)
    if systems is None:
        return
    nbars = [len(td["bars"]) for td in case["tracks"]]
    sigs = [tuple(sorted(tv.opens())) for tv in views]
    by_label = len(set(sigs)) == len(sigs)
    got = [[] for _ in views]
    consumed = [0] * len(views)
    groups = []
    for sysm in systems:
        if sysm["joined"] and groups:
            groups[-1].append(sysm)
        else:
            groups.append([sysm])
    for g in groups:
        if by_label:
            owners = []
            for sysm in g:
                sig = tuple(sorted(sysm["open"]))
                owners.append(sigs.index(sig) if sig in sigs else None)
        else:
            cand = [k for k in range(len(views)) if consumed[k] < nbars[k]]
            owners = cand if len(cand) == len(g) else [None] * len(g)
        for sysm, k in zip(g, owners):
            if k is None:
                S.problem(site, "every system belongs to one track (by its string labels / by position in the line group)",
                          {"labels": sysm["labels"], "group_size": len(g), "bars_left": [nbars[i] - consumed[i] for i in range(len(views))]},
                          detail=text.split("\n")[-40:], tags={"kind": "layout"})
                return
            if not check_systems(S, site, [sysm], views[k]):
                return
            if adm:
                got[k].extend(RT.entries(sysm))
            consumed[k] += len(sysm["bars"])
    if not adm:
        S.count("tab_inadmissible_width")
        return
    if must:
        S.problem(site, "FingerError/RangeError (an entry has no fingering)", text.split("\n")[:12], tags={"kind": "no_error"})
        return
    if got != exps:
        S.problem(site, exps, got, detail=text.split("\n"), tags={"kind": "decode"})
    S.count("tab_entries_decoded", sum(len(e) for e in exps))
    S.count("tab_compositions_decoded")
    if any(len(g) > 1 for g in groups):
        S.count("tab_compositions_with_simultaneous_systems")
    S.outcome(("comp", tuple(len(g) for g in groups), tuple(sysm["length"] for sysm in systems)))


def gen_tab_composition(shard):
    first, tier = shard
    ntr = len(TRACK_TUNINGS)
    maxtracks = 2 if tier == "quick" else 3
    widths = [None, 40, 60, 100, 150] if tier == "quick" else [None] + WIDTHS + [61, 121]
    for n in range(1, maxtracks + 1):
        for combo in itertools.product(range(ntr), repeat=n):
            if combo[0] != first:
                continue
            for hi, h in enumerate(HEADERS):
                if hi and (sum(combo) % 2):
                    continue
                for w in widths:
                    yield {"tracks": [comp_track_descr(i) for i in combo], "width": w, "header": h}


# ---------------------------------------------------------------------------------------
CLAUSES = {
    "frets": run_frets,
    "get_note": run_get_note,
    "lookup": run_lookup,
    "fingering": run_fingering,
    "chord_fingering": run_chord_fingering,
    "tab_note": run_tab_note,
    "tab_container": run_tab_container,
    "tab_attr": run_tab_attr,
    "tab_rerender": run_tab_rerender,
    "tab_same_name": run_tab_same_name,
    "tab_retune": run_tab_retune,
    "tab_bar": run_tab_bar,
    "tab_track": run_tab_track,
    "tab_composition": run_tab_composition,
}

MAXFRETS = [None, 0, 1, 5, 12, 18, 24, 36]


def _gen_frets(idx):
    key, dk, _ = REG[idx]
    for mf in MAXFRETS:
        yield [key, dk, mf, "note"]
    yield [key, dk, None, "str"]
    yield [key, dk, 12, "str"]
    yield [key, dk, None, "spelled"]
    yield [key, dk, 12, "spelled"]


def _gen_get_note(idx):
    key, dk, _ = REG[idx]
    for mf in (None, 0, 12, 24, 30):
        yield [key, dk, mf]


# tunings whose bar zoo is explored to 3 entries: default guitar, a bass (labels with commas), the re-entrant ukulele and
# 5-string banjo; thorough adds a 3-string dulcimer with two equal strings, the 6-string bass (label B,,), the octave
# guitar (labels with two primes) and the mejorana
DEEP_Q = [None, ["BASS GUITAR", "STANDARD 4-STRING TUNING"], ["UKULELE", "STANDARD C6 TUNING FOR SOPRANO, CONCERT AND TENOR."],
          ["BANJO (5-STRING)", "OPEN G TUNING"]]
DEEP_T = [["DULCIMER", "IONIAN TUNING (THE TRADITIONAL DULCIMER IS FRETTED DIATONICALLY WHOLE, WHOLE, HALF, WHOLE, WHOLE, HALF, WHOLE. )"],
          ["BASS GUITAR", "STANDARD 6-STRING TUNING"], ["OCTAVE GUITAR", "SEE *SOPRANO GUITAR*"], ["MEJORANA", "STANDARD TUNING"]]


def _tab_index(tkey):
    if tkey not in TAB_KEYS:
        raise engine.HarnessError("tuning %r is not registered (or has courses)" % (tkey,))
    return TAB_KEYS.index(tkey)


def explore(ctx):
    tier = ctx.tier
    nreg = len(REG)
    ctx.bound("registered_tunings", nreg)
    ctx.bound("single_course_tunings", len(TAB_KEYS) - 1)
    single = [i for i, (k, dk, t) in enumerate(REG) if not any(isinstance(x, list) for x in t.tuning)]
    guitar_family = [i for i in single if "GUITAR" in REG[i][0]]

    if ctx.want("frets"):
        ctx.bound("frets", {"notes": "0..127", "maxfret": MAXFRETS, "forms": ["Note", "string (default and 12)"]})
        ctx.product("frets", range(nreg), _gen_frets)
    if ctx.want("get_note"):
        ctx.bound("get_note", {"strings": "-1..n+1", "frets": "-1..maxfret+1", "maxfret": [None, 0, 12, 24, 30]})
        ctx.product("get_note", range(nreg), _gen_get_note)
    if ctx.want("lookup"):
        ilens = ctx.pick([1, 3, 5, 8], None)
        dlens = ctx.pick([1, 6], [1, 2, 3, 4, 5, 6, 9, 14, 20])
        ctx.bound("lookup", {"instrument_prefix_lengths": ilens or "all", "description_prefix_lengths": dlens,
                             "case_variants": ctx.pick("get_tunings: as registered / lower / upper / swapped; get_tuning: as registered / lower", "as registered / lower / upper / swapped"),
                             "string_counts": STR_COUNTS, "course_counts": COURSE_COUNTS})
        ctx.product("lookup", [(i, ilens, dlens, tier) for i in range(nreg)], gen_lookup)
    if ctx.want("fingering"):
        ctx.bound("fingering", {"window": "lowest open .. highest open + 12 (singles: -2 .. +26)",
                                "sizes": ctx.pick("1, 2 (all ordered pairs), 3 (every third pitch, sorted)", "1, 2 (ordered), 3 (all sorted triples + a rotation), 4 (every fourth pitch)"),
                                "max_distance": ctx.pick("4 on all ordered pairs, 3 and 5 on a <= b", [1, 3, 4, 5, None])})
        ctx.product("fingering", [(i, tier) for i in range(nreg)], gen_fingering)
    if ctx.want("chord_fingering"):
        chords = ctx.pick(CHORDS_Q, CHORDS_T)
        tun = ctx.pick(guitar_family, single)
        fingers = ctx.pick([3, 4], [2, 3, 4, None, 5])
        dists = ctx.pick([None], [None, 3, 5])
        ctx.bound("chord_fingering", {"tunings": len(tun), "chords": chords, "roots": ROOTS, "max_fingers": fingers, "max_distance": dists})

        def gen_chord(idx, chords=chords, fingers=fingers, dists=dists):
            key, dk, _ = REG[idx]
            for ch in chords:
                for r in ROOTS:
                    for mfi in fingers:
                        for md in dists:
                            yield [key, dk, r + ch, mfi, md, "nc"]
                    yield [key, dk, r + ch, None, None, "names"]
        ctx.product("chord_fingering", tun, gen_chord)
    ntab = len(TAB_KEYS)
    if ctx.want("tab_note"):
        ctx.product("tab_note", [(i, tier) for i in range(ntab)], gen_tab_note)
    if ctx.want("tab_container"):
        ctx.product("tab_container", [(i, tier) for i in range(ntab)], gen_tab_container)
    if ctx.want("tab_retune"):
        tun = ctx.pick(DEEP_Q[:4], DEEP_Q + DEEP_T)
        ctx.bound("tab_retune", {"tunings": tun, "bars": len(RETUNE_ENTRIES), "routes": ["bar", "track"]})
        ctx.product("tab_retune", list(range(len(tun))), lambda i: ([tun[i], kb, ei, via] for kb in tun if kb != tun[i]
                                                                    for ei in range(len(RETUNE_ENTRIES)) for via in ("bar", "track")))
        if not ctx.only:
            ctx.guard("retunes playable on both tunings", ctx.counter("retunes_playable_on_both_tunings"), 10)
    if ctx.want("tab_same_name"):
        n = len(SAME_NAME_TUNINGS)
        ctx.bound("tab_same_name", {"tunings": SAME_NAME_TUNINGS, "names": ["test", "Guitar"], "ordered pairs": n * n})
        ctx.product("tab_same_name", ["test", "Guitar"], lambda nm: ([i, j, nm] for i in range(n) for j in range(n)))
    if ctx.want("tab_rerender"):
        ctx.product("tab_rerender", ctx.pick(DEEP_Q[:3], DEEP_Q + DEEP_T), gen_tab_rerender)
        if not ctx.only:
            ctx.guard("re-renderings where the edit changed the tab", ctx.counter("rerenders_where_the_edit_changed_the_tab"), 30)
    if ctx.want("tab_attr"):
        ctx.product("tab_attr", ctx.pick(DEEP_Q[:3], DEEP_Q + DEEP_T), gen_tab_attr)
    if ctx.want("tab_bar"):
        deep = [_tab_index(k) for k in ctx.pick(DEEP_Q, DEEP_Q + DEEP_T)]
        ctx.bound("tab_bar", {"deep_tunings": [TAB_KEYS[i] for i in deep], "deep": "4/4, <= 3 entries; meters 3/4 6/8 2/2 12/8, <= 2 entries",
                              "all_tunings": "4/4, <= 2 entries", "widths": ctx.pick([None, 30, 60, 100], [None, 17, 25, 30] + WIDTHS)})
        ctx.product("tab_bar", [(i, tier, "deep") for i in deep] + [(i, tier, "meters") for i in deep] +
                    [(i, tier, "wide") for i in range(ntab)], gen_tab_bar)
    if ctx.want("tab_track"):
        tt = ctx.pick([_tab_index(k) for k in DEEP_Q[:3]], list(range(ntab)))
        ctx.bound("tab_track", {"tunings": len(tt), "bars_per_track": ctx.pick("0..2 (default tuning 0..3)", "0..3 (default tuning 0..4)"),
                                "pool": 7, "widths": [None] + WIDTHS})
        ctx.product("tab_track", [(i, tier) for i in tt], gen_tab_track)
    if ctx.want("tab_composition"):
        ctx.bound("tab_composition", {"track_pool": len(TRACK_TUNINGS), "tracks": ctx.pick("1..2", "1..3"), "headers": len(HEADERS)})
        ctx.product("tab_composition", [(i, tier) for i in range(len(TRACK_TUNINGS))], gen_tab_composition)

    if not getattr(ctx, "only", None):
        c = ctx.counter
        ctx.guard("registered tunings", nreg, 70)
        ctx.guard("fret cells checked", c("fret_cells"), 400000)
        ctx.guard("notes playable on some string", c("frets_some_string"), 10000)
        ctx.guard("notes playable on no string", c("frets_no_string"), 10000)
        ctx.guard("get_Note returned", c("get_note_returned"), 10000)
        ctx.guard("get_Note refused", c("get_note_refused"), 5000)
        ctx.guard("lookups that returned tunings", c("lookup_list_nonempty"), 1000)
        ctx.guard("get_tuning found", c("lookup_found"), 5000)
        ctx.guard("get_tuning found nothing", c("lookup_none"), 5000)
        ctx.guard("non-empty fingering lists", c("fingering_nonempty"), 10000)
        ctx.guard("empty fingering lists", c("fingering_empty"), 1000)
        ctx.guard("fingerings where the span filter removed something", c("fingering_span_filter_active"), 1000)
        ctx.guard("chord fingerings checked", c("chord_fingerings_checked"), 10000)
        ctx.guard("chord fingerings at the finger limit", c("chord_fingerings_at_finger_limit"), 100)
        ctx.guard("chord fingerings at the span limit", c("chord_fingerings_at_span_limit"), 100)
        ctx.guard("chord fingerings with a muted string", c("chord_fingerings_with_muted_string"), 100)
        ctx.guard("tab entries decoded", c("tab_entries_decoded"), 20000)
        ctx.guard("tabs refused as required", c("tab_refused_as_required"), 500)
        ctx.guard("two-digit frets decoded in bars", c("tab_two_digit_frets_decoded"), 500)
        ctx.guard("tracks decoded", c("tab_tracks_decoded"), 300)
        ctx.guard("tracks laid out over several systems", c("tab_tracks_with_several_systems"), 50)
        ctx.guard("systems holding several bars", c("tab_systems_with_several_bars"), 50)
        ctx.guard("compositions decoded", c("tab_compositions_decoded"), 50)
        ctx.guard("compositions with simultaneous systems", c("tab_compositions_with_simultaneous_systems"), 20)
        ctx.guard("renderings at widths too narrow to decode (structure only)", c("tab_inadmissible_width"), 100)
        ctx.guard("bars decoded with an entry exactly one column wider than its fret number", c("tab_bars_decoded_at_the_narrowest_admissible_width"), 100)
    if ctx.counter("tab_inadmissible_width"):
        ctx.note("%d renderings were at widths that do not give every entry its fret number plus one column; they were checked for line structure only" % ctx.counter("tab_inadmissible_width"))
    if ctx.counter("chord_fret_above_default_maxfret"):
        ctx.note("%d chord fingerings used a fret above 18" % ctx.counter("chord_fret_above_default_maxfret"))


KNOWN = {}
