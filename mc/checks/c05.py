# -*- coding: utf-8 -*-
"""C05 -- every scale realises its defining step pattern; scale recognition is exact
(DESIGN.md section 4, C05).

Five clauses, each an exhaustive product over (class, tonic, octaves[, semitone positions]):
ascending pattern, descending form, degree lookup, len/equality over instance pairs, and
recognition against the brute-force specification of mc/ref/scales.py."""
import itertools

from mc import engine
from mc.ref import pitch as P
from mc.ref import scales as R

from mingus.core import scales as SC

PROPERTY = "C05"
RULE = ("product over 17 scale classes (+ Diatonic with all 21 semitone-position pairs) x every tonic valid for the "
        "class (every note spelling with <= k accidentals in any order for the free classes, the 15 major / 15 minor "
        "tonics for the key-derived classes, the 30 keys for Chromatic) x octave counts x every degree x both "
        "directions; ordered instance pairs for ==/!=/len; for recognition every subset of the 21 names with <= 1 "
        "accidental up to a size bound plus every family scale with <= 2 notes deleted / one foreign note added; "
        "distinct_nontrivial = distinct observed (clause, answer) keys such as (class, note list), (degree answers), "
        "(equal?, same class?), (recognised name set)")
ASSUMPTIONS = [
    "the defining pattern of each class is the textbook one (mc/ref/scales.py: modes = rotations of 2-2-1-2-2-2-1, minor family = alterations of the natural minor, 2x6, (2-1)x4, 1x12); Diatonic(note, (i, j)) is defined by its argument: step k of 7 is a semitone iff k is i or j",
    "a tonic 'valid for the class' is: any note name letter + string over '#','b' (mixed orders included, <= k accidentals) for the modes, Diatonic, WholeTone and Octatonic; the 15 major-key tonics for Major/HarmonicMajor; the 15 minor-key tonics (capitalised) for the minor family; one of the 30 key names for Chromatic (whose tonic is the key's tonic); other tonics are not judged; octave counts are >= 1",
    "ascending notes are compared by pitch class and (heptatonic classes) letter, not by spelling; first and last note must equal the given tonic string",
    "'exact reverse' is string-exact against the library's own ascending list, except Chromatic, whose descending form deliberately respells with flats (its docstring): there only pitch classes are compared, plus first = last = tonic",
    "melodic minor / minor Neapolitan descending forms are compared by (letter, pitch class) with the natural minor of the same tonic (lowered second for the Neapolitan), over n octaves",
    "scale degree i is counted upward from the tonic in both directions (the music-theory meaning of 'degree'): degree(i,'a') = ascending()[i-1], degree(i,'d') = descending()[-i], for 1 <= i <= len-1; degree numbers outside that range and unknown directions are not judged",
    "equality 'follows the note lists': a == b iff both ascending and both descending lists (as the library returns them) are equal, a != b is its negation, len = length of the ascending list",
    "recognition compares *names*, not pitch classes (A major contains C#, not Db): only canonically spelled notes are given (the 21 names with <= 1 accidental, and the family scales' own canonical spellings incl. double accidentals), and a scale contains a given note iff that name is one of the scale's canonical note names; the result is compared as a set of scale names, the name of a (class, tonic) being the .name the library gives an instance of that class on that tonic; order and multiplicity of the returned list are not judged",
]

CANON1 = P.canon_names(1)


def make(inst):
    """inst = [cls, tonic_or_key, octaves] or ['Diatonic', tonic, octaves, [i, j]]"""
    cls = getattr(SC, inst[0])
    if inst[0] == "Diatonic":
        return cls(inst[1], tuple(inst[3]), inst[2])
    return cls(inst[1], inst[2])


def pattern_of(inst):
    if inst[0] == "Diatonic":
        return R.diatonic_pattern(tuple(inst[3]))
    return R.PATTERNS[inst[0]]


def tonic_name(inst):
    if inst[0] == "Chromatic":
        return R.capital(inst[1])
    return inst[1]


def _names_ok(lst):
    return isinstance(lst, list) and all(P.is_name(n) for n in lst)


def _lp(lst):
    return [(n[0], P.pc(n)) for n in lst]


# ---------------------------------------------------------------------------------------
def run_ascending(inst):
    S = engine.S
    sc = make(inst)
    asc = sc.ascending()
    S.trans(2)
    pat = pattern_of(inst)
    n = inst[2]
    tonic = tonic_name(inst)
    site = "%s(%s).ascending()" % (inst[0], ", ".join(repr(x) for x in inst[1:]))
    S.outcome((inst[0], tuple(asc) if isinstance(asc, list) else repr(asc)))
    if inst[0] in ("HarmonicMinor", "Octatonic") and n == 2:
        S.sample({"instance": inst, "ascending": asc})
    if not _names_ok(asc):
        S.problem(site, "a list of note names", asc)
        return
    if len(asc) != n * len(pat) + 1:
        S.problem(site + " length", n * len(pat) + 1, len(asc), detail=asc)
        return
    if asc[0] != tonic or asc[-1] != tonic:
        S.problem(site + " first/last", [tonic, tonic], [asc[0], asc[-1]], detail=asc)
    want = R.pcs(tonic, pat, n)
    got = [P.pc(x) for x in asc]
    if got != want:
        steps = [(b - a) % 12 for a, b in zip(got, got[1:])]
        S.problem(site + " semitone steps", pat * n, steps, detail=asc)
    if len(pat) == 7:
        letters = "".join(x[0] for x in asc)
        want_letters = "".join(P.letter_up(tonic[0], i) for i in range(len(asc)))
        if letters != want_letters:
            S.problem(site + " letters", want_letters, letters, detail=asc)
        S.count("heptatonic_ascending")
    else:
        S.count("non_heptatonic_ascending")
    if len(inst[1]) > 1:
        S.count("altered_tonics")


def run_descending(inst):
    S = engine.S
    sc = make(inst)
    asc = sc.ascending()
    desc = sc.descending()
    S.trans(3)
    n = inst[2]
    tonic = tonic_name(inst)
    cls = inst[0]
    site = "%s(%s).descending()" % (cls, ", ".join(repr(x) for x in inst[1:]))
    S.outcome((cls, tuple(desc) if isinstance(desc, list) else repr(desc)))
    if cls in R.DESCENDING_AS and n == 1:
        S.sample({"instance": inst, "descending": desc})
    if not _names_ok(desc) or not _names_ok(asc):
        S.problem(site, "a list of note names", desc)
        return
    if cls in R.DESCENDING_AS:
        up = R.spell_heptatonic(tonic, R.DESCENDING_AS[cls])
        want = list(reversed(up * n + [up[0]]))
        if _lp(desc) != _lp(want):
            S.problem(site, want, desc, detail="natural minor%s, downward" % (" with the lowered second" if cls == "MinorNeapolitan" else ""))
        if desc and (desc[0] != tonic or desc[-1] != tonic):
            S.problem(site + " first/last", [tonic, tonic], [desc[0], desc[-1]])
        S.count("special_descending_forms")
    elif cls == "Chromatic":
        want = list(reversed([P.pc(x) for x in asc]))
        got = [P.pc(x) for x in desc]
        if got != want:
            S.problem(site + " pitch classes", want, got, detail=desc)
        if desc and (desc[0] != tonic or desc[-1] != tonic):
            S.problem(site + " first/last", [tonic, tonic], [desc[0], desc[-1]])
        S.count("chromatic_descending")
        if desc != list(reversed(asc)):
            S.count("chromatic_descending_respelled")
    else:
        want = list(reversed(asc))
        if desc != want:
            S.problem(site, want, desc, detail="exact reverse of ascending()")
        S.count("mirror_descending_forms")


def run_degree(inst):
    S = engine.S
    sc = make(inst)
    asc = sc.ascending()
    desc = sc.descending()
    S.trans(3)
    if not (_names_ok(asc) and _names_ok(desc)) or len(asc) < 2 or len(desc) != len(asc):
        S.count("degree_skipped_lists_unusable")      # reported by the ascending/descending clauses
        return
    label = "%s(%s)" % (inst[0], ", ".join(repr(x) for x in inst[1:]))
    answers = []
    for i in range(1, len(asc)):
        for d in ("a", "d"):
            want = asc[i - 1] if d == "a" else desc[-i]
            S.trans(1)
            try:
                got = sc.degree(i, d)
            except Exception as e:                               # noqa -- no error is allowed here
                S.problem("%s.degree(%d, %r)" % (label, i, d), want, e, tags={"direction": d, "error": type(e).__name__})
                answers.append(type(e).__name__)
                continue
            answers.append(got)
            if got != want:
                S.problem("%s.degree(%d, %r)" % (label, i, d), want, got, tags={"direction": d})
            S.count("degree_lookups_" + ("ascending" if d == "a" else "descending"))
            if d == "d" and asc[i - 1] != desc[-i]:
                S.count("degree_lookups_where_directions_differ")
    # lookups the object refuses (whether and how it refuses them is not judged) must leave the object as it was
    for args in ((0,), (len(asc) + 5,), (len(asc) * 3, "d"), (1, "x"), (2, ""), (-1, "d")):
        try:
            sc.degree(*args)
        except Exception:                                        # noqa
            pass
    S.trans(10)
    fresh = make(inst)
    after = (sc.ascending(), sc.descending(), len(sc))
    if after != (asc, desc, len(asc)) or not (sc == fresh) or (sc != fresh):
        S.problem("%s after refused degree() lookups: ascending, descending, len, == a fresh equal scale" % label,
                  [asc, desc, len(asc), True], [after[0], after[1], after[2], sc == fresh])
    else:
        for i in (1, len(asc) - 1):
            for d in ("a", "d"):
                want = asc[i - 1] if d == "a" else desc[-i]
                try:
                    got = sc.degree(i, d)
                except Exception as e:                           # noqa
                    got = e
                if got != want:
                    S.problem("%s.degree(%d, %r) after refused lookups" % (label, i, d), want, got)
    S.outcome((inst[0], tuple(answers)))
    if inst[0] == "MelodicMinor" and inst[2] == 1:
        S.sample({"instance": inst, "degrees a/d interleaved": answers})


# ---------------------------------------------------------------------------------------
_LISTS = {}


def _lists(inst):
    """(ascending, descending) of an instance as the library returns them (harness-side memo of a
    pure function of the instance; the lists themselves are judged by the first two clauses)."""
    k = repr(inst)
    if k not in _LISTS:
        sc = make(inst)
        _LISTS[k] = (sc.ascending(), sc.descending())
    return _LISTS[k]


def run_len_eq(case):
    S = engine.S
    ia, ib = case
    a, b = make(ia), make(ib)
    la, lb = _lists(ia), _lists(ib)
    want = (la[0] == lb[0]) and (la[1] == lb[1])
    eq = (a == b)
    ne = (a != b)
    S.trans(2)
    if eq is not want:
        S.problem("%r == %r" % (ia, ib), want, eq)
    if ne is not (not want):
        S.problem("%r != %r" % (ia, ib), not want, ne)
    if ia == ib:
        S.trans(1)
        if len(a) != len(la[0]):
            S.problem("len(%r)" % (ia,), len(la[0]), len(a))
        S.count("len_checks")
    S.outcome((want, ia[0] == ib[0], ia[0] if want else None, ib[0] if want else None))
    if want and ia != ib:
        S.count("equal_pairs_of_different_instances")
        if ia[0] != ib[0] and ia[0] < ib[0] and ia[2] == 1:
            S.sample({"equal": [ia, ib]})
    elif not want:
        S.count("unequal_pairs")
        if la[0] == lb[0]:
            S.count("unequal_pairs_with_equal_ascending")


def eq_instances(tonics, octaves):
    out = []
    for t in tonics:
        for cls in R.FREE_TONIC:
            out.append([cls, t])
        for m in R.MODES:
            out.append(["Diatonic", t, tuple(k + 1 for k, s in enumerate(R.PATTERNS[m]) if s == 1)])
        for cls in R.MAJOR_FAMILY:
            if t in R.MAJOR_TONICS:
                out.append([cls, t])
        for cls in R.MINOR_FAMILY:
            if t in R.MINOR_TONICS:
                out.append([cls, t])
        for key in (t, t[0].lower() + t[1:]):
            if key in P.KEY_SIG:
                out.append(["Chromatic", key])
    res = []
    for x in out:
        for n in octaves:
            if x[0] == "Diatonic":
                res.append([x[0], x[1], n, list(x[2])])
            else:
                res.append([x[0], x[1], n])
    return res


# ---------------------------------------------------------------------------------------
_NAMES = {}


def _scale_name(cls, tonic):
    k = (cls, tonic)
    if k not in _NAMES:
        _NAMES[k] = getattr(SC, cls)(tonic).name
    return _NAMES[k]


def run_recognition(notes):
    S = engine.S
    want = set(_scale_name(cls, tonic) for cls, tonic in R.recognise(notes))
    S.trans(1)
    got = SC.determine(list(notes))
    if not isinstance(got, list) or not all(isinstance(x, str) for x in got):
        S.problem("scales.determine(%r)" % (notes,), sorted(want), got)
        return
    gs = set(got)
    if gs != want:
        S.problem("scales.determine(%r)" % (notes,), sorted(want), sorted(gs),
                  detail={"missing": sorted(want - gs), "unexpected": sorted(gs - want)})
    S.outcome(tuple(sorted(gs)))
    S.count("recognition_nonempty" if want else "recognition_empty")
    if len(want) == 1:
        S.count("recognition_unique")
        S.sample({"notes": notes, "determine": got})
    if len(notes) >= 2:
        # a note *set*: order and repetition of the given list are immaterial
        S.trans(1)
        again = SC.determine(list(reversed(notes)) + [notes[0]])
        if not isinstance(again, list) or set(again) != gs:
            S.problem("scales.determine(reversed %r + repeated first)" % (notes,), sorted(gs), again)
    # a note set may arrive in any iterable: a tuple, a set, an iterator that can be walked once, a generator
    for label, arg in (("tuple", tuple(notes)), ("set", set(notes)), ("iterator", iter(list(notes))), ("generator", (n for n in list(notes)))):
        S.trans(1)
        try:
            other = SC.determine(arg)
        except Exception as e:                                   # noqa
            other = e
        if not isinstance(other, list) or set(other) != want:
            S.problem("scales.determine(%s of %r)" % (label, notes), sorted(want), sorted(other) if isinstance(other, list) else other)
            break
    # the caller owns the answer: after it has edited the lists it was given, the same question gets the same answer
    got.append("Z bogus")
    del got[:max(0, len(got) - 1)]
    S.trans(1)
    third = SC.determine(list(notes))
    if not isinstance(third, list) or set(third) != want:
        S.problem("scales.determine(%r) asked again after the caller edited the list returned before" % (notes,), sorted(want),
                  sorted(third) if isinstance(third, list) else third)


def gen_recognition_subsets(shard):
    """all subsets of CANON(1) of the given size whose smallest member index is `first`"""
    size, first = shard
    if size == 0:
        yield []
        return
    rest = CANON1[first + 1:]
    for tail in itertools.combinations(rest, size - 1):
        yield [CANON1[first]] + list(tail)


def scale_derived_sets(max_deleted):
    seen = set()
    out = []

    def add(s):
        k = tuple(sorted(s))
        if k not in seen:
            seen.add(k)
            out.append(list(k))
    for cls, tonic, a, d in R.family_sets():
        for base in ([a] if a == d else [a, d]):
            base = sorted(base)
            for r in range(0, max_deleted + 1):
                for gone in itertools.combinations(range(len(base)), r):
                    add([x for i, x in enumerate(base) if i not in gone])
            for extra in CANON1:
                if extra not in base:
                    add(base + [extra])                      # one foreign note: a near miss
            for i in range(len(base)):                        # one note respelled enharmonically
                x = base[i]
                for y in CANON1:
                    if y != x and P.pc(y) == P.pc(x):
                        add(base[:i] + [y] + base[i + 1:])
    return out


# ---------------------------------------------------------------------------------------
# call_order: the answers do not depend on which form was asked first in a cold process
# ---------------------------------------------------------------------------------------
import importlib
from mingus.core import keys as _K


def _cold():
    """cold start of the key tables without naming them: re-execute mingus.core.keys"""
    importlib.reload(_K)


def run_call_order(inst):
    """From a cold start: ascending then descending; from another cold start: descending first, then ascending,
    then descending again and the plain major / natural minor scale on the same tonic.  A differential oracle: the
    ascending / descending clauses check the lists themselves."""
    S = engine.S
    label = "%s(%s)" % (inst[0], ", ".join(repr(x) for x in inst[1:]))
    _cold()
    sc = make(inst)
    a1 = list(sc.ascending())
    d1 = list(sc.descending())
    sib = None
    tonic = tonic_name(inst)
    for cls in ("NaturalMinor", "Major"):
        try:
            cand = make([cls, tonic if cls == "Major" else tonic, 1])
            sib_first = list(cand.ascending())
            sib = cls
            break
        except Exception:                              # noqa -- tonic not valid for that class
            continue
    _cold()
    sc = make(inst)
    d2 = list(sc.descending())
    a2 = list(sc.ascending())
    d3 = list(sc.descending())
    fresh = make(inst)
    d4 = list(fresh.descending())
    S.trans(8)
    if d2 != d1:
        S.problem(label + ".descending() asked first in a cold process", d1, d2, detail="differs from the answer given after ascending()")
    if a2 != a1:
        S.problem(label + ".ascending() asked after descending() in a cold process", a1, a2)
    if d3 != d1 or d4 != d1:
        S.problem(label + ".descending() asked again", d1, d3 if d3 != d1 else d4)
    if sib is not None:
        again = list(make([sib, tonic, 1]).ascending())
        if again != sib_first:
            S.problem("%s(%r).ascending() after %s was asked for its descending form first" % (sib, tonic, label), sib_first, again)
    # from further cold starts: the natural minor scales on every note of the scale are asked first (its relative minor
    # among them); then the same with the major scales; then with both
    for warm in (("NaturalMinor",), ("Major",), ("Major", "NaturalMinor")):
        _cold()
        for cls in warm:
            for n in a1[:-1]:
                try:
                    sc0 = make([cls, n, 1])
                    sc0.ascending()
                    sc0.descending()
                except Exception:                              # noqa -- tonic not valid for that class
                    pass
        late = make(inst)
        a5, d5 = list(late.ascending()), list(late.descending())
        S.trans(16 * len(warm) + 2)
        if a5 != a1 or d5 != d1:
            S.problem(label + " after the %s scales on each of its notes were asked in a cold process" % " and ".join(warm), [a1, d1], [a5, d5])
            break
    S.outcome((inst[0], tuple(d1) == tuple(reversed(a1))))
    S.count("call_orders_checked")


def run_respan(inst):
    """One object is asked everything, its public `octaves` (and back) is changed in place, and it is asked again:
    every answer is the one a scale built afresh with the new span gives."""
    S = engine.S
    label = "%s(%s)" % (inst[0], ", ".join(repr(x) for x in inst[1:]))
    sc = make(inst)
    for step, n in enumerate([inst[2], inst[2] + 1, inst[2], inst[2] + 2, 1]):
        if step:
            sc.octaves = n
        fresh = make(inst[:2] + [n] + inst[3:])
        other = make(inst[:2] + [n + 1] + inst[3:])
        fa, fd = list(fresh.ascending()), list(fresh.descending())
        got = [list(sc.ascending()), list(sc.descending()), len(sc), sc == fresh, sc != fresh, fresh == sc, sc == other, other == sc, sc != other]
        want = [fa, fd, len(fa), True, False, True, False, False, True]
        S.trans(12)
        if got != want:
            bad = [i for i in range(len(want)) if got[i] != want[i]][0]
            S.problem("%s after its octaves attribute was set to %r (step %d): %s" % (
                label, n, step, ["ascending()", "descending()", "len()", "== a fresh scale of that span", "!= a fresh scale of that span",
                                 "a fresh scale of that span == it", "== a scale one octave longer", "a scale one octave longer == it", "!= a scale one octave longer"][bad]),
                want[bad], got[bad])
            return
    S.outcome((inst[0], len(sc)))
    S.count("respanned_objects")


CLAUSES = {
    "respan": run_respan,
    "call_order": run_call_order,
    "ascending": run_ascending,
    "descending": run_descending,
    "degree": run_degree,
    "len_eq": run_len_eq,
    "recognition": run_recognition,
}


def instances(k, octaves):
    """shards: one per (class[, semitone pair]); each yields [cls, tonic, n(, pair)]"""
    free = P.names(k)
    shards = []
    for cls in R.ALL17:
        vt = R.valid_tonics(cls)
        shards.append((cls, None, vt if vt is not None else free))
    for pair in R.DIATONIC_PAIRS:
        shards.append(("Diatonic", pair, free))
    return shards


def gen_instances(shard):
    cls, pair, tonics, octaves = shard
    for t in tonics:
        for n in octaves:
            yield [cls, t, n] if pair is None else [cls, t, n, list(pair)]


def explore(ctx):
    k = ctx.pick(2, 4)
    octs = ctx.pick([1, 2], [1, 2, 3, 4])
    ctx.bound("free_tonics", "NAMES(%d) = %d spellings" % (k, len(P.names(k))))
    ctx.bound("octave_counts", octs)
    ctx.bound("classes", R.ALL17 + ["Diatonic x %d semitone-position pairs" % len(R.DIATONIC_PAIRS)])
    shards = [(c, p, t, octs) for c, p, t in instances(k, octs)]
    for clause in ("ascending", "descending", "degree"):
        if ctx.want(clause):
            ctx.product(clause, shards, gen_instances)
            if ctx.quick:
                # three and four octaves on the tonics with at most one accidental ("the pattern repeated n times")
                ctx.product(clause, [(c, p, [x for x in t if len(x) <= 2], [3, 4]) for c, p, t in instances(k, [3, 4])], gen_instances)
    if ctx.want("call_order"):
        ctx.product("call_order", [(c, p, t, [1]) for c, p, t in instances(k, [1])], gen_instances)
    if ctx.want("respan"):
        ctx.product("respan", [(c, p, [x for x in t if len(x) <= 2], [1, 2]) for c, p, t in instances(k, [1, 2])], gen_instances)
    if ctx.want("len_eq"):
        tonics = ctx.pick(["C", "A", "Bb", "F#", "Eb", "B"],
                          ["C", "C#", "Db", "D", "Eb", "E", "F", "F#", "G", "Ab", "A", "Bb", "B"])
        pool = eq_instances(tonics, [1, 2])
        ctx.bound("equality_pool", {"tonics": tonics, "octaves": [1, 2], "instances": len(pool), "ordered_pairs": len(pool) ** 2})
        ctx.product("len_eq", list(range(len(pool))), lambda i: ([pool[i], b] for b in pool))
    if ctx.want("recognition"):
        maxsize = ctx.pick(3, 6)
        maxdel = ctx.pick(2, 3)
        ctx.bound("recognition_subsets", "every subset of CANON(1) (21 names) of size <= %d" % maxsize)
        ctx.bound("recognition_scale_derived", "105 family scales (ascending and descending sets): <= %d notes deleted, one foreign CANON(1) note added, one note respelled" % maxdel)
        sub_shards = [(0, 0)] + [(s, f) for s in range(1, maxsize + 1) for f in range(len(CANON1) - s + 1)]
        ctx.product("recognition", sub_shards, gen_recognition_subsets)
        derived = scale_derived_sets(maxdel)
        nsh = 24
        ctx.product("recognition", list(range(nsh)), lambda i: derived[i::nsh])
        # names that no scale holds (and names of three accidentals): alone, and added to notes that many scales hold
        strangers = ["D##", "A##", "E##", "B##", "Cbb", "Dbb", "Fbb", "Gbb", "F##", "Bbb", "C###", "Gbbb"]
        ctx.bound("recognition_strangers", strangers)
        ctx.serial("recognition", [x for st in strangers for x in ([st], ["C", st], ["C", "E", "G", st], [st, "F#", "A#", "C#"], [st, st])])
    if not ctx.only:
        ctx.guard("heptatonic ascending forms", ctx.counter("heptatonic_ascending"), 2000)
        ctx.guard("non-heptatonic ascending forms", ctx.counter("non_heptatonic_ascending"), 200)
        ctx.guard("tonics with accidentals", ctx.counter("altered_tonics"), 2000)
        ctx.guard("mirror descending forms", ctx.counter("mirror_descending_forms"), 2000)
        ctx.guard("melodic minor / Neapolitan descending forms", ctx.counter("special_descending_forms"), 60)
        ctx.guard("chromatic descending forms", ctx.counter("chromatic_descending"), 60)
        ctx.guard("degree lookups ascending", ctx.counter("degree_lookups_ascending"), 10000)
        ctx.guard("degree lookups descending", ctx.counter("degree_lookups_descending"), 10000)
        ctx.guard("degree lookups where the two directions differ", ctx.counter("degree_lookups_where_directions_differ"), 100)
        ctx.guard("equal pairs of different instances", ctx.counter("equal_pairs_of_different_instances"), 50)
        ctx.guard("unequal pairs", ctx.counter("unequal_pairs"), 10000)
        ctx.guard("unequal pairs with equal ascending lists", ctx.counter("unequal_pairs_with_equal_ascending"), 10)
        ctx.guard("len checks", ctx.counter("len_checks"), 100)
        ctx.guard("recognition: non-empty answers", ctx.counter("recognition_nonempty"), 1000)
        ctx.guard("recognition: empty answers", ctx.counter("recognition_empty"), 500)
        ctx.guard("recognition: unique answers", ctx.counter("recognition_unique"), 50)
    if ctx.counter("degree_skipped_lists_unusable"):
        ctx.note("%d instances had unusable ascending/descending lists; their degree lookups were not judged" % ctx.counter("degree_skipped_lists_unusable"))


# Predicates for the case that the F05 defect is recorded as a known finding instead of being
# repaired by fixes_proposed/c05_degree_descending.diff (no entry is proposed: the fix is one line).
KNOWN = {
    "degree_descending_raises_typeerror": lambda rec: rec["clause"] == "degree" and rec["site"].endswith(", 'd')")
    and str(rec["observed"]).startswith("TypeError: 'list_reverseiterator' object is not subscriptable"),
}
