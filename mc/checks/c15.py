# -*- coding: utf-8 -*-
"""C15 -- no hidden shared state (DESIGN.md section 4, C15).

Four sub-explorations, one evidence file:

memo       bfs over the *module state* (deep snapshot of every module-level data attribute, class
           attribute and mutable default argument of the eight theory modules and extra.fft, found
           by introspection) under an alphabet of public API calls, each "plain" and "then scribble
           over the returned value"; in every reached state a fixed battery of queries must return
           what a cold interpreter returned.
arguments  every public callable x representative arguments: no list/dict argument is modified.
instances  every class in scope: all operation scripts of length <= 2 on one instance leave a
           sibling, the class defaults and a later-created third instance unchanged.
copies     Note(n) / NoteContainer(nc) / NoteContainer().add_notes(nc) / NoteContainer() + nc: scripts on the copy leave the original unchanged and
           vice versa.
fft        bfs over the lookup cursor of extra.fft._find_log_index: every lookup in every
           reachable cursor state returns what a cold interpreter returns for that input.

The *cold interpreter* is a freshly spawned subprocess (mc/checks/c15_cold.py), re-run on every
invocation; each reference answer is computed in a fork()ed copy of that pristine interpreter, so
it is the answer to the very first library call of an interpreter.
"""
from __future__ import annotations

import atexit
import copy
import hashlib
import itertools
import json
import os
import shutil
import subprocess
import sys
import tempfile

from mc import engine
from mc.engine import BfsSpec
from mc.checks import c15_cold as cold
from mc.checks.c15_cold import render, rkey, qkey, call_query, dearg, StateSpace

# the state spaces must be created before anything below makes a library call
SPACE = StateSpace(cold.STATE_MODULES)
FFT_SPACE = StateSpace(["mingus.extra.fft"])

from mc.checks import c15_api as api                                   # noqa: E402

# class-level state of the container / MIDI classes (class attributes, module data, mutable defaults): restored
# before every arguments / instances / copies case, so that a class-level leak found by one case cannot colour
# the next one.  (extra.tunings is left out: its only module state is the tuning registry, which no operation in
# the alphabets writes -- add_tuning is excluded -- and which holds several hundred objects.)
CLS_SPACE = StateSpace(["mingus.containers.note", "mingus.containers.note_container", "mingus.containers.bar",
                        "mingus.containers.track", "mingus.containers.composition", "mingus.containers.suite",
                        "mingus.containers.instrument", "mingus.midi.midi_track", "mingus.midi.midi_file_out",
                        "mingus.midi.midi_file_in", "mingus.midi.sequencer", "mingus.midi.sequencer_observer"])

PROPERTY = "C15"
RULE = ("memo/fft: bfs over the module state (canonical form of every module-level data attribute) under "
        "API-call alphabets, one battery evaluation per distinct state; arguments/instances/copies: one case per "
        "(callable, argument assignment) resp. per operation script; distinct_nontrivial = distinct observed "
        "outcome keys (set of warm memo entries / cursor position / (callable, raised?) / script effect on the "
        "operated instance)")
ASSUMPTIONS = [
    "'the theory modules' = mingus.core.{notes,intervals,keys,chords,progressions,scales,value,meter}; the frequency "
    "lookup is mingus.extra.fft._find_log_index (reached publicly through find_notes); the tuning registry of "
    "extra.tunings (get_tuning returns the registered object by design) is not a theory-module query",
    "the reference for 'returns the same value' is the answer of a cold interpreter (first call of a fresh process); "
    "values are compared by exact structure (list/tuple and int/float distinguished, floats bit-exact), exceptions by "
    "type and message -- a query that raises cold must raise the same way warm",
    "reading a public module attribute (keys.major_keys, chords.chord_shorthand, ...) is treated as a query whose "
    "value must stay what it was cold; a caller writing *into* such a public table is outside the statement (only "
    "lists returned by calls are scribbled on)",
    "'modifies the lists or dictionaries passed to it': the list/dict structure (nested lists, tuples, dicts, atoms) "
    "must be unchanged and must still hold the same element objects; a change of the *state of a library object "
    "stored in* the list is only counted (arg_element_state_changed), not flagged",
    "'modifying a returned list never changes what any later call returns' is read within its sentence: the returned "
    "values of theory-module queries.  A container method that hands back the container's own list (NoteContainer."
    "add_notes returns self.notes, Bar.empty returns self.bar) exposes that object's state by design and is not judged",
    "parameters the documentation reserves for the library's own recursion (chords.from_shorthand 'slash') are not "
    "caller-facing and are not passed",
    "'operating on' an object = calling its public methods and container operators with fresh caller-owned arguments; "
    "direct writes into an attribute (c.selected_tracks.append) are not operations; independence is judged on "
    "everything observable on the sibling: vars(), every public non-callable attribute (class-level fall-backs "
    "included), the class dictionaries along the MRO, and a third instance created afterwards",
    "'any container, MIDI-writer or sequencer class' = every class of mingus.containers (Instrument family included), "
    "midi_track.MidiTrack, midi_file_out.MidiFile, Sequencer, SequencerObserver; keys.Key, tunings.StringTuning, the MIDI "
    "reader's MidiFile and the scale classes are explored too but a dependence there is only counted, not judged",
    "'a copy of a note or container built from another' = Note(n) and NoteContainer(nc); a Bar/Track/Composition "
    "holding the very container it was given is containment, not a copy, and is not judged",
    "an operation that raises still counts as an operation (the sibling must be untouched); which operations raise "
    "is not judged here",
    "fft: the statement demands history independence, so the oracle is 'equals the cold answer for that input'; "
    "agreement of the cold answer with the bisect specification is only counted (fft_cold_matches_bisect)",
]

CORE = "mingus.core."


# ---------------------------------------------------------------------------------------
# temp files (MIDI writer / reader operations)
# ---------------------------------------------------------------------------------------
def ensure_tmp():
    if api.TMP["dir"] is None or api.TMP.get("pid") != os.getpid() and not os.path.isdir(api.TMP["dir"]):
        d = tempfile.mkdtemp(prefix="c15_")
        api.TMP["dir"] = d
        api.TMP["pid"] = os.getpid()
        path = os.path.join(d, "in.mid")
        with open(path, "wb") as f:
            f.write(api.midi_bytes())
        api.TMP["midi"] = path
        atexit.register(shutil.rmtree, d, True)
    return api.TMP["dir"]


# ---------------------------------------------------------------------------------------
# queries
# ---------------------------------------------------------------------------------------
def Q(mod, f, *a, **kw):
    q = {"k": "call", "m": (mod if "." in mod else CORE + mod), "f": f, "a": list(a)}
    if kw:
        q["kw"] = kw
    return q


def M(cls, cargs, f, *a):
    return {"k": "meth", "m": CORE + "scales", "c": cls, "ca": list(cargs), "f": f, "a": list(a)}


def T(*items):
    return {"t": list(items)}


def FL(x):
    return {"hex": float(x).hex()}


ACCESSORS = ["tonic", "tonic7", "supertonic", "supertonic7", "mediant", "mediant7", "subdominant", "subdominant7",
             "dominant", "dominant7", "submediant", "submediant7", "subtonic", "subtonic7",
             "I", "I7", "ii", "II", "ii7", "II7", "iii", "III", "iii7", "III7", "IV", "IV7", "V", "V7",
             "vi", "VI", "vi7", "VI7", "vii", "VII", "vii7", "VII7"]
DIATONIC = ["second", "third", "fourth", "fifth", "sixth", "seventh"]
ABSOLUTE = ["minor_unison", "major_unison", "augmented_unison", "minor_second", "major_second", "minor_third",
            "major_third", "minor_fourth", "major_fourth", "perfect_fourth", "minor_fifth", "major_fifth",
            "perfect_fifth", "minor_sixth", "major_sixth", "minor_seventh", "major_seventh"]
SCALE_CLASSES = ["Ionian", "Dorian", "Phrygian", "Lydian", "Mixolydian", "Aeolian", "Locrian", "Major",
                 "HarmonicMajor", "NaturalMinor", "HarmonicMinor", "MelodicMinor", "Bachian", "MinorNeapolitan",
                 "Chromatic", "WholeTone", "Octatonic"]
FREQ_TABLE = [T(FL(440.0), FL(1.0)), T(FL(880.0), FL(0.5)), T(FL(27.5), FL(0.25)), T(FL(20000.0), FL(0.125)),
              T(FL(8000.0), FL(2.0)), T(FL(8001.0), FL(1.0)), T(FL(261.6), FL(1.0))]


def _lib(name):
    return cold._module(name)


def all_keys():
    k = SPACE.cold[("mod", CORE + "keys", "keys")]
    return [c[0] for c in k] + [c[1] for c in k]


def shorthands():
    return sorted(SPACE.cold[("mod", CORE + "chords", "chord_shorthand")].keys())


def public_attrs():
    out = []
    for slot in sorted(SPACE.cold):
        if slot[0] == "mod" and not slot[2].startswith("_"):
            out.append({"k": "attr", "m": slot[1], "n": slot[2]})
    return out


_BATTERY = None


def battery():
    """The fixed battery (order matters and is fixed: the battery is itself a history)."""
    global _BATTERY
    if _BATTERY is not None:
        return _BATTERY
    b = []
    for k in all_keys():
        b += [Q("keys", "get_notes", k), Q("chords", "triads", k), Q("chords", "sevenths", k)]
    for k in ["C", "eb", "F#"]:
        for acc in ACCESSORS:
            if hasattr(_lib(CORE + "chords"), acc):
                b.append(Q("chords", acc, k))
    b += [Q("keys", "get_key", i) for i in range(-7, 8)] + [Q("keys", "get_key", 8)]
    for k in ["C", "a", "Gb", "d#", "E", "g"]:
        b += [Q("keys", "get_key_signature", k), Q("keys", "get_key_signature_accidentals", k)]
    b += [Q("keys", "relative_major", "a"), Q("keys", "relative_minor", "C"), Q("keys", "relative_minor", "a"),
          Q("keys", "is_valid_key", "C"), Q("keys", "is_valid_key", "X"), Q("keys", "get_notes", "X"),
          Q("keys", "Key", "C"), Q("keys", "Key", "f#")]
    for f in DIATONIC:
        b += [Q("intervals", f, "E", "C"), Q("intervals", f, "F#", "G"), Q("intervals", f, "Bb", "eb")]
    b += [Q("intervals", "unison", "C"), Q("intervals", "unison", "A"), Q("intervals", "interval", "C", "D", 1),
          Q("intervals", "interval", "Eb", "G", 4), Q("intervals", "get_interval", "C", 3),
          Q("intervals", "get_interval", "E", 7, "G")]
    for f in ABSOLUTE:
        b += [Q("intervals", f, "C"), Q("intervals", f, "F#"), Q("intervals", f, "Bb")]
    for a_, b_ in [("C", "E"), ("C", "Eb"), ("C", "G"), ("C", "C##"), ("E", "C"), ("C", "F"), ("C", "F#"), ("B", "F")]:
        b += [Q("intervals", "measure", a_, b_), Q("intervals", "determine", a_, b_), Q("intervals", "determine", a_, b_, True),
              Q("intervals", "is_consonant", a_, b_), Q("intervals", "is_consonant", a_, b_, False),
              Q("intervals", "is_perfect_consonant", a_, b_), Q("intervals", "is_imperfect_consonant", a_, b_),
              Q("intervals", "is_dissonant", a_, b_), Q("intervals", "is_dissonant", a_, b_, True)]
    b += [Q("intervals", "from_shorthand", "A", "b3"), Q("intervals", "from_shorthand", "E", "2", False),
          Q("intervals", "from_shorthand", "C", "#4"), Q("intervals", "from_shorthand", "H", "3"),
          Q("intervals", "invert", ["C", "E"]), Q("intervals", "invert", ["C", "E", "G"])]
    for sh in shorthands():
        b += [Q("chords", "from_shorthand", "C" + sh), Q("chords", "from_shorthand", "F#" + sh)]
    b += [Q("chords", "from_shorthand", "Am/G"), Q("chords", "from_shorthand", "Dm|G"), Q("chords", "from_shorthand", "NC"),
          Q("chords", "from_shorthand", ["Amin7", "G7"]), Q("chords", "from_shorthand", "Cxyz"),
          Q("chords", "from_shorthand", "Hm"), Q("chords", "triad", "E", "C"), Q("chords", "seventh", "E", "C"),
          Q("chords", "triad", "F#", "G"), Q("chords", "seventh", "Ab", "eb")]
    for ch in [["C", "E", "G"], ["E", "G", "C"], ["C", "E", "G", "B"], ["C", "E", "G", "Bb"], ["C", "E", "G", "B", "D"],
               ["C", "E", "G", "Bb", "D", "F"], ["C", "E", "G", "Bb", "D", "F", "A"], [], ["C"], ["C", "E"],
               ["A", "C", "E"], ["D", "F#", "A", "C", "E", "G", "B", "D#"]]:
        b += [Q("chords", "determine", ch), Q("chords", "determine", ch, True)]
    b += [Q("chords", "invert", ["C", "E", "G"]), Q("chords", "first_inversion", ["C", "E", "G"]),
          Q("chords", "second_inversion", ["C", "E", "G"]), Q("chords", "third_inversion", ["C", "E", "G", "B"]),
          Q("chords", "int_desc", 3), Q("chords", "determine_triad", ["A", "C", "E"], True),
          Q("chords", "determine_polychords", ["C", "E", "G", "B", "D", "F#"])]
    b += [Q("progressions", "to_chords", ["I", "V7"], "C"), Q("progressions", "to_chords", "I7", "C"),
          Q("progressions", "to_chords", ["bIV", "#I", "IIm6", "VIIdim7", "Idom7"], "G"),
          Q("progressions", "to_chords", "X", "C"), Q("progressions", "to_chords", ["I", "X"], "C")]
    for k in ["C", "G", "a", "Eb", "f#", "Cb"]:
        b += [Q("progressions", "to_chords", ["I", "IV", "V", "VI7", "vii"], k), Q("progressions", "to_chords", "I", k)]
    b += [Q("progressions", "determine", ["C", "E", "G"], "C"), Q("progressions", "determine", ["G", "B", "D", "F"], "C", True),
          Q("progressions", "determine", [["C", "E", "G"], ["G", "B", "D"]], "C", True),
          Q("progressions", "determine", ["C", "E", "G"], "G", True), Q("progressions", "determine", ["Db", "F", "Ab"], "C", True),
          Q("progressions", "parse_string", "bIM7"), Q("progressions", "tuple_to_string", T("I", -1, "M7")),
          Q("progressions", "skip", "VII", 2), Q("progressions", "interval_diff", "I", "V", 7),
          Q("progressions", "substitute", ["I", "IV", "V", "I"], 0), Q("progressions", "substitute", ["I", "IV", "V", "I"], 0, 1),
          Q("progressions", "substitute", ["Im7"], 0), Q("progressions", "substitute", ["VIIdim7"], 0, 1),
          Q("progressions", "substitute_harmonic", ["I", "IV"], 1), Q("progressions", "substitute_harmonic", ["Im"], 0, True),
          Q("progressions", "substitute_minor_for_major", ["VI"], 0), Q("progressions", "substitute_major_for_minor", ["VM7"], 0),
          Q("progressions", "substitute_diminished_for_diminished", ["VII"], 0),
          Q("progressions", "substitute_diminished_for_dominant", ["VIIdim"], 0)]
    for c in SCALE_CLASSES:
        if hasattr(_lib(CORE + "scales"), c):
            b += [M(c, ["C"], "ascending"), M(c, ["C"], "descending")]
    b += [M("Diatonic", ["C", T(3, 7)], "ascending"), M("Diatonic", ["C", T(3, 7), 2], "ascending"), M("Ionian", ["C", 2], "ascending"),
          M("Dorian", ["D"], "descending"), M("Major", ["G", 2], "ascending"), M("NaturalMinor", ["F#"], "descending"),
          M("Chromatic", ["f"], "descending"), M("Major", ["C"], "degree", 3), M("Major", ["C"], "degree", 3, "d"),
          M("Major", ["C"], "__len__"), M("Major", ["c"], "ascending"),
          Q("scales", "determine", ["A", "Bb", "E", "F#", "G"]), Q("scales", "determine", ["C", "E", "G"]),
          Q("scales", "determine", ["C", "D", "E", "F", "G", "A", "B"])]
    b += [Q("notes", "int_to_note", i) for i in (0, 1, 6, 11, 12)] + [
        Q("notes", "int_to_note", 3, "b"), Q("notes", "int_to_note", 3, "x"), Q("notes", "note_to_int", "C#"),
        Q("notes", "note_to_int", "Cbb"), Q("notes", "note_to_int", "H"), Q("notes", "is_valid_note", "C#"),
        Q("notes", "is_valid_note", "H"), Q("notes", "augment", "C"), Q("notes", "augment", "Cb"), Q("notes", "diminish", "C#"),
        Q("notes", "diminish", "C"), Q("notes", "reduce_accidentals", "C####"), Q("notes", "reduce_accidentals", "Fbb"),
        Q("notes", "remove_redundant_accidentals", "C##b"), Q("notes", "is_enharmonic", "C#", "Db"),
        Q("notes", "is_enharmonic", "C", "D")]
    b += [Q("value", "determine", v) for v in (4, 6, 7, 12, 1.5, 0.5, 16)] + [
        Q("value", "dots", 4, 1), Q("value", "dots", 8, 2), Q("value", "triplet", 4), Q("value", "quintuplet", 8),
        Q("value", "septuplet", 8), Q("value", "septuplet", 8, False), Q("value", "tuplet", 4, 3, 2),
        Q("value", "add", 4, 4), Q("value", "subtract", 4, 8), Q("value", "add", 8, 16)]
    b += [Q("meter", "is_valid", T(4, 4)), Q("meter", "is_valid", T(3, 5)), Q("meter", "is_compound", T(6, 8)),
          Q("meter", "is_simple", T(4, 4)), Q("meter", "is_asymmetrical", T(5, 4)), Q("meter", "valid_beat_duration", 4),
          Q("meter", "valid_beat_duration", 3)]
    for f in (440.0, 27.5, 20000.0, -1.0, 8000.0, 440.0):
        b.append(Q("mingus.extra.fft", "_find_log_index", FL(f)))
    b.append(Q("mingus.extra.fft", "find_notes", FREQ_TABLE))
    b += public_attrs()
    _BATTERY = b
    return b


def memo_actions(keys, with_fft):
    """Action queries of the memo bfs; the variant list is derived from the cold answer's type."""
    qs = []
    for k in keys:
        qs += [Q("keys", "get_notes", k), Q("chords", "triads", k), Q("chords", "sevenths", k)]
    k0 = keys[0]
    for acc in ACCESSORS:
        if hasattr(_lib(CORE + "chords"), acc):
            qs.append(Q("chords", acc, k0))
    for k in keys[1:]:
        qs += [Q("chords", "tonic", k), Q("chords", "dominant7", k), Q("chords", "V", k), Q("chords", "ii7", k)]
    for k in keys:
        qs += [Q("progressions", "to_chords", ["I", "V7"], k), Q("progressions", "to_chords", "IV", k)]
    qs += [Q("progressions", "to_chords", ["bII", "IIm6", "VII7"], k0),
           Q("progressions", "determine", ["C", "E", "G"], k0), Q("progressions", "determine", [["C", "E", "G"], ["G", "B", "D", "F"]], k0, True),
           Q("progressions", "substitute", ["I", "IV", "V", "I"], 0), Q("progressions", "substitute", ["I", "IV", "V", "I"], 0, 1),
           Q("progressions", "substitute_harmonic", ["I", "IV"], 1), Q("progressions", "substitute_minor_for_major", ["VI"], 0),
           Q("progressions", "substitute_major_for_minor", ["VM7"], 0), Q("progressions", "substitute_diminished_for_diminished", ["VII"], 0),
           Q("progressions", "substitute_diminished_for_dominant", ["VIIdim"], 0),
           Q("progressions", "parse_string", "bIM7"), Q("progressions", "tuple_to_string", T("I", -1, "M7"))]
    for k in keys[:2]:
        kk = k.upper() if len(k) == 1 else k[0].upper() + k[1:]
        qs += [M("Major", [kk], "ascending"), M("NaturalMinor", [kk], "descending"), M("Chromatic", [k], "ascending"),
               M("HarmonicMinor", [kk], "ascending"), M("Major", [kk, 2], "descending")]
    qs += [Q("scales", "determine", ["C", "E", "G", "B"])]
    # the same scale over one and over two octaves, and the classes derived from Diatonic on the same tonic
    qs += [M("Diatonic", ["C", T(3, 7), 2], "ascending"), M("Diatonic", ["C", T(3, 7)], "ascending"), M("Ionian", ["C"], "ascending"),
           M("Ionian", ["C", 2], "descending"), M("Dorian", ["D", 2], "ascending"), M("Dorian", ["D"], "ascending"),
           M("Diatonic", ["C", T(2, 6)], "ascending")]
    # the "no chord" answers (empty lists: easily one shared object)
    qs += [Q("chords", "from_shorthand", "NC"), Q("chords", "from_shorthand", "N.C."), Q("chords", "determine", []),
           Q("chords", "from_shorthand", ["C", "NC"]), Q("progressions", "to_chords", "VIII", k0), Q("scales", "determine", ["C", "C#", "D", "D#", "E", "F", "F#", "G"])]
    # questions that are refused (a key that does not exist): refused the same way however often and whatever came before
    qs += [Q("keys", "get_notes", "G#"), Q("chords", "triads", "G#"), Q("keys", "get_key_signature", "G#"), Q("intervals", "third", "C", "G#"),
           Q("progressions", "to_chords", "I", "G#"), Q("keys", "get_notes", "H")]
    # pairs of questions whose arguments concatenate to the same text ('A' + '#3' and 'A#' + '3')
    qs += [Q("intervals", "from_shorthand", "A", "#3", False), Q("intervals", "from_shorthand", "A#", "3", False),
           Q("intervals", "from_shorthand", "C", "b3"), Q("intervals", "from_shorthand", "Cb", "3"),
           Q("intervals", "determine", "Cb", "B"), Q("intervals", "determine", "C", "bB")]
    qs += [Q("intervals", "third", "E", k0), Q("intervals", "interval", k0, "D", 4), Q("intervals", "unison", keys[1].upper()[0]),
           Q("intervals", "major_third", "E"), Q("intervals", "minor_seventh", "Bb"), Q("intervals", "invert", ["C", "E", "G"]),
           Q("intervals", "determine", "C", "G#"), Q("intervals", "from_shorthand", "A", "b3"), Q("intervals", "measure", "C", "E"),
           Q("intervals", "is_consonant", "C", "F", False), Q("intervals", "get_interval", "C", 3, keys[1] if keys[1][0].isupper() else "G")]
    qs += [Q("chords", "from_shorthand", "Cm7"), Q("chords", "from_shorthand", ["Am/G", "Dm|G"]), Q("chords", "determine", ["C", "E", "G", "B"]),
           Q("chords", "determine", ["E", "G", "C"], True), Q("chords", "invert", ["C", "E", "G"]), Q("chords", "triad", "E", k0),
           Q("chords", "seventh", "D", k0), Q("chords", "major_seventh", "C"), Q("chords", "dominant_flat_five", "C")]
    qs += [Q("keys", "get_key", 2), Q("keys", "get_key_signature_accidentals", "Eb"), Q("keys", "relative_minor", "C"),
           Q("keys", "Key", "C")]
    qs += [Q("notes", "int_to_note", 3), Q("notes", "reduce_accidentals", "C####"), Q("notes", "augment", "Cb"),
           Q("value", "determine", 6), Q("value", "dots", 4, 2), Q("meter", "is_valid", T(6, 8)), Q("meter", "valid_beat_duration", 4)]
    if with_fft:
        qs += [Q("mingus.extra.fft", "_find_log_index", FL(440.0)), Q("mingus.extra.fft", "find_notes", FREQ_TABLE)]
    out, seen = [], set()
    for q in qs:
        if qkey(q) not in seen:
            seen.add(qkey(q))
            out.append(q)
    return out


def to_json_arg(v):
    if isinstance(v, tuple):
        return {"t": [to_json_arg(i) for i in v]}
    if isinstance(v, list):
        return [to_json_arg(i) for i in v]
    if isinstance(v, dict):
        return {"d": [[to_json_arg(k), to_json_arg(x)] for k, x in v.items()]}
    if isinstance(v, float):
        return FL(v)
    if v is None or isinstance(v, (bool, int, str)):
        return v
    raise engine.HarnessError("argument %r cannot be sent to the cold interpreter" % (v,))


def broad_queries():
    """Every public function of the eight theory modules and every method of every scale class, each with the
    representative (default) arguments of the C15 argument table -- generated from dir(), so a new public function
    is part of the alphabet automatically."""
    qs = []
    for (on, cname), entry in sorted(catalogue().items()):
        ow = entry["owner"]
        if ow.kind == "module" and on.startswith("core."):
            given = []
            for pname, fac, kind in entry["params"]:
                if kind != "given":
                    break                          # reserved trailing parameter: not passed
                given.append(fac())
            qs.append(Q(on[len("core."):], cname, *[to_json_arg(alts[0]) for alts in given]))
            # the same question with one optional flag flipped, asked about the default and about the second
            # (richer) alternative of the leading argument: a memo whose key leaves a flag out answers one of
            # these with the other's result
            # every other alternative of every parameter, one at a time
            for i, alts in enumerate(given):
                for j in range(1, len(alts)):
                    args = [to_json_arg(a[0]) for a in given]
                    args[i] = to_json_arg(alts[j])
                    qs.append(Q(on[len("core."):], cname, *args))
            flags = [i for i, alts in enumerate(given) if i > 0 and len(alts) > 1 and all(isinstance(a, bool) for a in alts)]
            if flags:
                for lead in range(min(2, len(given[0]))):
                    for i in [None] + flags:
                        if lead == 0 and i is None:
                            continue
                        args = [to_json_arg(alts[0]) for alts in given]
                        args[0] = to_json_arg(given[0][lead])
                        if i is not None:
                            args[i] = to_json_arg(given[i][1])
                        qs.append(Q(on[len("core."):], cname, *args))
        elif ow.kind == "class" and ow.pool == "scale" and not cname.startswith("__"):
            cargs = ["C", T(3, 7)] if on == "Diatonic" else ["C"]
            args = [to_json_arg(fac()[0]) for pname, fac, kind in entry["params"] if kind == "given"]
            qs.append(M(on, cargs, cname, *args))
    return qs


def _has_mutable(r):
    """does a *rendered* value contain a list or dict?"""
    if isinstance(r, list):
        return r[0] in ("L", "D") or any(_has_mutable(i) for i in r[1:])
    if isinstance(r, dict) and "v" in r:
        return any(_has_mutable(v) for _, v in r["v"])
    return False


# ---------------------------------------------------------------------------------------
# the cold interpreter's answers
# ---------------------------------------------------------------------------------------
KEYS_Q = ["C", "G", "a"]
KEYS_T = ["C", "G", "a", "Eb"]
_COLD = {"answers": None, "state": None}


_FFT_TABLE = []


def fft_table():
    """The frequency table the lookup is about: the pitches of the notes 0..128, obtained through the public
    Note API (never from the module's private table, whose name and type are the library's business)."""
    if not _FFT_TABLE:
        from mingus.containers.note import Note
        _FFT_TABLE.extend(Note().from_int(x).to_hertz() for x in range(129))
    return _FFT_TABLE


def fft_inputs(tier):
    tab = fft_table()
    xs = []
    for c in tab:
        xs += [0.999 * c, c, 1.001 * c]
    if tier == "thorough":
        xs += [(a + b) / 2.0 for a, b in zip(tab, tab[1:])]
    xs += [0.0, -1.0, 1e9]
    out, seen = [], set()
    for x in xs:
        if x.hex() not in seen:
            seen.add(x.hex())
            out.append(x)
    return out


def all_queries():
    qs = list(battery())
    qs += memo_actions(KEYS_Q, False) + memo_actions(KEYS_T, True) + broad_queries()
    qs += [Q("mingus.extra.fft", "_find_log_index", FL(x)) for x in fft_inputs("thorough")]
    qs += fft_note_queries()
    out, seen = [], set()
    for q in qs:
        if qkey(q) not in seen:
            seen.add(qkey(q))
            out.append(q)
    return out


def _spawn_cold(queries, state_modules):
    req = {"repo": engine.REPO, "state_modules": state_modules, "queries": queries}
    env = dict(os.environ, PYTHONHASHSEED="0", PYTHONDONTWRITEBYTECODE="1")
    p = subprocess.Popen([sys.executable, os.path.abspath(cold.__file__)], stdin=subprocess.PIPE, stdout=subprocess.PIPE,
                         stderr=subprocess.PIPE, text=True, env=env)
    return p, json.dumps(req)


def run_cold(queries):
    """Answer ``queries`` in freshly spawned interpreters (several side by side: each one is pristine, and inside
    each every answer comes from its own fork of the pristine process).  Queries that do not touch extra.fft go to
    interpreters that never import numpy (fork is much cheaper there)."""
    core_mods = [m for m in cold.STATE_MODULES if m != "mingus.extra.fft"]
    plain = [q for q in queries if q["m"] != "mingus.extra.fft"]
    fftq = [q for q in queries if q["m"] == "mingus.extra.fft"]
    jobs = []
    n = max(1, min(engine.NPROC, 8))
    n_fft = max(1, min(n - 1, (len(fftq) + 99) // 100)) if fftq else 0
    n_plain = max(1, n - n_fft) if plain else 0
    for i in range(n_plain):
        chunk = plain[i::n_plain]
        if chunk:
            jobs.append((chunk, core_mods))
    for i in range(n_fft):
        chunk = fftq[i::n_fft]
        if chunk:
            jobs.append((chunk, cold.STATE_MODULES))
    if not fftq:
        jobs.append(([], cold.STATE_MODULES))           # the full cold state is always wanted
    procs = [(_spawn_cold(chunk, mods), chunk, mods) for chunk, mods in jobs]
    import threading
    results = [None] * len(procs)

    def wait(i):
        (p, blob), chunk, mods = procs[i]
        out, err = p.communicate(blob, timeout=600)
        results[i] = (p.returncode, out, err)
    threads = [threading.Thread(target=wait, args=(i,)) for i in range(len(procs))]
    for t in threads:
        t.start()
    for t in threads:
        t.join()
    answers, state = {}, None
    for (rc, out, err), (_, chunk, mods) in zip(results, procs):
        if rc != 0:
            raise engine.HarnessError("cold interpreter failed (%s): %s" % (rc, (err or "")[-600:]))
        res = json.loads(out)
        if not res["state_untouched"]:
            raise engine.HarnessError("the cold interpreter's own state changed while answering")
        for q, a in zip(chunk, res["answers"]):
            if "harness_error" in a:
                raise engine.HarnessError("cold interpreter could not answer %s: %s" % (qkey(q), a["harness_error"]))
            answers[qkey(q)] = a
        if mods is cold.STATE_MODULES:
            if state is not None and rkey(state) != rkey(res["state"]):
                raise engine.HarnessError("two cold interpreters disagree about the cold module state")
            state = res["state"]
    return {"answers": [answers[qkey(q)] for q in queries], "state": state}


def ensure_cold(queries):
    """Make sure the cold interpreter's answers to ``queries`` are known (one batch of spawned interpreters for
    everything that is missing).  Every batch also returns the cold module state, which must equal the state this
    process captured at import time."""
    if _COLD["answers"] is None:
        _COLD["answers"] = {}
    ans = _COLD["answers"]
    missing, seen = [], set()
    for q in queries:
        k = qkey(q)
        if k not in ans and k not in seen:
            seen.add(k)
            missing.append(q)
    if missing or _COLD["state"] is None:
        res = run_cold(missing)
        for q, a in zip(missing, res["answers"]):
            ans[qkey(q)] = a
        _COLD["state"] = res["state"]
        if rkey(res["state"]) != SPACE.cold_key:
            raise engine.HarnessError("the module state captured in this process at import time is not the state of a "
                                      "cold interpreter (something called the library before the check was imported)")
    return ans


def cold_answers():
    return ensure_cold(all_queries())


def cold_answer(q):
    ans = _COLD["answers"]
    k = qkey(q)
    if ans is None or k not in ans:
        ans = ensure_cold([q])
    return ans[k]


# ---------------------------------------------------------------------------------------
# memo bfs
# ---------------------------------------------------------------------------------------
MARK = "H#"


def scribble(x, stack=None):
    """Caller-side mutation of every mutable part of a returned value: nested parts first, then overwrite
    [0], delete [1], append -- the edits do not cancel, so any part that is shared with library state
    changes that state."""
    stack = stack or []
    if id(x) in stack:
        return 0
    stack.append(id(x))
    n = 0
    try:
        if isinstance(x, list):
            for i in list(x):
                n += scribble(i, stack)
            if x:
                x[0] = MARK
            if len(x) > 2:
                del x[1]
            x.append("Zb")
            n += 1
        elif isinstance(x, dict):
            for v in list(x.values()):
                n += scribble(v, stack)
            for k in list(x)[:1]:
                x[k] = MARK
            x["__scribble__"] = MARK
            n += 1
        elif isinstance(x, tuple):
            for i in x:
                n += scribble(i, stack)
        elif hasattr(x, "__dict__") and not isinstance(x, type) and not callable(x):
            for v in list(vars(x).values()):
                n += scribble(v, stack)
            if type(x).__module__.startswith("mingus"):
                # a returned library object (a Note inside a result list, say) is the caller's too: change its numbers
                for k, v in list(vars(x).items()):
                    if isinstance(v, (int, float)) and not isinstance(v, bool) and not k.startswith("_"):
                        try:
                            setattr(x, k, v + 7)
                            n += 1
                        except Exception:                                   # noqa
                            pass
    finally:
        stack.pop()
    return n


class LiveState(object):
    def __init__(self, space):
        self.space = space
        self.key = None

    def canon(self):
        if self.key is None:
            self.live = self.space.discover()
            self.key = hashlib.sha1(rkey(self.space.render_live(compact=True, live=self.live)).encode()).hexdigest()
        return self.key


def _budget_call(q):
    # the theory modules contain no unbounded loop over these arguments (C09 owns termination); the
    # line-event tracer is only used where a loop depends on hidden state (fft) or on object graphs
    return call_query(q)


_WANTS = {}


def compare_battery(space, queries, site_prefix):
    """Run ``queries`` from the current state on a scratch basis (state restored afterwards) and compare every
    answer with the cold interpreter's.  Returns list of (query, expected, observed)."""
    snap = space.snapshot()
    bad = []
    n = 0
    wants = _WANTS.get(site_prefix)
    if wants is None:
        wants = _WANTS[site_prefix] = [cold_answer(q)["r"] for q in queries]
    try:
        for q, want in zip(queries, wants):
            ok, val, args = call_query(q)
            n += 1
            got = render(val)
            if got != want:
                bad.append((q, want, got))
    finally:
        space.install(snap)
    engine.S.trans(n)
    return bad


def short(q):
    if q["k"] == "attr":
        return "%s.%s" % (q["m"].split(".")[-1], q["n"])
    if q["k"] == "meth":
        return "scales.%s(%s).%s(%s)" % (q["c"], ", ".join(json.dumps(a) for a in q["ca"]), q["f"], ", ".join(json.dumps(a) for a in q["a"]))
    return "%s.%s(%s)" % (q["m"].split(".")[-1], q["f"], ", ".join(json.dumps(a) for a in q["a"]))


_BATTERY_OK = {"memo": set(), "fft": set()}
_BATTERY_BAD = {}


def battery_known_ok(kind, key):
    """The battery's verdict is a function of the canonical state, so one evaluation per state and *run* is enough:
    a passed state is remembered in this worker and, through an empty marker file in this run's temp directory,
    by the other workers of the same run (never across runs)."""
    if key in _BATTERY_OK[kind]:
        return True
    d = api.TMP.get("dir")
    if d and os.path.exists(os.path.join(d, "ok_" + kind, key)):
        _BATTERY_OK[kind].add(key)
        return True
    return False


def battery_mark_ok(kind, key):
    _BATTERY_OK[kind].add(key)
    d = api.TMP.get("dir")
    if d:
        try:
            os.makedirs(os.path.join(d, "ok_" + kind), exist_ok=True)
            open(os.path.join(d, "ok_" + kind, key), "w").close()
        except OSError:
            pass


class MemoSpec(BfsSpec):
    """State = the whole module state.  canon = sha1 of the canonical rendering of *every* slot found by
    introspection (module data attributes, class attributes, mutable default arguments) including the sharing
    structure between containers -- the library being sequential pure Python without I/O, there is nothing else
    a later call's behaviour can depend on (closures holding state would escape; none exist in these modules and
    a state that is not captured shows up as a non-reproducible replay = harness error, not as a pass)."""

    def __init__(self, keys, with_fft, broad=False):
        self.keys = list(keys)
        self.with_fft = bool(with_fft)
        self.broad = bool(broad)
        self._acts = None

    def params(self):
        return {"keys": self.keys, "fft": self.with_fft, "broad": self.broad}

    def init(self):
        SPACE.install_cold()
        return LiveState(SPACE)

    def actions(self):
        if self._acts is None:
            # "scribble" = call, compare with the cold answer, modify the returned value, call again: it contains
            # everything the plain variant checks, so a query whose answer holds a list/dict only gets that variant
            acts = []
            qs = memo_actions(self.keys, self.with_fft)
            if self.broad:
                have = set(qkey(q) for q in qs)
                qs = qs + [q for q in broad_queries() if qkey(q) not in have]
            ensure_cold(qs)
            for q in qs:
                if not _has_mutable(cold_answer(q)["r"]):
                    acts.append({"q": q, "v": "plain"})
            for q in qs:
                if _has_mutable(cold_answer(q)["r"]):
                    acts.append({"q": q, "v": "scribble"})
            self._acts = acts
        return self._acts

    def step(self, st, act, check=True):
        S = engine.S
        q = act["q"]
        st.key = None
        ok, val, args = _budget_call(q)
        if check:
            S.trans(1)
            want = cold_answer(q)
            got = render(val)
            if got != want["r"]:
                S.problem(short(q), want["r"], got, detail="answer differs from the cold interpreter's",
                          tags={"kind": "answer", "query": short(q)})
            if render(args) != render(dearg(q.get("a", []))):
                S.problem(short(q) + " [arguments after the call]", render(dearg(q.get("a", []))), render(args),
                          detail="a caller-owned argument was modified", tags={"kind": "argument", "query": short(q)})
            S.count("memo_calls_" + ("raised" if not ok else "returned"))
        if act["v"] == "scribble" and ok:
            n = scribble(val)
            if check:
                S.count("memo_scribbled_containers", n)
            ok2, val2, _ = _budget_call(q)
            if check:
                S.trans(1)
                got2 = render(val2)
                want = cold_answer(q)["r"]
                if got2 != want:
                    S.problem(short(q) + " [again, after the caller modified the first result]", want, got2,
                              detail="modifying a returned value changed what the same call returns",
                              tags={"kind": "alias", "query": short(q)})

    def invariant(self, st):
        S = engine.S
        key = st.canon()
        diff = []
        live = st.live
        for slot in sorted(live):
            if slot not in SPACE.cold:
                diff.append("/".join(slot[1:]) + "+")
                continue
            v = live[slot]
            if slot[0] == "lru":
                continue
            c = SPACE.cold[slot]
            if isinstance(v, dict) and isinstance(c, dict):
                if v != c:
                    diff.append("%s{%s}" % (slot[-1], ",".join(sorted(str(k) for k in v if k not in c or v[k] != c[k]))))
            elif type(v).__module__ != "__future__" and v != c:
                diff.append(slot[-1])
        S.outcome("|".join(diff))
        if diff:
            S.count("memo_warm_state_checks")
            hist = (S.current_case or {}).get("history") if isinstance(S.current_case, dict) else None
            if hist and len(hist) >= 2:
                S.sample({"history": [short(a["q"]) + (" +scribble" if a["v"] == "scribble" else "") for a in hist], "warm": diff[:6]})
        if battery_known_ok("memo", key):
            S.count("memo_battery_skipped_same_state")
            return
        # the battery's verdict is a function of the canonical state, so a failing state is remembered as well
        bad = _BATTERY_BAD.get(key)
        if bad is None:
            bad = compare_battery(SPACE, battery(), "battery")
            S.count("memo_battery_evaluations")
            if not bad:
                battery_mark_ok("memo", key)
                return
            bad = _BATTERY_BAD[key] = [(q, w, g) for q, w, g in bad[:6]] + [None] * max(0, len(bad) - 6)
        real = [x for x in bad if x is not None]
        q, want, got = real[0]
        bad_n = len(bad)
        bad = real
        S.problem("battery: " + short(q), want, got,
                  detail={"differing_battery_answers": bad_n, "first": [short(x[0]) for x in bad[:6]], "warm": diff[:8]},
                  tags={"kind": "battery", "query": short(q)})

    def canon(self, st):
        return st.canon()


# ---------------------------------------------------------------------------------------
# fft bfs
# ---------------------------------------------------------------------------------------
def bisect_spec(table, f):
    """smallest n with f <= table[n]; 128 if f <= 0 or above table[127] (counted, not a verdict)"""
    if f <= 0 or f > table[127]:
        return 128
    lo, hi = 0, 127
    while lo < hi:
        mid = (lo + hi) // 2
        if f <= table[mid]:
            hi = mid
        else:
            lo = mid + 1
    return lo


FFT_BATTERY = None


def fft_battery():
    global FFT_BATTERY
    if FFT_BATTERY is None:
        tab = fft_table()
        table = [T(FL(tab[127]), FL(1.0)), T(FL(tab[128] * 1.5), FL(0.5)), T(FL(tab[60]), FL(0.25)), T(FL(tab[60] * 1.001), FL(2.0)),
                 T(FL(tab[0] * 0.5), FL(1.0)), T(FL(tab[128]), FL(1.0)), T(FL(tab[100] * 0.999), FL(1.0))]
        FFT_BATTERY = [Q("mingus.extra.fft", "find_notes", table), Q("mingus.extra.fft", "find_notes", FREQ_TABLE)] + fft_note_queries()
    return FFT_BATTERY


_FFT_WANT = {}
_FFT_NOTE_QUERIES = []


def fft_note_queries():
    """find_notes on small partial tables, with the default and with other note limits (a high partial included)"""
    if not _FFT_NOTE_QUERIES:
        tab = fft_table()
        high = [T(FL(tab[60]), FL(1.0)), T(FL(tab[110]), FL(0.5)), T(FL(tab[125] * 0.999), FL(0.25)), T(FL(tab[127]), FL(0.125))]
        low = [T(FL(440.0), FL(1.0)), T(FL(220.0), FL(0.5))]
        _FFT_NOTE_QUERIES.extend([Q("mingus.extra.fft", "find_notes", high, 128), Q("mingus.extra.fft", "find_notes", high, 200),
                                  Q("mingus.extra.fft", "find_notes", low, 60), Q("mingus.extra.fft", "find_notes", low),
                                  Q("mingus.extra.fft", "find_notes", high)])
    return _FFT_NOTE_QUERIES


class FftSpec(BfsSpec):
    """State = module state of extra.fft (the cursor ``_last_asked`` and the table); canon = sha1 of its full
    canonical rendering, which is everything ``_find_log_index`` reads."""

    def __init__(self, tier):
        self.tier = tier
        self._acts = None

    def params(self):
        return {"tier": self.tier}

    def init(self):
        FFT_SPACE.install_cold()
        return LiveState(FFT_SPACE)

    def actions(self):
        if self._acts is None:
            self._acts = [["f", x.hex()] for x in fft_inputs(self.tier)] + [["notes", i] for i in range(len(fft_note_queries()))]
        return self._acts

    def step(self, st, act, check=True):
        S = engine.S
        st.key = None
        if act[0] == "notes":
            # a whole analysis (find_notes) with its own table and note limit: its answer, too, is a function of
            # its arguments, and whatever it leaves behind is part of the state explored from here
            q = fft_note_queries()[act[1]]
            ok, val, _args = call_query(q)
            if check:
                S.trans(1)
                want = cold_answer(q)["r"]
                if render(val) != want:
                    S.problem("fft.find_notes (query %d: table of %d partials, max_note %s)" % (act[1], len(q["a"][0]) if isinstance(q.get("a"), list) and q["a"] else -1,
                                                                                        q["a"][1] if len(q.get("a", [])) > 1 else "default"),
                              want, render(val), detail="analysis depends on previous analyses / lookups", tags={"kind": "fft-notes"})
            return
        f = float.fromhex(act[1])
        fn = _lib("mingus.extra.fft")._find_log_index
        try:
            ok, val = True, engine.with_step_budget(fn, (f,), budget=20000)
        except engine.StepBudgetExceeded:
            raise
        except Exception as e:                                          # noqa -- an exception is an observable answer
            ok, val = False, e
        if check:
            S.trans(1)
            want = _FFT_WANT.get(act[1])
            if want is None:
                want = _FFT_WANT[act[1]] = cold_answer(Q("mingus.extra.fft", "_find_log_index", {"hex": act[1]}))["r"]
            got = render(val)
            tab = fft_table()
            S.count("fft_cold_matches_bisect" if want == bisect_spec(tab, f) else "fft_cold_differs_from_bisect")
            if got != want:
                S.problem("fft._find_log_index(%r)" % f, want, got, detail="lookup depends on previous lookups",
                          tags={"kind": "fft", "raised": not ok})

    def invariant(self, st):
        S = engine.S
        key = st.canon()
        la = getattr(_lib("mingus.extra.fft"), "_last_asked", None)     # only for the evidence sample; may not exist
        S.outcome("fft-state=%s" % (str(key)[:12],))
        hist = (S.current_case or {}).get("history") if isinstance(S.current_case, dict) else None
        if hist and len(hist) >= 2:
            S.sample({"lookups": [float.fromhex(a[1]) if a[0] == "f" else "find_notes query %d" % a[1] for a in hist], "cursor": render(la)})
        if battery_known_ok("fft", key):
            return
        bad = compare_battery(FFT_SPACE, fft_battery(), "fft battery")
        S.count("fft_battery_evaluations")
        if not bad:
            battery_mark_ok("fft", key)
            return
        q, want, got = bad[0]
        S.problem("fft.find_notes(...) from this cursor state", want, got, detail={"differing": len(bad)}, tags={"kind": "fft-battery"})

    def canon(self, st):
        return st.canon()


def _memo_runner(case):
    spec = MemoSpec(case["keys"], case["fft"], case.get("broad", False))
    ensure_cold(battery() + [a["q"] for a in case["history"]])
    engine.bfs_execute(spec, case["history"], check_prefix=True)


def _fft_runner(case):
    spec = FftSpec(case["tier"])
    ensure_cold(fft_battery() + [Q("mingus.extra.fft", "_find_log_index", {"hex": a[1]}) for a in case["history"] if a[0] == "f"])
    engine.bfs_execute(spec, case["history"], check_prefix=True)


# ---------------------------------------------------------------------------------------
# arguments
# ---------------------------------------------------------------------------------------
_CAT = {}


def catalogue():
    if not _CAT:
        entries, problems, excluded = api.catalogue()
        if problems:
            raise engine.HarnessError("the C15 argument table does not cover the public API any more:\n  " + "\n  ".join(problems[:40]))
        _CAT["entries"] = {(e["owner"].name, e["cname"]): e for e in entries}
        _CAT["excluded"] = excluded
    return _CAT["entries"]


def shape(x, stack=None):
    """structure of a caller-owned argument: containers by content, library objects by identity"""
    stack = stack or []
    if id(x) in stack:
        return ("cycle",)
    if isinstance(x, (list, tuple)):
        stack.append(id(x))
        r = (type(x).__name__,) + tuple(shape(i, stack) for i in x)
        stack.pop()
        return r
    if isinstance(x, dict):
        stack.append(id(x))
        r = ("dict",) + tuple(sorted(((rkey(render(k)), shape(v, stack)) for k, v in x.items()), key=lambda kv: kv[0]))
        stack.pop()
        return r
    if x is None or isinstance(x, (bool, int, float, str, bytes)):
        return rkey(render(x))
    return ("obj", type(x).__name__, id(x))


def arg_assignments(entry):
    """All assignments of alternatives (full product when small, else one-at-a-time deviations from the defaults)."""
    given = [(p, fac) for p, fac, kind in entry["params"] if kind == "given"]
    counts = [len(fac()) for _, fac in given]
    total = 1
    for c in counts:
        total *= c
    if total <= 64:
        combos = list(itertools.product(*[range(c) for c in counts]))
    else:
        combos = [tuple(0 for _ in counts)]
        for i, c in enumerate(counts):
            for j in range(1, c):
                combos.append(tuple(j if k == i else 0 for k in range(len(counts))))
        # and every pair of deviations (a dict argument together with a keyword that the callee might write into it)
        for i1 in range(len(counts)):
            for i2 in range(i1 + 1, len(counts)):
                for j1 in range(1, counts[i1]):
                    for j2 in range(1, counts[i2]):
                        combos.append(tuple(j1 if k == i1 else (j2 if k == i2 else 0) for k in range(len(counts))))
    return [[[p, j] for (p, _), j in zip(given, combo)] for combo in combos]


def build_kwargs(entry, assignment):
    facs = {p: fac for p, fac, kind in entry["params"] if kind == "given"}
    kw = {p: facs[p]()[j] for p, j in assignment}
    return {p: v for p, v in kw.items() if v is not api.OMIT}


def invoke(entry, inst, kwargs):
    ow, cname = entry["owner"], entry["cname"]
    if ow.kind == "module":
        return getattr(ow.target, cname)(**kwargs)
    if cname == "__init__":
        return ow.target(**kwargs)
    return getattr(inst, cname)(**kwargs)


def run_arguments(case):
    """case = [owner, callable, [[param, alternative], ...]]"""
    S = engine.S
    ensure_tmp()
    SPACE.install_cold()
    CLS_SPACE.install_cold()
    entry = catalogue()[(case[0], case[1])]
    ow = entry["owner"]
    kwargs = build_kwargs(entry, case[2])
    watched = {p: v for p, v in kwargs.items() if api.contains_list_or_dict(v)}
    before = {p: (shape(v), render(v)) for p, v in watched.items()}
    inst = None
    if ow.kind == "class" and case[1] != "__init__":
        inst = ow.populated()
    raised = None
    try:
        engine.with_step_budget(invoke, (entry, inst, kwargs), budget=2000000)
    except engine.StepBudgetExceeded:
        raise
    except Exception as e:                                              # noqa -- which calls raise is not C15's subject
        raised = e
    S.trans(1)
    if watched:
        S.sample({"case": case, "list_or_dict_arguments": {p: before[p][1] for p in watched}})
    S.count("arguments_calls_raised" if raised is not None else "arguments_calls_returned")
    S.outcome((case[0], case[1], type(raised).__name__ if raised is not None else "ok"))
    for p, v in watched.items():
        S.count("arguments_list_or_dict_checked")
        sh, rd = shape(v), render(v)
        if sh != before[p][0]:
            S.problem("%s.%s(%s=...)" % (case[0], case[1], p), before[p][1], rd,
                      detail={"modified_parameter": p, "call_raised": None if raised is None else "%s: %s" % (type(raised).__name__, raised),
                              "other_arguments": {k: render(x) for k, x in kwargs.items() if k != p}},
                      tags={"kind": "argument", "owner": case[0], "callable": case[1], "param": p})
        elif rd != before[p][1]:
            S.count("arg_element_state_changed")


def gen_arguments(owner_name):
    for (on, cname), entry in sorted(catalogue().items()):
        if on != owner_name:
            continue
        for assignment in arg_assignments(entry):
            kwargs = build_kwargs(entry, assignment)
            if any(api.contains_list_or_dict(v) for v in kwargs.values()):
                yield [on, cname, assignment]


# ---------------------------------------------------------------------------------------
# instances / copies
# ---------------------------------------------------------------------------------------
def strip_private(r):
    """Drop attributes whose name starts with an underscore from a rendering.  What one object shows of itself
    is its public state; a private memo that a (correct) library keeps inside an object -- also inside an object
    that two instances legitimately share, like the Note objects of a class-level default range -- is not content."""
    if isinstance(r, dict):
        if "O" in r and "v" in r:
            return {"O": r["O"], "v": [[k, strip_private(v)] for k, v in r["v"] if not (isinstance(k, str) and k.startswith("_"))]}
        return {k: strip_private(v) for k, v in r.items()}
    if isinstance(r, list):
        if r and r[0] == "D":
            return ["D"] + [[k, strip_private(v)] for k, v in r[1:] if not (isinstance(k, str) and k.startswith("_"))]
        return [strip_private(v) for v in r]
    return r


def observe(x):
    eff = {}
    for n in dir(x):
        if n.startswith("__"):
            continue
        try:
            v = getattr(x, n)
        except Exception as e:                                         # noqa
            v = e
        if callable(v):
            continue
        eff[n] = v
    return rkey(strip_private(render({"vars": dict(vars(x)), "effective": eff})))


def class_defaults(cls):
    out = {}
    for k in cls.__mro__:
        if k is object:
            continue
        for n, v in vars(k).items():
            if n.startswith("__") and n.endswith("__"):
                continue
            if isinstance(v, (staticmethod, classmethod, property)) or callable(v):
                continue
            if n.startswith("_"):
                continue
            out["%s.%s" % (k.__qualname__, n)] = v
    return rkey(strip_private(render(out)))


def class_ops(owner_name):
    """operation alphabet of a class: every public method / operator with the default arguments, plus one
    operation per non-default alternative of each parameter"""
    ops = []
    for (on, cname), entry in sorted(catalogue().items()):
        if on != owner_name:
            continue
        given = [(p, fac) for p, fac, kind in entry["params"] if kind == "given"]
        ops.append([cname, [[p, 0] for p, _ in given]])
        for i, (p, fac) in enumerate(given):
            for j in range(1, len(fac())):
                ops.append([cname, [[q, (j if q == p else 0)] for q, _ in given]])
    ops.append(["@fill", []])
    return ops


def fill_public_lists(owner_name, target):
    """The caller's side of a public list the object was created with: `midifile.tracks.append(t)`, `nc.notes += [...]`.
    Every public list attribute that carries the name of a constructor parameter (the content the instance is created
    with; class-level constant tables such as MidiInstrument.names are not touched) is extended in place -- with copies
    of what it holds, or, when it is empty, with elements of the kind the constructor takes for that parameter."""
    S = engine.S
    init = catalogue().get((owner_name, "__init__"))
    if init is None:
        return
    for p, fac, kind in init["params"]:
        if p.startswith("_") or kind != "given":
            continue
        try:
            v = getattr(target, p)
        except Exception:                                               # noqa
            continue
        if not isinstance(v, list):
            continue
        extra = None
        if v:
            extra = [copy.copy(v[-1])]
        else:
            for alt in fac():
                if isinstance(alt, list) and alt:
                    extra = list(alt)
                    break
        if extra is None:
            S.count("public_lists_without_an_element_to_add")
            continue
        v.extend(extra)
        S.count("public_lists_extended_in_place")


def apply_ops(owner_name, target, ops):
    S = engine.S
    eff = []
    for cname, assignment in ops:
        if cname == "@fill":
            fill_public_lists(owner_name, target)
            eff.append("ok")
            continue
        entry = catalogue()[(owner_name, cname)]
        kwargs = build_kwargs(entry, assignment)
        try:
            if cname == "__init__":
                target.__init__(**kwargs)
            else:
                engine.with_step_budget(getattr(target, cname), (), kwargs, budget=2000000)
            S.count("ops_returned")
            eff.append("ok")
        except engine.StepBudgetExceeded:
            raise
        except Exception as e:                                          # noqa -- allowed: the operation still happened
            S.count("ops_raised")
            eff.append(type(e).__name__)
    S.trans(len(ops))
    return eff


def _owner(name):
    for (on, _), e in catalogue().items():
        if on == name:
            return e["owner"]
    raise engine.HarnessError("unknown class %r" % name)


# "any container, MIDI-writer or sequencer class": every class of mingus.containers, MidiTrack, the writer's MidiFile,
# Sequencer and SequencerObserver.  The other classes in the table (keys.Key, tunings.StringTuning, the MIDI *reader*
# and the scale classes) are explored the same way, but a dependence there is only counted and noted: the statement
# does not name them.
JUDGED_CLASSES = {"Note", "NoteContainer", "Bar", "Track", "Composition", "Suite", "Instrument", "Piano", "Guitar",
                  "MidiInstrument", "MidiPercussionInstrument", "MidiTrack", "MidiFileOut", "Sequencer", "SequencerObserver"}


def _report(judged, site, expected, observed, detail, tags):
    if judged:
        engine.S.problem(site, expected, observed, detail=detail, tags=tags)
    else:
        engine.S.count("dependence_in_class_outside_the_statement")


def run_instances(case):
    """case = [class, [[method, assignment], ...]]"""
    S = engine.S
    judged = case[0] in JUDGED_CLASSES
    ensure_tmp()
    SPACE.install_cold()
    CLS_SPACE.install_cold()
    ow = _owner(case[0])
    a = ow.make()
    b = ow.make()
    pristine = observe(b)
    defaults = class_defaults(ow.target)
    # a twin that has been through the same first operation as `a` (two objects filled the same way are
    # still two objects): the rest of the script must leave it as it was
    twin, twin0 = None, None
    if len(case[1]) >= 2:
        twin = ow.make()
        apply_ops(case[0], twin, case[1][:1])
        twin0 = observe(twin)
    before_a = observe(a)
    eff = apply_ops(case[0], a, case[1])
    changed = observe(a) != before_a
    S.count("scripts_that_changed_the_operated_instance" if changed else "scripts_without_effect")
    if changed and len(case[1]) == 2:
        S.sample(case)
    S.outcome((case[0], tuple(op[0] for op in case[1]), tuple(eff), changed))
    script = " ; ".join("a.%s(%s)" % (op[0], ", ".join("%s#%d" % (p, j) for p, j in op[1] if j)) for op in case[1])
    after_b = observe(b)
    if after_b != pristine:
        _report(judged, "%s: sibling instance after [%s]" % (case[0], script), json.loads(pristine), json.loads(after_b),
                "operating on one instance changed a separately created one", {"kind": "sibling", "class": case[0]})
    if twin is not None:
        after_twin = observe(twin)
        if after_twin != twin0:
            _report(judged, "%s: a second instance that went through the same first operation, after [%s]" % (case[0], script),
                    json.loads(twin0), json.loads(after_twin),
                    "operating on one instance changed another one that had been filled the same way", {"kind": "twin", "class": case[0]})
        S.count("twin_instances_checked")
    after_defaults = class_defaults(ow.target)
    if after_defaults != defaults:
        _report(judged, "%s: class defaults after [%s]" % (case[0], script), json.loads(defaults), json.loads(after_defaults),
                "operating on an instance changed the class-level defaults", {"kind": "class-defaults", "class": case[0]})
    c = ow.make()
    fresh = observe(c)
    if fresh != pristine:
        _report(judged, "%s: instance created after [%s]" % (case[0], script), json.loads(pristine), json.loads(fresh),
                "an instance created afterwards is not pristine", {"kind": "third", "class": case[0]})


def _scripts(ops, maxlen, first):
    """all scripts of length 1..maxlen whose first operation is ops[first] (a shard of the script space)"""
    for n in range(1, maxlen + 1):
        for rest in itertools.product(ops, repeat=n - 1):
            yield [list(ops[first])] + [list(o) for o in rest]


def gen_instances(shard):
    owner_name, maxlen, first = shard
    if first is None:
        yield [owner_name, []]
        return
    for script in _scripts(class_ops(owner_name), maxlen, first):
        yield [owner_name, script]


# ---------------------------------------------------------------------------------------
# interference: what an operation does to one object does not depend on what was done to another one before
# ---------------------------------------------------------------------------------------
import importlib


def _cold_class(ow):
    """cold start: the module-level data, class attributes and mutable defaults of the theory modules and of the
    container / MIDI modules are written back to what a cold interpreter holds (found by introspection, so a
    table that a changed library adds is part of it)"""
    ensure_tmp()
    SPACE.install_cold()
    CLS_SPACE.install_cold()


def run_interference(case):
    """case = [class, op_a, op_b]: b alone does op_b; in a second cold world another object a does op_a first
    and then a separately created b does op_b: b must come out the same both times."""
    S = engine.S
    cname, op_a, op_b = case
    judged = cname in JUDGED_CLASSES
    ow = _owner(cname)
    _cold_class(ow)
    b = ow.make()
    eff1 = apply_ops(cname, b, [op_b])
    obs1 = observe(b)
    _cold_class(ow)
    a = ow.make()
    apply_ops(cname, a, [op_a])
    b = ow.make()
    eff2 = apply_ops(cname, b, [op_b])
    obs2 = observe(b)
    S.outcome((cname, op_b[0], tuple(eff1), obs1 == obs2))
    S.count("interference_pairs_checked")
    if obs1 != pristine_of(ow):
        S.count("interference_pairs_where_b_changed")
    if obs1 != obs2 or eff1 != eff2:
        d1, d2 = json.loads(obs1), json.loads(obs2)
        _report(judged, "%s: b.%s(...) after another instance did a.%s(...)" % (cname, op_b[0], op_a[0]), d1, d2,
                "the effect of an operation on one object depends on what was done to another object before",
                {"kind": "interference", "class": cname})


_PRISTINE = {}


def pristine_of(ow):
    k = ow.name if hasattr(ow, "name") else id(ow)
    if k not in _PRISTINE:
        _PRISTINE[k] = observe(ow.make())
    return _PRISTINE[k]


def gen_interference(shard):
    cname, i = shard
    ops = class_ops(cname)
    for op_b in ops:
        yield [cname, list(ops[i]), list(op_b)]


COPY_SOURCES = {
    "Note": lambda: api.Note("C", 4, velocity=90, channel=3),
    "NoteContainer": lambda: api.NoteContainer([api.Note("C", 4, velocity=90), api.Note("E", 4), api.Note("G", 5)]),
}


def run_copies(case):
    """case = [class, "copy" | "original", [[method, assignment], ...]]: build orig, cp = cls(orig), run the script on
    one of them, the other must be unchanged"""
    S = engine.S
    ensure_tmp()
    SPACE.install_cold()
    CLS_SPACE.install_cold()
    cname, _, route = case[0].partition(":")
    ow = _owner(cname)
    orig = COPY_SOURCES[cname]()
    if route == "":
        cp = ow.target(orig)
    elif route == "add_notes":          # a container filled from another one is a copy of it, too
        cp = ow.target()
        cp.add_notes(orig)
    elif route == "plus":
        cp = ow.target()
        cp + orig
    else:
        raise engine.HarnessError("copy route %r" % route)
    target, other = (cp, orig) if case[1] == "copy" else (orig, cp)
    before_other = observe(other)
    before_target = observe(target)
    S.trans(1)
    eff = apply_ops(cname, target, case[2])
    changed = observe(target) != before_target
    S.count("copy_scripts_with_effect" if changed else "copy_scripts_without_effect")
    if changed and len(case[2]) == 2:
        S.sample(case)
    S.outcome((case[0], case[1], tuple(op[0] for op in case[2]), tuple(eff), changed))
    after = observe(other)
    if after != before_other:
        script = " ; ".join("%s.%s(%s)" % ("cp" if case[1] == "copy" else "orig", op[0], ", ".join("%s#%d" % (p, j) for p, j in op[1] if j)) for op in case[2])
        S.problem("%s(orig): %s after [%s]" % (case[0], "the original" if case[1] == "copy" else "the copy", script),
                  json.loads(before_other), json.loads(after), detail="a copy built from another object is not independent of it",
                  tags={"kind": "copy", "class": case[0], "operated": case[1]})


def gen_copies(shard):
    owner_name, side, maxlen, first = shard
    for script in _scripts(class_ops(owner_name.partition(":")[0]), maxlen, first):
        yield [owner_name, side, script]


# ---------------------------------------------------------------------------------------
# fresh_graph: what a building call returns is made of objects of its own
# ---------------------------------------------------------------------------------------
def _music_objects(x, path, out, stack):
    """id -> [paths] of every Note / NoteContainer / Bar / Track reachable inside x through lists, tuples, dicts and the
    public attributes of those four classes."""
    from mingus.containers.note import Note as _N
    from mingus.containers.note_container import NoteContainer as _NC
    from mingus.containers.bar import Bar as _B
    from mingus.containers.track import Track as _T
    from mingus.core.keys import Key as _K
    if id(x) in stack:
        return
    if isinstance(x, (_N, _NC, _B, _T, _K)):
        out.setdefault(id(x), (x, []))[1].append(path)
        if len(out[id(x)][1]) > 1:
            return
        stack.append(id(x))
        for k, v in sorted(vars(x).items()):
            if not k.startswith("_") and k not in ("instrument", "key", "tuning"):
                _music_objects(v, path + "." + k, out, stack)
        stack.pop()
    elif isinstance(x, (list, tuple)):
        stack.append(id(x))
        for i, v in enumerate(x):
            _music_objects(v, "%s[%d]" % (path, i), out, stack)
        stack.pop()
    elif isinstance(x, dict):
        stack.append(id(x))
        for k, v in x.items():
            _music_objects(v, "%s[%r]" % (path, k), out, stack)
        stack.pop()


def _builders():
    from mc.checks import c15_api as A
    from mingus.containers.track import Track as _T
    from mingus.containers.bar import Bar as _B
    from mingus.containers.note_container import NoteContainer as _NC
    import mingus.extra.fft as _fft
    import mingus.midi.midi_file_in as _mfi
    import mingus.midi.midi_file_out as _mfo

    def tuned():
        t = _T()
        t.set_tuning(A.tuning6())
        return t

    def midi_roundtrip():
        ensure_tmp()
        path = os.path.join(api.TMP["dir"], "fresh_graph.mid")
        _mfo.write_Track(path, _T().from_chords(["C", "F", "C"], 2), 120)
        return _mfi.MIDI_to_Composition(path)[0].tracks

    def split_twice():
        # whole-note chords in 3/8: every chord crosses two or three bar lines (three or four pieces)
        t = _T()
        t.add_bar(_B("C", (3, 8)))
        return t.from_chords(["C", "Am", "F"], 1)

    def bar_of_lists():
        b = _B("C", (4, 4))
        for _ in range(4):
            b.place_notes(["C", "E"], 4)
        return b

    return {
        "Track().from_chords(['C', 'F', 'C', 'F'], 1)": lambda: _T().from_chords(["C", "F", "C", "F"], 1),
        "Track().from_chords(['C', ['Am', 'C'], 'Am'], 1)": lambda: _T().from_chords(["C", ["Am", "C"], "Am"], 1),
        "tuned Track.from_chords(['E', 'A', 'E', 'A'], 1)": lambda: tuned().from_chords(["E", "A", "E", "A"], 1),
        "tuned Track.from_chords(['Em', ['Em', 'Em']], 2)": lambda: tuned().from_chords(["Em", ["Em", "Em"]], 2),
        "NoteContainer().from_chord('Cmaj7')": lambda: _NC().from_chord("Cmaj7"),
        "NoteContainer().from_progression('V7', 'C')": lambda: _NC().from_progression("V7", "C"),
        "StringTuning.find_chord_fingering(E, return_best_as_NoteContainer=True)":
            lambda: A.tuning6().find_chord_fingering(_NC().from_chord("E"), return_best_as_NoteContainer=True),
        "Bar.place_notes(['C', 'E'], 4) x 4": bar_of_lists,
        "Track (3/8).from_chords(['C', 'Am', 'F'], 1)": split_twice,
        # (a Bar's `key` is not walked inside tracks: a bar opened by Track.add_notes takes over the Key object of the bar
        # before it; the Key of a Bar built from a key *name* is that bar's own)
        "Bar('Eb', (4, 4)).key": lambda: [_B("Eb", (4, 4)).key],
        "[Bar('a', (3, 4)).key, Bar('a', (4, 4)).key]": lambda: [_B("a", (3, 4)).key, _B("a", (4, 4)).key],
        "fft.find_notes(table)": lambda: _fft.find_notes([(440.0, 10.0), (660.0, 5.0), (880.0, 1.0)]),
        "MIDI_to_Composition(file of a from_chords track)": midi_roundtrip,
    }


def run_fresh_graph(case):
    """case = builder name: build twice; inside one result no Note / NoteContainer / Bar stands at two places, and the
    two results have no such object in common."""
    S = engine.S
    name = case
    build = _builders()[name]
    a, b = build(), build()
    S.trans(2)
    oa, ob = {}, {}
    _music_objects(a, "result", oa, [])
    _music_objects(b, "result", ob, [])
    for i, (obj, paths) in oa.items():
        if len(paths) > 1:
            S.problem("%s: one %s object at several places of the result" % (name, type(obj).__name__), "objects of their own", sorted(paths)[:4])
            break
    common = [oa[i] for i in oa if i in ob]
    if common:
        S.problem("%s called twice: %s objects common to both results" % (name, type(common[0][0]).__name__), "none",
                  [p[0] for _, p in common][:4])
    S.count("fresh_graphs_checked")
    S.outcome((name, len(oa)))


CLAUSES = {
    "fresh_graph": run_fresh_graph,
    "memo": _memo_runner,
    "fft": _fft_runner,
    "arguments": run_arguments,
    "instances": run_instances,
    "copies": run_copies,
    "interference": run_interference,
}
KNOWN = {}


def explore(ctx):
    ensure_tmp()
    answers = cold_answers()           # spawns the cold interpreter; validates this process's cold snapshot against it
    ctx.bound("cold_reference_answers", len(answers))
    ctx.bound("battery_queries", len(battery()))
    ctx.bound("module_state_slots", len(SPACE.cold))

    if ctx.want("memo"):
        keys = ctx.pick(KEYS_Q, KEYS_T)
        with_fft = ctx.pick(False, True)        # fft actions only in the depth-bounded broad search (the cursor is clause fft's subject)
        spec = MemoSpec(keys, False)
        cap = ctx.pick(5000, 200000)
        ctx.bound("memo_keys", keys)
        ctx.bound("memo_actions", len(spec.actions()))
        ctx.bound("memo_state_cap", cap)
        # install/restore round trip of the cold state (the battery on it runs as the bfs root invariant)
        SPACE.install_cold()
        if rkey(SPACE.render_live()) != SPACE.cold_key:
            raise engine.HarnessError("installing the cold snapshot does not reproduce the cold state")
        ctx.bfs("memo", spec, depth=60, cap=cap, label="memo (to the fix-point)")
        # the same search, depth-bounded, under the *broad* alphabet: every public theory function and scale method
        broad = MemoSpec(keys, with_fft, broad=True)
        bdepth = ctx.pick(2, 3)
        ctx.bound("memo_broad_actions", len(broad.actions()))
        ctx.bound("memo_broad_depth", bdepth)
        ctx.bfs("memo", broad, depth=bdepth, cap=cap, label="memo (broad alphabet, depth %d)" % bdepth)
        pc = ctx.per_clause.get("memo (to the fix-point)", {})
        if not pc.get("fixpoint_reached") and not pc.get("capped") and not pc.get("violating"):
            ctx.exhaustive = False
            ctx.caps_hit.append("memo: depth bound reached before the fix-point")
        if not ctx.only:
            ctx.guard("memo: battery evaluations", ctx.counter("memo_battery_evaluations"), 1)
            ctx.guard("memo: containers scribbled on", ctx.counter("memo_scribbled_containers"), 50)
            ctx.guard("memo: library calls that returned", ctx.counter("memo_calls_returned"), 200)

    if ctx.want("fft"):
        spec = FftSpec(ctx.tier)
        ctx.bound("fft_inputs", len(spec.actions()))
        ctx.bfs("fft", spec, depth=8, cap=20000)
        if not ctx.only:
            ctx.guard("fft: lookups checked", ctx.stats.clause_trans.get("fft", 0), 10000)

    if ctx.want("arguments"):
        owners = sorted(set(on for on, _ in catalogue()))
        ctx.bound("callables_in_table", len(catalogue()))
        ctx.bound("callables_excluded", ["%s.%s" % x for x in _CAT["excluded"]])
        ctx.product("arguments", owners, gen_arguments)
        if not ctx.only:
            ctx.guard("arguments: calls that returned", ctx.counter("arguments_calls_returned"), 150)
            ctx.guard("arguments: list/dict arguments compared", ctx.counter("arguments_list_or_dict_checked"), 200)

    classes = sorted(set(on for (on, _), e in catalogue().items() if e["owner"].kind == "class"))
    if ctx.want("instances"):
        # scripts of length <= 2 for every class; thorough adds length 3 where the alphabet is small enough
        shards, lengths = [], {}
        for c in classes:
            n_ops = len(class_ops(c))
            lengths[c] = 3 if (ctx.tier == "thorough" and n_ops <= 32) else 2
            shards.append((c, 0, None))                                   # the empty script
            shards += [(c, lengths[c], i) for i in range(n_ops)]          # sharded by the first operation
        ctx.bound("instance_script_length", lengths)
        ctx.bound("classes", classes)
        ctx.product("instances", shards, gen_instances)
        if not ctx.only:
            ctx.guard("instances: scripts that changed the operated instance", ctx.counter("scripts_that_changed_the_operated_instance"), 500)
            ctx.guard("instances: operations that returned", ctx.counter("ops_returned"), 2000)

    if ctx.want("interference"):
        jc = [c for c in classes if c in JUDGED_CLASSES]
        ctx.product("interference", [(c, i) for c in jc for i in range(len(class_ops(c)))], gen_interference)
        if not ctx.only:
            ctx.guard("interference pairs", ctx.counter("interference_pairs_checked"), 2000)
    if ctx.want("fresh_graph"):
        names = sorted(_builders())
        ctx.bound("fresh_graph", names)
        ctx.serial("fresh_graph", names)
    if ctx.want("copies"):
        maxlen = ctx.pick(2, 2)
        routes = sorted(COPY_SOURCES) + ["NoteContainer:add_notes", "NoteContainer:plus"]
        ctx.product("copies", [(c, side, maxlen, i) for c in routes for side in ("copy", "original")
                               for i in range(len(class_ops(c.partition(":")[0])))], gen_copies)
        if not ctx.only:
            ctx.guard("copies: scripts with an effect on the operated object", ctx.counter("copy_scripts_with_effect"), 200)

    if ctx.counter("dependence_in_class_outside_the_statement"):
        ctx.note("%d script observations showed instance dependence in a class the statement does not name (Key, StringTuning, "
                 "MIDI reader, scale classes): counted, not judged" % ctx.counter("dependence_in_class_outside_the_statement"))
    if ctx.counter("arg_element_state_changed"):
        ctx.note("%d calls changed the state of a library object stored inside a list argument (counted, not judged)" % ctx.counter("arg_element_state_changed"))
    if ctx.counter("fft_cold_differs_from_bisect"):
        ctx.note("%d cold lookups differ from the bisect specification (counted, not judged by C15)" % ctx.counter("fft_cold_differs_from_bisect"))
