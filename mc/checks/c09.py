# -*- coding: utf-8 -*-
"""C09 -- note-value analysis inverts note-value construction; meter predicates are total
(DESIGN.md section 4, C09).

Clauses
  construct  every (base, construction) of the documented vocabulary is *built with the library's own
             helper* (dots / triplet / quintuplet / septuplet / tuplet), the built number is compared
             with the exact rational of mc/ref/values.py, and value.determine() of it must return
             exactly the (base, dots, ratio) it was built from.
  near       every undotted recognised value (base, 3:2, 5:4, 7:4 of a base) and every single-dotted
             base, multiplied and divided by (1+e) for every e of a grid strictly inside +-1 %, must be
             analysed as the unperturbed value.
  arith      every ordered pair of the 80 vocabulary values: add / subtract against Fraction
             arithmetic on the durations (reciprocals) and the two inverse laws.
  helpers    triplet / quintuplet / septuplet (both readings) against tuplet() and against r1*v/r2.
  meter      every predicate of mingus.core.meter on counts x beat units under the deterministic
             step horizon, against the arithmetic definition of the statement.
"""
from fractions import Fraction

from mc import engine
from mc.ref import values as V

from mingus.core import value as mvalue
from mingus.core import meter as mmeter

PROPERTY = "C09"
RULE = ("exhaustive products: (base x construction x number type), (50 recognised values x perturbation grid x "
        "{multiply, divide}), (80 x 80 ordered value pairs), (80 values x helper), (counts x beat units x 5 "
        "predicates); distinct_nontrivial = distinct observed outcome keys per clause (analysis tuples, "
        "(predicate answers) vectors, result classes)")
ASSUMPTIONS = [
    "'0-4 dots, or as a triplet, quintuplet or septuplet' is read as alternatives: dotted tuplets are not required to be analysable",
    "the septuplet the analyser must return is the 7:4 one (septuplet(v) with the default in_fourths=True); septuplet(v, False) is only checked against the ratio formula 7:8",
    "'within 1%' is decided on a grid strictly inside the open interval (|e| <= 0.0099), applied both as value*(1+e) and value/(1+e)",
    "'undotted or single-dotted recognised value' = the 10 base values, their 3:2, 5:4 and 7:4 tuplets, and the 10 single-dotted bases (50 values)",
    "the analysed base may be returned as int or float (4 == 4.0); the tuple is compared with ==",
    "library helper results are floats: compared with the exact rational to a relative 1e-12 (constructions) / 1e-9 (sums and differences, where cancellation amplifies the input rounding by at most ~35x); a wrong operand or formula is off by >= 1e-2",
    "subtract(a, a) (zero duration has no note value) is outside the statement: any outcome is accepted",
    "numeric input of the meter predicates = Python int and float (incl. 0, negatives, huge, inf, nan); bool/complex/Decimal/Fraction are not enumerated; counts are integers as in the quantifier",
    "a float beat unit that is numerically a power of two (4.0) counts as that power of two",
    "is_simple is not defined by the statement: only termination and a truth-value answer are required of it",
    "predicate answers are compared by truth value (bool(x)), not by identity with True/False",
    "'terminates' is decided by a deterministic horizon of 20000 interpreter line events per call (the longest legitimate loop, a beat unit of 2**1100, needs < 4000)",
]

BASE_NUM = {name: (int(b) if b.denominator == 1 else float(b)) for name, b in V.BASES}
REL_BUILD = 1e-12
REL_ARITH = 1e-9


def _rel_close(got, exact, rel):
    exact = Fraction(exact)
    try:
        g = Fraction(got)
    except (ValueError, OverflowError, TypeError):
        return False
    return abs(g - exact) <= Fraction(rel) * abs(exact)


def _same_tuple(got, want):
    return isinstance(got, tuple) and len(got) == 4 and all(g == w for g, w in zip(got, want)) \
        and all(isinstance(g, (int, float)) and not isinstance(g, bool) for g in got)


def _want_tuple(item):
    b, d, r1, r2 = item[3]
    return (BASE_NUM_BY_FRACTION[b], d, r1, r2)


BASE_NUM_BY_FRACTION = {b: BASE_NUM[name] for name, b in V.BASES}


# ---------------------------------------------------------------------------------------
# construct
# ---------------------------------------------------------------------------------------
CONSTRUCTIONS = [["dots", 0], ["dots", 1], ["dots", 2], ["dots", 3], ["dots", 4],
                 ["triplet"], ["quintuplet"], ["septuplet"],
                 ["tuplet", 3, 2], ["tuplet", 5, 4], ["tuplet", 7, 4], ["plain"], ["dots_default"]]


def run_construct(case):
    """case = [base label, construction, 'native'|'float']"""
    S = engine.S
    S.sample(case)
    bname, con, numtype = case
    b = BASE_NUM[bname]
    if numtype == "float":
        b = float(b)
    bexact = dict(V.BASES)[bname]
    kind = con[0]
    if kind == "plain":
        built, want_exact, want = b, bexact, (b, 0, 1, 1)
    elif kind == "dots":
        built = mvalue.dots(b, con[1])
        want_exact, want = V.dotted_exact(bexact, con[1]), (b, con[1], 1, 1)
        S.trans(1)
    elif kind == "dots_default":
        built = mvalue.dots(b)
        want_exact, want = V.dotted_exact(bexact, 1), (b, 1, 1, 1)
        S.trans(1)
    elif kind == "triplet":
        built, want_exact, want = mvalue.triplet(b), bexact * 3 / 2, (b, 0, 3, 2)
        S.trans(1)
    elif kind == "quintuplet":
        built, want_exact, want = mvalue.quintuplet(b), bexact * 5 / 4, (b, 0, 5, 4)
        S.trans(1)
    elif kind == "septuplet":
        built, want_exact, want = mvalue.septuplet(b), bexact * 7 / 4, (b, 0, 7, 4)
        S.trans(1)
    elif kind == "tuplet":
        built = mvalue.tuplet(b, con[1], con[2])
        want_exact, want = bexact * con[1] / con[2], (b, 0, con[1], con[2])
        S.trans(1)
    else:
        raise engine.HarnessError("unknown construction %r" % (con,))
    if not isinstance(built, (int, float)) or isinstance(built, bool) or not _rel_close(built, want_exact, REL_BUILD):
        S.problem("value.%s(%r) built number" % (kind, b), float(want_exact), built,
                  detail={"exact": str(want_exact)})
        return
    # first a few numbers that are almost, but not exactly, the built value (a value read from a file with seven
    # decimals, a value off by rounding noise): whatever they are analysed as, the exact value's answer stands
    for near in (built * (1 + 1e-9), built * (1 - 1e-9), round(built, 7), round(built, 5), float("%.6g" % built)):
        try:
            engine.with_step_budget(mvalue.determine, (near,))
        except engine.StepBudgetExceeded:
            raise
        except Exception:                                   # noqa -- near values are judged in the `near` clause
            pass
    got = engine.with_step_budget(mvalue.determine, (built,))
    S.trans(6)
    S.outcome(repr(got))
    S.count("constructed_values_analysed")
    if not _same_tuple(got, want):
        S.problem("value.determine(%s of %r = %r)" % (" ".join(str(c) for c in con), b, built), want, got)


def gen_construct(bname):
    for con in CONSTRUCTIONS:
        for numtype in ("native", "float"):
            yield [bname, con, numtype]


# ---------------------------------------------------------------------------------------
# near
# ---------------------------------------------------------------------------------------
def near_items():
    """The 50 undotted-or-single-dotted recognised values (labels of mc/ref/values.py)."""
    out = []
    for item in V.VALUES:
        b, d, r1, r2 = item[3]
        if d <= 1:
            out.append(item)
    return out


def run_near(case):
    """case = [label, n, d, 'mul'|'div']: centre * (1 + n/d) or centre / (1 + n/d)."""
    S = engine.S
    S.sample(case)
    label, n, d, how = case
    item = V.BY_LABEL[label]
    centre = item[1]
    e = n / float(d)
    if not abs(e) < 0.01:
        raise engine.HarnessError("perturbation outside the open 1%% interval: %r" % (case,))
    v = centre * (1.0 + e) if how == "mul" else centre / (1.0 + e)
    if not (Fraction(99, 100) * item[2] < Fraction(v) < Fraction(101, 100) * item[2]):
        raise engine.HarnessError("perturbed value left the 1%% window: %r" % (case,))
    want = _want_tuple(item)
    got = engine.with_step_budget(mvalue.determine, (v,))
    S.trans(1)
    S.outcome(repr(got))
    if n == 0:
        S.count("near_exact_centres")
    elif (n > 0) == (how == "mul"):
        S.count("near_above")
    else:
        S.count("near_below")
    if not _same_tuple(got, want):
        S.problem("value.determine(%r)  [%s %s (1%+g)]" % (v, label, "*" if how == "mul" else "/", e), want, got,
                  tags={"label": label, "dots": item[3][1], "ratio": [item[3][2], item[3][3]],
                        "below": v < centre})


def run_near_int(case):
    """case = an int: if it lies strictly within 1% of exactly one of the 50 undotted / single-dotted recognised values (and
    is not such a value itself) it must be analysed as that value -- a whole number is a value like any other."""
    S = engine.S
    n = case
    hits = [item for item in near_items() if Fraction(99, 100) * item[2] < n < Fraction(101, 100) * item[2] and Fraction(n) != item[2]]
    if len(hits) != 1 or any(Fraction(n) == it[2] for it in V.VALUES):
        S.count("near_int_not_judged")
        return
    want = _want_tuple(hits[0])
    got = engine.with_step_budget(mvalue.determine, (n,))
    S.trans(1)
    S.outcome(("int", repr(got)))
    S.count("near_ints_judged")
    if not _same_tuple(got, want):
        S.problem("value.determine(%d)  [an int within 1%% of %s]" % (n, hits[0][0]), want, got)


HELPER_CALLS = [("triplet", (8,)), ("quintuplet", (8,)), ("septuplet", (8,)), ("septuplet", (8, False)), ("septuplet", (16, True)),
                ("quintuplet", (4,)), ("tuplet", (8, 3, 2)), ("tuplet", (8, 7, 8)), ("tuplet", (4, 5, 4)), ("dots", (8,)), ("dots", (8, 2)),
                ("dots", (4, 3)), ("add", (8, 8)), ("subtract", (4, 8))]


def _helper_exact(name, args):
    v = Fraction(args[0])
    if name == "triplet":
        return v * 3 / 2
    if name == "quintuplet":
        return v * 5 / 4
    if name == "septuplet":
        return v * 7 / 4 if (len(args) < 2 or args[1]) else v * 7 / 8
    if name == "tuplet":
        return v * args[1] / args[2]
    if name == "dots":
        nr = args[1] if len(args) > 1 else 1
        return v / (2 - Fraction(1, 2 ** nr))
    if name == "add":
        return 1 / (1 / v + 1 / Fraction(args[1]))
    if name == "subtract":
        return 1 / (1 / v - 1 / Fraction(args[1]))
    raise engine.HarnessError("no reference for %r" % name)


def run_helper_history(case):
    """case = [i, j]: for every third helper call k, the calls (i, j, k) in a freshly loaded value module: each returns its
    documented value whatever was called before."""
    import importlib
    S = engine.S
    i, j = case
    for k in range(len(HELPER_CALLS)):
        importlib.reload(mvalue)
        for pos, c in enumerate((i, j, k)):
            name, args = HELPER_CALLS[c]
            got = getattr(mvalue, name)(*args)
            S.trans(1)
            if not _rel_close(got, _helper_exact(name, args), 1e-12):
                S.problem("value.%s%r as call %d of %s in a freshly loaded module" % (name, args, pos + 1,
                          [HELPER_CALLS[x][0] + repr(HELPER_CALLS[x][1]) for x in (i, j, k)[:pos + 1]]), float(_helper_exact(name, args)), got)
                return
    S.count("helper_histories", len(HELPER_CALLS))
    S.outcome(("helpers", i, j))


_NEAR = {"d": 20000}


def gen_near(label):
    d = _NEAR["d"]
    nmax = (99 * d) // 10000
    for n in range(-nmax, nmax + 1):
        yield [label, n, d, "mul"]
        if n != 0:
            yield [label, n, d, "div"]


# ---------------------------------------------------------------------------------------
# arith
# ---------------------------------------------------------------------------------------
def run_arith(case):
    """case = [label a, label b]"""
    S = engine.S
    S.sample(case)
    la, lb = case
    a, b = V.BY_LABEL[la], V.BY_LABEL[lb]
    fa, fb = a[1], b[1]
    da, db = 1 / a[2], 1 / b[2]                      # exact durations
    s = mvalue.add(fa, fb)
    S.trans(1)
    want_sum = 1 / (da + db)
    if not _rel_close(s, want_sum, REL_ARITH):
        S.problem("value.add(%s, %s)" % (la, lb), float(want_sum), s, detail={"exact": str(want_sum)})
        return
    back = mvalue.subtract(s, fb)
    S.trans(1)
    if not _rel_close(back, a[2], REL_ARITH):
        S.problem("value.subtract(value.add(%s, %s), %s)" % (la, lb, lb), fa, back)
    S.count("add_then_subtract_pairs")
    if la == lb:
        S.count("subtract_equal_skipped")
        S.outcome(("sum", str(want_sum)))
        return
    diff = mvalue.subtract(fa, fb)
    S.trans(1)
    want_diff = 1 / (da - db)
    S.outcome(("sum", str(want_sum), "diff", str(want_diff)))
    S.count("negative_differences" if want_diff < 0 else "positive_differences")
    if not _rel_close(diff, want_diff, REL_ARITH):
        S.problem("value.subtract(%s, %s)" % (la, lb), float(want_diff), diff, detail={"exact": str(want_diff)})
        return
    back2 = mvalue.add(diff, fb)
    S.trans(1)
    if not _rel_close(back2, a[2], REL_ARITH):
        S.problem("value.add(value.subtract(%s, %s), %s)" % (la, lb, lb), fa, back2)


def gen_arith(la):
    for item in V.VALUES:
        yield [la, item[0]]


# ---------------------------------------------------------------------------------------
# helpers
# ---------------------------------------------------------------------------------------
RATIOS = [(r1, r2) for r1 in range(1, 10) for r2 in range(1, 10)]


def run_helpers(case):
    """case = [label]: the named tuplet helpers and tuplet() itself on one vocabulary value."""
    S = engine.S
    S.sample(case)
    item = V.BY_LABEL[case[0]]
    v, ex = item[1], item[2]
    checks = [("triplet", (v,), ex * 3 / 2, (3, 2)), ("quintuplet", (v,), ex * 5 / 4, (5, 4)),
              ("septuplet", (v,), ex * 7 / 4, (7, 4)), ("septuplet", (v, True), ex * 7 / 4, (7, 4)),
              ("septuplet", (v, False), ex * 7 / 8, (7, 8))]
    for name, args, want, ratio in checks:
        got = getattr(mvalue, name)(*args)
        general = mvalue.tuplet(v, ratio[0], ratio[1])
        S.trans(2)
        if not _rel_close(got, want, REL_BUILD):
            S.problem("value.%s%r" % (name, args), float(want), got)
        if not _rel_close(got, Fraction(general), REL_BUILD):
            S.problem("value.%s%r vs value.tuplet(v, %d, %d)" % (name, args, ratio[0], ratio[1]), general, got)
    for r1, r2 in RATIOS:
        got = mvalue.tuplet(v, r1, r2)
        S.trans(1)
        if not _rel_close(got, ex * r1 / r2, REL_BUILD):
            S.problem("value.tuplet(%r, %d, %d)" % (v, r1, r2), float(ex * r1 / r2), got)
    S.outcome(case[0])
    S.count("helper_values")


# ---------------------------------------------------------------------------------------
# meter
# ---------------------------------------------------------------------------------------
def enc_num(x):
    if isinstance(x, bool):
        raise engine.HarnessError("bool is not enumerated")
    if isinstance(x, int):
        return ["i", str(x)]
    return ["f", x.hex() if x == x and abs(x) != float("inf") else repr(x)]


def dec_num(e):
    return int(e[1]) if e[0] == "i" else float.fromhex(e[1]) if e[1] not in ("inf", "-inf", "nan") else float(e[1])


def is_pow2_unit(u):
    """u is one of 1, 2, 4, 8, ... (as a number)."""
    if isinstance(u, float):
        if u != u or u in (float("inf"), float("-inf")) or not u.is_integer():
            return False
        u = int(u)
    return u >= 1 and (u & (u - 1)) == 0


def _short(x):
    """Readable rendering of a (possibly 300-digit) argument for site strings."""
    if isinstance(x, tuple):
        return "(" + ", ".join(_short(i) for i in x) + ")"
    r = repr(x)
    if len(r) <= 24:
        return r
    if isinstance(x, int):
        return "%s...%s<%d bits>" % (r[:6], r[-3:], x.bit_length())
    return r[:24] + "..."


def _call_predicate(S, name, arg):
    """Returns ('ok', truth) or ('bad', description); a blown horizon propagates (engine reports it)."""
    fn = getattr(mmeter, name)
    S.trans(1)
    try:
        got = engine.with_step_budget(fn, (arg,), budget=20000)
    except engine.StepBudgetExceeded as e:
        S.problem("meter.%s(%s)" % (name, _short(arg)), "an answer within the step horizon", "no result within horizon: %s" % e,
                  tags={"predicate": name, "how": "horizon"})
        return ("bad", "horizon")
    except Exception as e:                                       # noqa -- no error is documented for numbers
        S.problem("meter.%s(%s)" % (name, _short(arg)), "a truth value", e, tags={"predicate": name, "how": type(e).__name__})
        return ("bad", type(e).__name__)
    if not isinstance(got, (bool, int)):
        S.problem("meter.%s(%s)" % (name, _short(arg)), "a truth value", got, tags={"predicate": name, "how": "type"})
        return ("bad", "type")
    return ("ok", bool(got))


def run_meter(case):
    """case = [count, encoded unit]"""
    S = engine.S
    S.sample(case)
    count, unit = case[0], dec_num(case[1])
    if not isinstance(count, int) or isinstance(count, bool):
        raise engine.HarnessError("counts are integers")
    pow2 = is_pow2_unit(unit)
    valid = count > 0 and pow2
    want = {
        "valid_beat_duration": pow2,
        "is_valid": valid,
        "is_compound": valid and count % 3 == 0 and count >= 6,
        "is_asymmetrical": valid and count % 2 == 1,
        "is_simple": None,
    }
    obs = []
    for name in ("valid_beat_duration", "is_valid", "is_compound", "is_simple", "is_asymmetrical"):
        arg = unit if name == "valid_beat_duration" else (count, unit)
        tag, got = _call_predicate(S, name, arg)
        obs.append(got)
        if tag != "ok":
            continue
        if want[name] is not None and got != want[name]:
            S.problem("meter.%s(%s)" % (name, _short(arg)), want[name], got, tags={"predicate": name, "how": "answer"})
    S.outcome(tuple(obs))
    S.count("meters_valid" if valid else "meters_invalid")
    if want["is_compound"]:
        S.count("meters_compound")
    if want["is_asymmetrical"]:
        S.count("meters_asymmetrical")
    if isinstance(unit, float) and not pow2:
        S.count("float_units_not_pow2")
    if not isinstance(unit, float) and unit > 2 ** 64:
        S.count("huge_int_units")


def run_meter_pair(case):
    """case = [count1, unit1, count2, unit2]: in a freshly loaded meter module the first meter is asked about first
    (answers not judged here), then the second one is judged as usual."""
    import importlib
    S = engine.S
    importlib.reload(mmeter)
    c1, u1 = case[0], dec_num(case[1])
    for name in ("is_valid", "is_compound", "is_simple", "is_asymmetrical", "valid_beat_duration"):
        try:
            engine.with_step_budget(getattr(mmeter, name), (u1 if name == "valid_beat_duration" else (c1, u1),), budget=20000)
        except Exception:                                        # noqa -- judged by the meter clause
            pass
    S.count("meter_pairs")
    run_meter([case[2], case[3]])


def run_dots_order(case):
    """case = [value label base, [nr, nr, ...]]: in a freshly loaded value module the dotted forms of a base value are built
    in the given order of dot counts; each must be the documented value (and analyse back) whatever was built before."""
    import importlib
    from fractions import Fraction
    S = engine.S
    base_label, order = case
    importlib.reload(mvalue)
    base = V.BY_LABEL[base_label][1]
    for nr in order:
        got = mvalue.dots(base, nr)
        exact = Fraction(V.BY_LABEL[base_label][2]) / (2 - Fraction(1, 2 ** nr))
        S.trans(1)
        if not _rel_close(got, exact, 1e-12):
            S.problem("value.dots(%s, %d) after dots with %r in a freshly loaded module" % (base_label, nr, order[:order.index(nr)]),
                      float(exact), got)
            return
        back = mvalue.determine(got)
        if tuple(back[1:]) != (nr, 1, 1) or not _rel_close(back[0], Fraction(V.BY_LABEL[base_label][2]), 1e-12):
            S.problem("value.determine(value.dots(%s, %d))" % (base_label, nr), [base, nr, 1, 1], list(back))
            return
    S.count("dots_orders")
    S.outcome((base_label, tuple(order)))


def meter_units(thorough):
    ints = list(range(-8, 131)) + [255, 256, 257, 1000, 1024, 4096, 65536, 65537, 2 ** 31, 2 ** 32, 2 ** 40, 3 * 2 ** 40,
                                   2 ** 53, 2 ** 53 + 1, 2 ** 64, 2 ** 64 - 1, 10 ** 30, 2 ** 1000, 2 ** 1000 + 1, 3 * 2 ** 1000,
                                   2 ** 1023, 2 ** 1024, 2 ** 1025, 2 ** 1100, 3 * 2 ** 1100, 10 ** 400, -2 ** 1100]
    floats = [0.5, 0.25, 0.75, 1.5, 2.5, 3.0, 4.0, 6.0, 1.0, 2.0, 8.0, 16.0, 0.0, -0.0, -1.0, -2.0, -4.0, -0.5,
              1e-3, 1e-300, 5e-324, 0.1, 1.0000000000000002, 0.9999999999999999, 3.9999999999999996, 4.000000000000001,
              float(2 ** 40), float(2 ** 40) + 1.0, 2.0 ** 1000, 2.0 ** 1023, 1.5 * 2.0 ** 1000, 1e300, 1.7976931348623157e308,
              float("inf"), float("-inf"), float("nan")]
    if thorough:
        ints += list(range(131, 1100)) + [2 ** k for k in range(8, 1101, 7)] + [2 ** k + 2 ** (k // 2) for k in range(8, 1101, 13)]
        floats += [k / 8.0 for k in range(-40, 140)] + [2.0 ** k for k in range(-20, 1024, 9)] + \
                  [3.0 * 2.0 ** k for k in range(-20, 1000, 31)]
    seen, out = set(), []
    for u in ints + floats:
        key = tuple(enc_num(u))
        if key not in seen:
            seen.add(key)
            out.append(enc_num(u))
    return out


_METER = {"units": None}


def gen_meter(count):
    for u in _METER["units"]:
        yield [count, u]


CLAUSES = {
    "construct": run_construct,
    "near": run_near,
    "arith": run_arith,
    "helpers": run_helpers,
    "meter": run_meter,
    "meter_pair": run_meter_pair,
    "dots_order": run_dots_order,
    "near_int": run_near_int,
    "helper_history": run_helper_history,
}


def explore(ctx):
    ctx.use_thorough_bounds('thorough bounds take about ten seconds')
    if ctx.want("construct"):
        ctx.bound("constructions", CONSTRUCTIONS)
        ctx.bound("bases", [n for n, _ in V.BASES])
        ctx.product("construct", [n for n, _ in V.BASES], gen_construct)
    if ctx.want("near"):
        _NEAR["d"] = ctx.pick(20000, 100000)
        labels = [i[0] for i in near_items()]
        if len(labels) != 50:
            raise engine.HarnessError("expected 50 recognised undotted/single-dotted values, got %d" % len(labels))
        ctx.bound("perturbation_step", 1.0 / _NEAR["d"])
        ctx.bound("perturbation_max", 0.0099)
        ctx.bound("perturbed_values", len(labels))
        ctx.product("near", labels, gen_near)
    if ctx.want("arith"):
        ctx.bound("arith_pairs", len(V.VALUES) ** 2)
        ctx.product("arith", [i[0] for i in V.VALUES], gen_arith)
    if ctx.want("helpers"):
        ctx.bound("tuplet_ratios", "1..9 : 1..9")
        ctx.serial("helpers", [[i[0]] for i in V.VALUES])
    if ctx.want("meter"):
        _METER["units"] = meter_units(not ctx.quick)
        counts = list(range(-3, 14)) + ctx.pick([15, 18, 99], list(range(14, 40)) + [99, 300, 2 ** 70, 3 * 2 ** 70, -2 ** 70])
        ctx.bound("meter_counts", counts)
        ctx.bound("meter_units", len(_METER["units"]))
        ctx.product("meter", counts, gen_meter)
    if ctx.want("near_int"):
        ctx.bound("near_int", "every int 1..400")
        ctx.serial("near_int", list(range(1, 401)))
        if not ctx.only:
            ctx.guard("ints judged near a recognised value", ctx.counter("near_ints_judged"), 10)
    if ctx.want("helper_history"):
        nh = len(HELPER_CALLS)
        ctx.bound("helper_history", "every sequence of 3 calls over %d helper calls, each in a freshly loaded module" % nh)
        ctx.product("helper_history", list(range(nh)), lambda i: ([i, j] for j in range(nh)))
    if ctx.want("dots_order"):
        import itertools as _it
        orders = [list(p) for k in (1, 2, 3, 4) for p in _it.permutations((1, 2, 3, 4), k)]
        ctx.bound("dots_order", "every ordered selection of dot counts 1..4 (%d) x base values 1, 4, 32, each in a freshly loaded module" % len(orders))
        ctx.product("dots_order", ["1", "4", "32"], lambda b: ([b, o] for o in orders))
    if ctx.want("meter_pair"):
        pc = [-1, 0, 1, 2, 3, 5, 6, 9]
        pu = [enc_num(u) for u in (1, 2, 4, 8, 16, 3, 6, 0, 8.0, 4.0, 0.5)]
        ctx.bound("meter_pair", "every ordered pair of meters over counts %s x %d units, each pair in a freshly loaded module" % (pc, len(pu)))
        ctx.product("meter_pair", [(c, u) for c in pc for u in pu], lambda m: ([m[0], m[1], c2, u2] for c2 in pc for u2 in pu))
    if not ctx.only:
        ctx.guard("constructed values analysed", ctx.counter("constructed_values_analysed"), 200)
        ctx.guard("near-miss values below the centre", ctx.counter("near_below"), 9000)
        ctx.guard("near-miss values above the centre", ctx.counter("near_above"), 9000)
        ctx.guard("value pairs added and subtracted back", ctx.counter("add_then_subtract_pairs"), 6400)
        ctx.guard("differences with a negative result", ctx.counter("negative_differences"), 1000)
        ctx.guard("valid meters", ctx.counter("meters_valid"), 100)
        ctx.guard("invalid meters", ctx.counter("meters_invalid"), 100)
        ctx.guard("compound meters", ctx.counter("meters_compound"), 20)
        ctx.guard("asymmetrical meters", ctx.counter("meters_asymmetrical"), 50)
        ctx.guard("non-power-of-two float beat units", ctx.counter("float_units_not_pow2"), 100)
        ctx.guard("integer beat units beyond 2**64", ctx.counter("huge_int_units"), 50)


# ---------------------------------------------------------------------------------------
# known-finding predicates (none proposed: both defects have one-line fixes, see fixes_proposed/c09_*.diff)
# ---------------------------------------------------------------------------------------
KNOWN = {}
