# -*- coding: utf-8 -*-
"""C17 -- writing a composition to MIDI and reading it back returns the same music
(DESIGN.md section 4, C17).

Every program of the bounded zoo (restricted to velocities 1..127 and values with whole tick
counts) is written with write_Composition and read back with MIDI_to_Composition; both object
graphs are flattened with attribute reads only and compared as the statement says."""
import collections
import io
import itertools
import os
import zlib
from fractions import Fraction

from mc import engine
from mc.ref import pitch as P
from mc.ref import smf
from mc.ref import timeline as TL
from mc.checks import zoo_midi as Z

from mingus.midi import midi_file_in as MFI
from mingus.midi import midi_file_out as MFO
from mingus.midi.midi_track import MidiTrack

PROPERTY = "C17"
RULE = ("the C16 program zoo restricted to round-trippable programs (all reachable bars of a real Bar over content x "
        "whole-tick values, tracks, compositions, deviation-bounded assignments x 12 patterns), every integer bpm in the "
        "bound, names x instrument numbers, 30 keys x 5 meters, the VLQ reader on the writer's output over integer ranges, "
        "and single-field corruptions of written files; distinct_nontrivial = distinct CRC32 of written files / distinct "
        "observed results")
ASSUMPTIONS = [
    "length in ticks of an entry on either side = round(288 / value) (72 ticks per quarter); a rest is an entry that is "
    "None or holds no notes; adjacent rests are merged and trailing rests stripped on both sides before comparing",
    "'set of pitches' = set of 12*octave + semitone numbers of the entry's notes; channel and velocity are compared per "
    "pitch of each sounding entry",
    "a composition without tracks is not judged (no tempo can be stored in a file without a track chunk)",
    "'every integer bpm the format can hold' = bpm >= 4 (3 bytes of microseconds per quarter) for which "
    "60000000 div (60000000 div bpm) = bpm, i.e. the stored value determines bpm; that is every bpm <= 7745 and a "
    "thinning set above (the tempo written is fixed by C16 as 60000000 div bpm)",
    "the instrument number is only expected back for tracks that contain a note (C16 ties the program change to the "
    "first note); names are ASCII",
    "meter and key are compared on every bar that comes back, only for tracks written in a single meter and key and "
    "having at least one bar; key = (tonic name, mode)",
    "'rejected with an error' = any exception; a corrupted file that is still returned as a (composition, bpm) pair is a "
    "violation",
    "the writer is trusted here only as far as C16 establishes it; C17 violations whose cause is a C16 writer defect "
    "disappear with the C16 fixes",
]


# ---------------------------------------------------------------------------------------
# flattening (attribute reads only)
# ---------------------------------------------------------------------------------------
def flatten_bars(bars):
    """bars: real Bar objects -> [(ticks, {pitch: (channel, velocity)})], rests merged, trailing rests stripped."""
    seq = []
    for bar in bars:
        for e in bar.bar:
            value, cont = e[1], e[2]
            ticks = TL.ticks_of(value)
            notes = {}
            if cont is not None:
                for n in cont.notes:
                    notes[P.note_int(n.name, n.octave)] = (n.channel, n.velocity)
            if not notes and seq and not seq[-1][1]:
                seq[-1] = (seq[-1][0] + ticks, {})
            else:
                seq.append((ticks, notes))
    while seq and not seq[-1][1]:
        seq.pop()
    return seq


def key_pair(key):
    k = key.key if hasattr(key, "key") else key
    return (k[0].upper() + k[1:], "minor" if k[0].islower() else "major")


def in_scope(comp):
    """velocity 1..127 and whole tick counts"""
    for t in comp.tracks:
        for b in t.bars:
            for e in b.bar:
                if TL.ticks_exact(e[1]).denominator != 1 and abs(TL.ticks_exact(e[1]) - round(TL.ticks_exact(e[1]))) > Fraction(1, 10 ** 9):
                    return False
                if e[2] is not None:
                    for n in e[2].notes:
                        if not 1 <= n.velocity <= 127:
                            return False
    return True


def run_roundtrip(case):
    """case = {"comp": composition recipe, "bpm": int}"""
    S = engine.S
    recipe, bpm = case["comp"], case.get("bpm", 120)
    comp = Z.build_composition(recipe)
    if not comp.tracks:
        S.count("skipped_no_tracks")
        return
    if not in_scope(comp):
        raise engine.HarnessError("program outside the C17 domain enumerated: %r" % (case,))
    S.sample(case)
    with Z.midi_dir("verif-c17-") as d:
        path = os.path.join(d, "r.mid")
        ok = MFO.write_Composition(path, comp, bpm)
        if not os.path.exists(path):
            S.problem("write_Composition wrote no file", "a MIDI file", {"returned": ok})
            return
        with open(path, "rb") as fh:
            crc = zlib.crc32(fh.read())
        result = MFI.MIDI_to_Composition(path)
    S.trans(2)
    S.outcome(crc)
    if not (isinstance(result, tuple) and len(result) == 2):
        S.problem("MIDI_to_Composition result", "(composition, bpm)", repr(result)[:200])
        return
    back, bpm_back = result
    if bpm_back != bpm:
        S.problem("tempo read back", bpm, bpm_back)
    if len(back.tracks) != len(comp.tracks):
        S.problem("number of tracks read back", len(comp.tracks), len(back.tracks))
        return
    for ti, (tw, tr, trec) in enumerate(zip(comp.tracks, back.tracks, recipe["tracks"])):
        want = flatten_bars(tw.bars)
        got = flatten_bars(tr.bars)
        want_seq = [(t, sorted(n)) for (t, n) in want]
        got_seq = [(t, sorted(n)) for (t, n) in got]
        if want_seq != got_seq:
            S.problem("track %d: flattened (ticks, pitches) sequence" % ti, want_seq[:12], got_seq[:12], tags={"group": "sequence"})
        else:
            S.count("entries_round_tripped", len(want))
            if want and not want[0][1]:
                S.count("tracks_with_leading_rest")
            if any(not n for (_t, n) in want[1:]):
                S.count("tracks_with_inner_rest")
            for i, ((_t, nw), (_t2, ng)) in enumerate(zip(want, got)):
                if nw != ng:
                    S.problem("track %d entry %d: channel and velocity per pitch" % (ti, i), nw, ng, tags={"group": "dynamics"})
                    break
                S.count("notes_round_tripped", len(nw))
        if tr.name != tw.name:
            S.problem("track %d: name read back" % ti, tw.name, tr.name)
        instr = trec.get("instrument")
        if isinstance(instr, (list, tuple)) and want:
            nr_back = getattr(tr.instrument, "instrument_nr", None)
            if nr_back != instr[1]:
                S.problem("track %d: MIDI instrument number read back" % ti, instr[1], nr_back)
            S.count("instrument_numbers_round_tripped")
        settings = set((tuple(b.meter), key_pair(b.key)) for b in tw.bars)
        if len(settings) == 1:
            (meter, key), = settings
            bad = [(i, tuple(b.meter), key_pair(b.key)) for i, b in enumerate(tr.bars)
                   if tuple(b.meter) != meter or key_pair(b.key) != key]
            if bad:
                S.problem("track %d: meter and key of the bars read back" % ti, [meter, key], bad[:4], tags={"group": "key_meter"})
            else:
                S.count("bars_key_meter_round_tripped", len(tr.bars))
                if key[1] == "minor":
                    S.count("minor_key_tracks")
                if P.KEY_SIG[key[0].lower() if key[1] == "minor" else key[0]] != 0:
                    S.count("accidental_key_tracks")
    S.count("compositions_round_tripped")


# ---------------------------------------------------------------------------------------
def run_bpm(case):
    """case = bpm: one track, one bar, one note"""
    S = engine.S
    bpm = case
    if 60000000 // (60000000 // bpm) != bpm or bpm < 4:
        raise engine.HarnessError("bpm %r is outside the domain" % bpm)
    comp = Z.build_composition({"tracks": [{"name": None, "instrument": None, "bars": [Z.bar_recipe([("N", 4)])]}]})
    with Z.midi_dir("verif-c17-") as d:
        path = os.path.join(d, "b.mid")
        MFO.write_Composition(path, comp, bpm)
        result = MFI.MIDI_to_Composition(path)
    S.trans(2)
    S.outcome(result[1])
    S.count("bpm_values")
    if result[1] != bpm:
        S.problem("tempo read back", bpm, result[1])


def run_vlq_inverse(case):
    """case = [lo, hi): parse_varbyte_as_int(int_to_varbyte(n)) == (n, number of bytes)"""
    S = engine.S
    lo, hi = case
    enc = MidiTrack().int_to_varbyte
    dec = MFI.MidiFile().parse_varbyte_as_int
    bio = io.BytesIO
    reported = 0
    for n in range(lo, hi):
        b = enc(n)
        got = dec(bio(b))
        if got != (n, len(b)):
            if reported < 3:
                S.problem("parse_varbyte_as_int(int_to_varbyte(%d))" % n, [n, len(b)], got, case=[n, n + 1])
            reported += 1
    # the reader alone on the standard encoding (independent of the library's encoder)
    for n in (lo, (lo + hi) // 2, hi - 1):
        b = smf.vlq_encode(n)
        got = dec(bio(b + b"\x00"))
        if got != (n, len(b)):
            S.problem("parse_varbyte_as_int(standard encoding of %d)" % n, [n, len(b)], got, case=[n, n + 1])
    S.trans(2 * (hi - lo))
    S.count("vlq_values", hi - lo)
    S.outcome((len(smf.vlq_encode(lo)), len(smf.vlq_encode(hi - 1))))


def corruptions(data):
    """(label, bytes) single-field corruptions that make the file 'not MIDI'."""
    out = []
    # header tag bytes 0..3
    for i in range(4):
        for v in (0x00, 0xFF, data[i] ^ 1):
            out.append(("header tag byte %d := 0x%02x" % (i, v), data[:i] + bytes([v]) + data[i + 1:]))
    # whole tags replaced by other four-letter tags, including the *other* valid chunk tag
    for tag in (b"MTrk", b"RIFF", b"mthd", b"MThD"):
        out.append(("header tag := %r" % tag, tag + data[4:]))
    # impossible format numbers
    for fmt in (3, 255, 65535):
        out.append(("format := %d" % fmt, data[:8] + fmt.to_bytes(2, "big") + data[10:]))
    # every track tag
    pos = 14
    k = 0
    while pos + 8 <= len(data):
        if data[pos:pos + 4] != b"MTrk":
            raise engine.HarnessError("corruption helper lost the chunk structure")
        for i in range(4):
            for v in (0x00, 0xFF, data[pos + i] ^ 1):
                out.append(("track %d tag byte %d := 0x%02x" % (k, i, v), data[:pos + i] + bytes([v]) + data[pos + i + 1:]))
        for tag in (b"MThd", b"RIFF", b"mtrk", b"MTrK"):
            out.append(("track %d tag := %r" % (k, tag), data[:pos] + tag + data[pos + 4:]))
        pos += 8 + int.from_bytes(data[pos + 4:pos + 8], "big")
        k += 1
    return out


def run_corrupt(case):
    """case = {"comp": recipe}: write it, corrupt one field at a time, every variant must be refused."""
    S = engine.S
    comp = Z.build_composition(case["comp"])
    with Z.midi_dir("verif-c17-") as d:
        path = os.path.join(d, "good.mid")
        MFO.write_Composition(path, comp, 120)
        with open(path, "rb") as fh:
            data = fh.read()
        smf.parse(data)                     # the uncorrupted file is a MIDI file
        good = MFI.MIDI_to_Composition(path)
        if not (isinstance(good, tuple) and len(good[0].tracks) == len(comp.tracks)):
            S.problem("uncorrupted file", "read back", repr(good)[:100])
        for label, blob in corruptions(data):
            p = os.path.join(d, "bad.mid")
            with open(p, "wb") as fh:
                fh.write(blob)
            try:
                smf.parse(blob)
                raise engine.HarnessError("corruption %r is still a MIDI file for the reference reader" % label)
            except smf.SMFError:
                pass
            S.trans(1)
            try:
                res = MFI.MIDI_to_Composition(p)
            except Exception as e:                                  # noqa -- any error is a rejection
                S.count("corrupt_rejected")
                S.outcome(type(e).__name__)
                continue
            S.problem("MIDI_to_Composition(%s)" % label, "an exception", "returned %r" % (res,), detail={"corruption": label})


CLAUSES = {
    "bars": run_roundtrip,
    "tracks": run_roundtrip,
    "compositions": run_roundtrip,
    "deviations": run_roundtrip,
    "keys_meters": run_roundtrip,
    "names_instruments": run_roundtrip,
    "bpm": run_bpm,
    "vlq_inverse": run_vlq_inverse,
    "corrupt": run_corrupt,
    "tick_counts": run_roundtrip,
}


# ---------------------------------------------------------------------------------------
# enumeration
# ---------------------------------------------------------------------------------------
WHOLE_VALUES = [1, 2, 4, 8, 16, 32, 3, 6, 12, 24, "4.", "8.", "2."]
BAR_VALUES = [4, 8, 2]
BAR_MAX = 3
BAR_METER = (4, 4)
BAR_EARLIER = []


def gen_bars(shard):
    k0, v0 = shard
    pats = [[]] if k0 == "" else Z.reachable_bars(Z.SYMBOLS, BAR_VALUES, BAR_MAX, meter=BAR_METER, first=(k0, v0))
    for pat in pats:
        if any(tuple(mt) == tuple(BAR_METER) and len(pat) <= mx and all(v in vals for (_k, v) in pat) for (vals, mx, mt) in BAR_EARLIER):
            continue                                    # already enumerated by an earlier pass
        yield {"comp": {"tracks": [{"name": None, "instrument": None, "bars": [Z.bar_recipe(pat, meter=BAR_METER)]}]}, "bpm": 120}


TRACK_BAR_SETTINGS = [("C", (4, 4)), ("f#", (4, 4)), ("Bb", (12, 8))]


def gen_tracks(shard):
    p0, mixed = shard
    n = len(Z.PATTERNS_WHOLE)
    for length in (1, 2, 3):
        for rest in itertools.product(range(n), repeat=length - 1):
            pats = (p0,) + rest
            if mixed:
                bars = [Z.bar_recipe(Z.PATTERNS_WHOLE[p], key=TRACK_BAR_SETTINGS[i][0], meter=TRACK_BAR_SETTINGS[i][1])
                        for i, p in enumerate(pats)]
            else:
                bars = [Z.bar_recipe(Z.PATTERNS_WHOLE[p], key="eb", meter=(4, 4)) for p in pats]
            for instr in (None, ["midi", 13]):
                yield {"comp": {"tracks": [{"name": "Tr", "instrument": instr, "bars": bars}]}, "bpm": 120}
    if not mixed:
        # one Bar object standing at several places of a track
        for p1 in range(n):
            two = [Z.bar_recipe(Z.PATTERNS_WHOLE[p0], key="G", meter=(4, 4)), Z.bar_recipe(Z.PATTERNS_WHOLE[p1], key="G", meter=(4, 4))]
            for order in ([0, 0], [0, 1, 0], [0, 1, 1], [1, 0, 0], [0, 0, 1, 1]):
                yield {"comp": {"tracks": [{"name": "Sh", "instrument": None, "bars": two, "order": order}]}, "bpm": 120}


COMPOSITION_TRACKS = [
    {"name": "a", "instrument": None, "bars": [0]},
    {"name": "b", "instrument": ["midi", 1], "bars": [2, 4]},
    {"name": "c", "instrument": None, "bars": [5, 1]},
    {"name": "d", "instrument": ["midi", 127], "bars": [9, 9]},
    {"name": "e", "instrument": "Guitar", "bars": [7, 8]},
    {"name": "f", "instrument": None, "bars": []},
]


def _comp_track(j):
    t = COMPOSITION_TRACKS[j]
    return {"name": t["name"], "instrument": t["instrument"],
            "bars": [Z.bar_recipe(Z.PATTERNS_WHOLE[p], channel=(j + 1) % 16, key=("G", "d")[j % 2]) for p in t["bars"]]}


def gen_compositions(shard):
    j0 = shard
    n = len(COMPOSITION_TRACKS)
    for length in (1, 2, 3):
        for rest in itertools.product(range(n), repeat=length - 1):
            yield {"comp": {"tracks": [_comp_track(j) for j in (j0,) + rest]}, "bpm": 120}


DEV_DEPTH = 2
DEV_DIMS = None
DEV_STRIDE = 4


def dev_dims(thorough):
    d = collections.OrderedDict()
    d["key"] = Z.KEYS30
    d["meter"] = Z.METERS
    d["channel"] = [1, 0, 9, 15] if not thorough else [1, 0] + list(range(2, 16))
    d["velocity"] = [64, 1, 127]
    d["instrument"] = Z.INSTRUMENTS
    d["bpm"] = [120, 60, 121, 240, 4, 1000]
    d["tracks"] = [1, 2, 3]
    d["nbars"] = [1, 2, 3]
    d["register"] = ["mid", "low", "high", "flat"]
    d["name"] = Z.NAMES
    return d


def gen_deviations(shard):
    pattern, r = shard
    for i, (a, _k) in enumerate(Z.deviations(DEV_DIMS, DEV_DEPTH)):
        if i % DEV_STRIDE != r:
            continue
        a = dict(a, pattern=pattern)
        yield {"comp": Z.program_from_assignment(a, Z.PATTERNS_WHOLE), "bpm": a["bpm"]}


def gen_tick_counts(shard):
    """every whole tick count t of the shard as the value 288.0 / t: a note, a rest and a chord of that length"""
    for t in shard:
        beats = max(1, -(-3 * t // 72))
        for first in ("N", "R"):
            pat = [(first, ["ticks", t]), ("R" if first == "N" else "M", ["ticks", t]), ("CH", ["ticks", t])]
            yield {"comp": {"tracks": [{"name": "t%d" % t, "instrument": None,
                                        "bars": [Z.bar_recipe(pat, key="C", meter=(beats, 4))]}]}, "bpm": 120}


def run_format_words(case):
    """case = high byte: the 256 format words with that high byte; only 0, 1, 2 are MIDI formats."""
    S = engine.S
    hi = case
    comp = Z.build_composition({"tracks": [_comp_track(0)]})
    with Z.midi_dir("verif-c17-") as d:
        path = os.path.join(d, "good.mid")
        MFO.write_Composition(path, comp, 120)
        with open(path, "rb") as fh:
            data = fh.read()
        p = os.path.join(d, "fmt.mid")
        for lo in range(256):
            fmt = hi * 256 + lo
            blob = data[:8] + fmt.to_bytes(2, "big") + data[10:]
            with open(p, "wb") as fh:
                fh.write(blob)
            S.trans(1)
            try:
                res = MFI.MIDI_to_Composition(p)
            except Exception as e:                                  # noqa -- any error is a rejection
                if fmt <= 2:
                    S.problem("MIDI_to_Composition(format := %d)" % fmt, "read as music", "%s: %s" % (type(e).__name__, e))
                S.count("format_words_rejected")
                continue
            if fmt > 2:
                S.problem("MIDI_to_Composition(format := 0x%04x)" % fmt, "an exception", "returned %r" % (res,),
                          detail={"corruption": "format word %d" % fmt})
    S.outcome(hi)


CLAUSES["format_words"] = run_format_words


def gen_keys_meters(shard):
    key = shard
    for meter in Z.METERS:
        for p in (0, 2, 3, 4, 9, 10):
            for nbars in (1, 2):
                bars = [Z.bar_recipe(Z.PATTERNS_WHOLE[(p + 5 * i) % 12], key=key, meter=meter) for i in range(nbars)]
                yield {"comp": {"tracks": [{"name": None, "instrument": None, "bars": bars}]}, "bpm": 120}
    if key in ("C", "f#", "Cb"):
        # counts that need the whole data byte of the time signature event
        for meter in ((128, 128), (192, 128), (255, 128), (200, 64)):
            for p in (0, 3):
                for nbars in (1, 2):
                    bars = [Z.bar_recipe(Z.PATTERNS_WHOLE[(p + 5 * i) % 12], key=key, meter=meter) for i in range(nbars)]
                    yield {"comp": {"tracks": [{"name": None, "instrument": None, "bars": bars}]}, "bpm": 120}
    # compositions whose tracks differ in key (and meter): every ordered pair of keys, and three tracks returning to the first key
    for j, key2 in enumerate(Z.KEYS30):
        m1, m2 = Z.METERS[j % len(Z.METERS)], Z.METERS[(j + 1) % len(Z.METERS)]
        t1 = {"name": "k1", "instrument": None, "bars": [Z.bar_recipe(Z.PATTERNS_WHOLE[0], key=key, meter=m1)]}
        t2 = {"name": "k2", "instrument": None, "bars": [Z.bar_recipe(Z.PATTERNS_WHOLE[3], key=key2, meter=m2)]}
        yield {"comp": {"tracks": [t1, t2]}, "bpm": 120}
        if j % 5 == 0:
            yield {"comp": {"tracks": [t1, t2, dict(t1, name="k3")]}, "bpm": 90}


def _summary(result):
    comp, bpm = result
    return [bpm, [[t.name, [(ticks, sorted(n.items())) for ticks, n in flatten_bars(t.bars)],
                   [(tuple(b.meter), key_pair(b.key)) for b in t.bars]] for t in comp.tracks]]


REUSE_PROGRAMS = [
    {"comp": {"tracks": [{"name": "p0", "instrument": None, "bars": [Z.bar_recipe(Z.PATTERNS_WHOLE[0], key="C", meter=(4, 4))]}]}, "bpm": 120},
    {"comp": {"tracks": [{"name": "p1", "instrument": ["midi", 40], "bars": [Z.bar_recipe(Z.PATTERNS_WHOLE[3], key="Ab", meter=(3, 4))]}]}, "bpm": 77},
    {"comp": {"tracks": [{"name": "p2a", "instrument": None, "bars": [Z.bar_recipe(Z.PATTERNS_WHOLE[2], key="f#", meter=(6, 8))]},
                         {"name": "p2b", "instrument": ["midi", 5], "bars": [Z.bar_recipe(Z.PATTERNS_WHOLE[1], key="C", meter=(4, 4))]}]}, "bpm": 200},
    {"comp": {"tracks": [{"name": "p3", "instrument": None, "bars": []}]}, "bpm": 120},
    {"comp": {"tracks": [{"name": "", "instrument": None, "bars": [Z.bar_recipe(Z.PATTERNS_WHOLE[5], key="a", meter=(2, 2))]}]}, "bpm": 60},
]


def run_reader_reuse(case):
    """case = [i, j, k]: one reader object reads the files of programs i, j, k in turn; every result must be what a
    fresh reader makes of that file."""
    S = engine.S
    with Z.midi_dir("verif-c17-") as d:
        paths, fresh = [], []
        for n, idx in enumerate(case):
            prog = REUSE_PROGRAMS[idx]
            path = os.path.join(d, "f%d.mid" % n)
            MFO.write_Composition(path, Z.build_composition(prog["comp"]), prog["bpm"])
            paths.append(path)
            fresh.append(_summary(MFI.MidiFile().MIDI_to_Composition(path)))
            viafn = _summary(MFI.MIDI_to_Composition(path))
            if viafn != fresh[-1]:
                S.problem("MIDI_to_Composition(file of program %d) vs a new MidiFile().MIDI_to_Composition" % idx, fresh[-1], viafn)
        reader = MFI.MidiFile()
        for n, idx in enumerate(case):
            got = _summary(reader.MIDI_to_Composition(paths[n]))
            S.trans(1)
            if got != fresh[n]:
                S.problem("one reader object reading the files of programs %r in turn: result %d" % (list(case), n + 1), fresh[n], got)
                break
    S.count("reader_reuse_sequences")
    S.outcome(tuple(case))


CLAUSES["reader_reuse"] = run_reader_reuse

REWRITE_EDITS = [["none"], ["track_transpose", "3", True], ["track_transpose", "b2", False], ["track_augment"], ["bar_diminish", 0],
                 ["note_octave_up"], ["note_set", "F#", 5], ["deepcopy_then", ["track_transpose", "5", True]]]


def _apply_rewrite_edit(comp, edit):
    import copy
    how = edit[0]
    if how == "deepcopy_then":
        comp = copy.deepcopy(comp)
        return _apply_rewrite_edit(comp, edit[1])
    t = comp.tracks[0]
    if how == "track_transpose":
        t.transpose(edit[1], edit[2])
    elif how == "track_augment":
        t.augment()
    elif how == "bar_diminish":
        t.bars[edit[1]].diminish()
    elif how in ("note_octave_up", "note_set"):
        for b in t.bars:
            for e in b.bar:
                if e[2] is not None and len(e[2].notes):
                    if how == "note_octave_up":
                        e[2].notes[0].octave_up()
                    else:
                        e[2].notes[0].set_note(edit[1], edit[2])
                    return comp
    elif how != "none":
        raise engine.HarnessError("unknown edit %r" % (edit,))
    return comp


def run_rewrite(case):
    """case = [program index, edit]: a composition is written, edited in place (or deep-copied and edited) and written
    again; the second file must read back as the edited music."""
    S = engine.S
    pi, edit = case
    prog = REUSE_PROGRAMS[pi]
    comp = Z.build_composition(prog["comp"])
    if not comp.tracks or not any(len(b.bar) for b in comp.tracks[0].bars):
        S.count("rewrite_skipped_nothing_to_edit")
        return
    with Z.midi_dir("verif-c17-") as d:
        p1, p2 = os.path.join(d, "first.mid"), os.path.join(d, "second.mid")
        MFO.write_Composition(p1, comp, prog["bpm"])
        first = MFI.MIDI_to_Composition(p1)
        comp2 = _apply_rewrite_edit(comp, edit)
        MFO.write_Composition(p2, comp2, prog["bpm"])
        back, bpm_back = MFI.MIDI_to_Composition(p2)
    S.trans(4)
    site = "written again after %r" % (edit,)
    if bpm_back != prog["bpm"]:
        S.problem(site + ": tempo read back", prog["bpm"], bpm_back)
    if len(back.tracks) != len(comp2.tracks):
        S.problem(site + ": number of tracks read back", len(comp2.tracks), len(back.tracks))
        return
    for ti, (tw, tr) in enumerate(zip(comp2.tracks, back.tracks)):
        want, got = flatten_bars(tw.bars), flatten_bars(tr.bars)
        if [(t, sorted(n.items())) for t, n in want] != [(t, sorted(n.items())) for t, n in got]:
            S.problem("%s: track %d: flattened (ticks, pitches with channel and velocity) sequence" % (site, ti),
                      [(t, sorted(n)) for t, n in want][:12], [(t, sorted(n)) for t, n in got][:12])
    S.count("rewrites")
    S.outcome((pi, edit[0]))


CLAUSES["rewrite"] = run_rewrite



NAME_SET = ["", "a", "Untitled", "<&>\"'", "Lead 1", "with  spaces ", "~!@#$%^&*()_+{}|:?", "x" * 127, "x" * 128, "y" * 200, "z" * 16384]


def gen_names_instruments(shard):
    nr = shard
    for name in NAME_SET if nr < 3 or nr == 127 else NAME_SET[:5]:
        for p in (0, 2):
            yield {"comp": {"tracks": [{"name": name, "instrument": ["midi", nr], "bars": [Z.bar_recipe(Z.PATTERNS_WHOLE[p])]}]}, "bpm": 120}


def bpm_domain(thorough):
    top = 7745 if thorough else 1000
    out = list(range(4, top + 1))
    if thorough:
        extra = sorted(set([7746, 8000, 10000, 12000, 15000, 20000, 30000, 40000, 50000, 60000, 100000, 120000, 200000, 250000,
                            500000, 1000000, 2000000, 3000000, 4000000, 5000000, 6000000, 10000000, 12000000, 15000000, 20000000,
                            30000000, 60000000]))
        out += [b for b in extra if 60000000 // (60000000 // b) == b]
    return out


def vlq_ranges(thorough):
    block = 1 << 16
    if thorough:
        return [[lo, lo + block] for lo in range(0, 1 << 28, block)]
    out = [[lo, lo + 4096] for lo in range(0, 1 << 17, 4096)]
    for k in (14, 21, 28):                 # 2^14 +- 2048 already lies inside the dense range
        for lo, hi in ([(1 << k) - 2048, 1 << k], [1 << k, min((1 << k) + 2048, 1 << 28)]):
            lo = max(lo, 1 << 17)
            if lo < hi:
                out.append([lo, hi])
    return out


def explore(ctx):
    global BAR_VALUES, BAR_MAX, BAR_METER, BAR_EARLIER, DEV_DEPTH, DEV_DIMS
    thorough = not ctx.quick
    if ctx.want("vlq_inverse"):
        ranges = vlq_ranges(thorough)
        ctx.bound("vlq_values", "all of 0 .. 2^28-1" if thorough else "[0, 2^17) and +-2048 around 2^14, 2^21, 2^28")
        nsh = 64 if thorough else 8
        ctx.product("vlq_inverse", [ranges[i::nsh] for i in range(nsh)], lambda rs: iter(rs))
    if ctx.want("bpm"):
        dom = bpm_domain(thorough)
        ctx.bound("bpm", "%d .. %d%s" % (dom[0], 7745 if thorough else 1000, " and %d larger values the format holds exactly" % (len(dom) - 7742) if thorough else ""))
        nsh = 16
        ctx.product("bpm", [dom[i::nsh] for i in range(nsh)], lambda bs: iter(bs))
    if ctx.want("bars"):
        passes = [([4, 8, 2], ctx.pick(3, 4), (4, 4)), (WHOLE_VALUES, 2, (4, 4))]
        if thorough:
            passes.append(([4, 8, 2, "4.", 6, "8.", 16], 3, (4, 4)))
            passes.append(([4, 8, 2], 3, (6, 8)))
        ctx.bound("bars", [{"symbols": Z.SYMBOLS, "values": v, "max_entries": m, "meter": mt} for v, m, mt in passes])
        for i, (vals, mx, mt) in enumerate(passes):
            BAR_VALUES, BAR_MAX, BAR_METER, BAR_EARLIER = vals, mx, mt, passes[:i]
            ctx.product("bars", [("", 0)] + [(k, v) for k in Z.SYMBOLS for v in vals], gen_bars)
    if ctx.want("tracks"):
        ctx.bound("tracks", "1..3 bars from the 12-pattern whole-tick zoo x {one key/meter, three keys/two meters} x {no instrument, MIDI 13}")
        ctx.product("tracks", [(p, m) for p in range(len(Z.PATTERNS_WHOLE)) for m in (False, True)], gen_tracks)
    if ctx.want("compositions"):
        ctx.bound("compositions", "1..3 tracks from a 6-track zoo")
        ctx.product("compositions", list(range(len(COMPOSITION_TRACKS))), gen_compositions)
    if ctx.want("deviations"):
        DEV_DEPTH = ctx.pick(2, 3)
        DEV_DIMS = dev_dims(thorough)
        ctx.bound("deviation_depth", DEV_DEPTH)
        ctx.bound("deviation_dims", {k: len(v) for k, v in DEV_DIMS.items()})
        ctx.bound("deviation_assignments_per_pattern", Z.count_deviations(DEV_DIMS, DEV_DEPTH))
        ctx.product("deviations", [(p, r) for p in range(len(Z.PATTERNS_WHOLE)) for r in range(DEV_STRIDE)], gen_deviations)
    if ctx.want("keys_meters"):
        ctx.bound("keys_meters", "30 keys x 5 meters x 6 patterns x 1..2 bars")
        ctx.product("keys_meters", list(Z.KEYS30), gen_keys_meters)
    if ctx.want("names_instruments"):
        ctx.bound("names_instruments", "instrument numbers 0..127 x names (lengths 0, 1, .., 127, 128, 200, 16384)")
        ctx.product("names_instruments", list(range(128)), gen_names_instruments)
    if ctx.want("tick_counts"):
        tmax = ctx.pick(576, 1152)
        ctx.bound("tick_counts", "every whole tick count 1..%d as the float value 288.0/t (note, rest, chord; leading note / leading rest)" % tmax)
        ctx.product("tick_counts", [list(range(1 + i, tmax + 1, 16)) for i in range(16)], gen_tick_counts)
    if ctx.want("reader_reuse"):
        n = len(REUSE_PROGRAMS)
        ctx.bound("reader_reuse", "every sequence of 3 files over %d programs read by one reader object" % n)
        ctx.product("reader_reuse", list(range(n)), lambda i: ([i, j, k] for j in range(n) for k in range(n)))
    if ctx.want("rewrite"):
        ctx.bound("rewrite", {"programs": len(REUSE_PROGRAMS), "edits": REWRITE_EDITS})
        ctx.serial("rewrite", [[i, e] for i in range(len(REUSE_PROGRAMS)) for e in REWRITE_EDITS])
    if ctx.want("format_words"):
        ctx.bound("format_words", "all 65536 values of the 16-bit format word of a valid file")
        ctx.product("format_words", list(range(256)), lambda hi: [hi])
    if ctx.want("corrupt"):
        progs = [{"comp": {"tracks": [_comp_track(j) for j in js]}} for js in ((0,), (1, 2), (3, 4, 5), (5,))]
        ctx.bound("corrupt", "4 written files x (4 header tag bytes + every track tag byte) x {0x00, 0xFF, orig^1} + formats {3, 255, 65535}")
        ctx.serial("corrupt", progs)
    if not ctx.only:
        ctx.guard("compositions round-tripped", ctx.counter("compositions_round_tripped"), 10000)
        ctx.guard("entries round-tripped", ctx.counter("entries_round_tripped"), 50000)
        ctx.guard("notes round-tripped", ctx.counter("notes_round_tripped"), 50000)
        ctx.guard("tracks starting with a rest", ctx.counter("tracks_with_leading_rest"), 1000)
        ctx.guard("tracks with an inner rest", ctx.counter("tracks_with_inner_rest"), 1000)
        ctx.guard("instrument numbers round-tripped", ctx.counter("instrument_numbers_round_tripped"), 500)
        ctx.guard("bars whose key and meter came back", ctx.counter("bars_key_meter_round_tripped"), 10000)
        ctx.guard("tracks in a minor key", ctx.counter("minor_key_tracks"), 100)
        ctx.guard("tracks in a key with accidentals", ctx.counter("accidental_key_tracks"), 100)
        ctx.guard("bpm values", ctx.counter("bpm_values"), 997)
        ctx.guard("vlq values", ctx.counter("vlq_values"), 1 << 17)
        ctx.guard("corrupted files rejected", ctx.counter("corrupt_rejected"), 50)


KNOWN = {}
