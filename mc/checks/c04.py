# -*- coding: utf-8 -*-
"""C04 -- keys: signatures, key notes, relatives and diatonic steps are consistent
(DESIGN.md section 4, C04).

Everything the library says about a key (table row, signature number, signature accidentals, note
list, relative key, Key object, diatonic steps) is compared with the line-of-fifths arithmetic of
mc/ref/pitch.py *and* with the clause-by-clause invariants of the statement evaluated on the
library's own answers, for all 30 keys; the error clauses are decided on a grid of candidate
strings / integers."""
import importlib
import itertools

from mc import engine
from mc.ref import pitch as P

from mingus.core import keys as K
from mingus.core import intervals as I
from mingus.core.mt_exceptions import NoteFormatError, RangeError

PROPERTY = "C04"
RULE = ("product over the 30 keys derived from the line of fifths, signature numbers -20..20 (+ far outliers), "
        "every string of length <= 3 (thorough 4) over a 12-symbol alphabet plus all 84 letter x accidental "
        "candidates as candidate keys, (key, start spelling, step 1..6) for the diatonic steps, ordered key pairs "
        "for the memo table; distinct_nontrivial = distinct observed (clause, answer) keys such as "
        "(key, note list), (signature, key pair), (candidate, accepted?), (key, letter, step, result)")
ASSUMPTIONS = [
    "the 30 supported keys are the line-of-fifths positions -7..+7 (major) and their relative minors, minor keys written with a lower-case tonic letter (mc/ref/pitch.py KEYS30)",
    "'matching name' of the Key object is read weakly: the name begins with the tonic letter (either case), ends with the mode word, and contains 'sharp' / 'flat' exactly when the key name carries '#' / 'b'",
    "rejection is demanded of every function that takes a key name (get_key_signature, get_key_signature_accidentals, get_notes, relative_major, relative_minor, Key) for candidate *strings* that are none of the 30 keys; relative_major of a valid major key / relative_minor of a valid minor key are not judged (statement silent)",
    "signature numbers are ints (bool, float and str arguments are out of scope)",
    "diatonic steps: only valid note names as start notes (letter + any string over '#','b'); the result must be the key's note on the letter `step` letters above, whatever the start note's accidentals; unison() and invalid start notes are out of scope",
    "the memo clause obtains a cold mingus.core.keys by importlib.reload (whatever private tables the module keeps are rebuilt)",
]

MAJOR_PATTERN = [2, 2, 1, 2, 2, 2, 1]
MINOR_PATTERN = [2, 1, 2, 2, 1, 2, 2]
SHARP_ORDER = "FCGDAEB"
FLAT_ORDER = "BEADGCF"
STEP_FUNCS = [None, "second", "third", "fourth", "fifth", "sixth", "seventh"]


def tonic_of(key):
    return key[0].upper() + key[1:]


def _call(fn, *args):
    """(ok, value-or-exception) of one real library call."""
    engine.S.trans(1)
    try:
        return True, fn(*args)
    except Exception as e:                                    # noqa -- classified by the caller
        return False, e


def _is_name_list(x):
    return isinstance(x, list) and all(P.is_name(n) for n in x)


# ---------------------------------------------------------------------------------------
# clause key_notes: note list / signature / accidentals of one key
# ---------------------------------------------------------------------------------------
def run_key_notes(key):
    S = engine.S
    minor = P.key_is_minor(key)
    ref_sig = P.KEY_SIG[key]
    ref_notes = P.notes_of_key(key)
    ref_acc = P.key_signature_accidentals(ref_sig)

    ok, valid = _call(K.is_valid_key, key)
    if not ok or valid is not True:
        S.problem("is_valid_key(%r)" % key, True, valid)
    ok, sig = _call(K.get_key_signature, key)
    if not ok:
        S.problem("get_key_signature(%r)" % key, ref_sig, sig)
        return
    ok, acc = _call(K.get_key_signature_accidentals, key)
    if not ok:
        S.problem("get_key_signature_accidentals(%r)" % key, ref_acc, acc)
        return
    ok, notes = _call(K.get_notes, key)
    if not ok:
        S.problem("get_notes(%r)" % key, ref_notes, notes)
        return
    notes_live, acc_live = notes, acc
    notes = list(notes) if isinstance(notes, (list, tuple)) else notes
    acc = list(acc) if isinstance(acc, (list, tuple)) else acc
    S.outcome((key, sig, tuple(acc) if isinstance(acc, list) else repr(acc), tuple(notes) if isinstance(notes, list) else repr(notes)))
    S.sample({"key": key, "signature": sig, "accidentals": acc, "notes": notes})

    # --- agreement with the line-of-fifths arithmetic
    if sig != ref_sig or isinstance(sig, bool):
        S.problem("get_key_signature(%r)" % key, ref_sig, sig)
    if acc != ref_acc:
        S.problem("get_key_signature_accidentals(%r)" % key, ref_acc, acc)
    if notes != ref_notes:
        S.problem("get_notes(%r)" % key, ref_notes, notes)

    # --- the statement's invariants, on the library's own answers
    if not _is_name_list(notes) or len(notes) != 7:
        S.problem("get_notes(%r) shape" % key, "seven note names", notes)
        return
    if notes[0] != tonic_of(key):
        S.problem("get_notes(%r)[0]" % key, tonic_of(key), notes[0])
    letters = "".join(n[0] for n in notes)
    want_letters = "".join(P.letter_up(key[0].upper(), i) for i in range(7))
    if letters != want_letters:
        S.problem("get_notes(%r) letters" % key, want_letters, letters)
    steps = [(P.pc(notes[(i + 1) % 7]) - P.pc(notes[i])) % 12 for i in range(7)]
    want_steps = MINOR_PATTERN if minor else MAJOR_PATTERN
    if steps != want_steps:
        S.problem("get_notes(%r) step pattern" % key, want_steps, steps)
    if not _is_name_list(acc):
        S.problem("get_key_signature_accidentals(%r) shape" % key, "list of note names", acc)
        return
    altered = [n for n in notes if len(n) > 1]
    if sorted(altered) != sorted(acc) or len(set(acc)) != len(acc):
        S.problem("accidentals of get_notes(%r) vs its signature" % key, sorted(acc), sorted(altered))
    if isinstance(sig, int):
        if len(acc) != abs(sig):
            S.problem("number of signature accidentals of %r" % key, abs(sig), len(acc))
        sign = "#" if sig > 0 else "b"
        if any(a[1:] != sign for a in acc):
            S.problem("sign of signature accidentals of %r" % key, sign, acc)
        order = SHARP_ORDER if sig > 0 else FLAT_ORDER
        if "".join(a[0] for a in acc) != order[:len(acc)]:
            S.problem("order of signature accidentals of %r" % key, order[:len(acc)], "".join(a[0] for a in acc))
    S.count("keys_with_sharps" if ref_sig > 0 else "keys_with_flats" if ref_sig < 0 else "keys_without_accidentals")

    # --- memo transparency: a second lookup gives the same answer
    ok, again = _call(K.get_notes, key)
    if not ok or list(again) != notes:
        S.problem("get_notes(%r) second call" % key, notes, again)
    # --- ... also after the caller has scribbled over what the first calls handed out (these were the
    # first requests for this key in this worker process: the rows just computed must not be the rows kept)
    for live in (notes_live, acc_live):
        if isinstance(live, list):
            live.append("X")
            live.reverse()
    ok, again = _call(K.get_notes, key)
    if not ok or list(again) != ref_notes:
        S.problem("get_notes(%r) after the caller modified the lists returned earlier" % key, ref_notes, again)
    ok, again = _call(K.get_key_signature_accidentals, key)
    if not ok or list(again) != ref_acc:
        S.problem("get_key_signature_accidentals(%r) after the caller modified the lists returned earlier" % key, ref_acc, again)


# ---------------------------------------------------------------------------------------
# clause lookup: get_key(sig) <-> get_key_signature(key), range errors
# ---------------------------------------------------------------------------------------
def run_lookup(sig):
    S = engine.S
    ok, got = _call(K.get_key, sig)
    if -7 <= sig <= 7:
        want = (P.major_key(sig), P.minor_key(sig))
        if not ok:
            S.problem("get_key(%d)" % sig, want, got)
            return
        S.outcome((sig, repr(got)))
        S.sample({"signature": sig, "get_key": got})
        if not isinstance(got, (tuple, list)) or tuple(got) != want:
            S.problem("get_key(%d)" % sig, want, got)
            return
        for k in got:
            ok2, back = _call(K.get_key_signature, k)
            if not ok2 or back != sig:
                S.problem("get_key_signature(get_key(%d) member %r)" % (sig, k), sig, back)
        S.count("signatures_in_range")
        # the other composition, for the two keys the arithmetic names
        for idx, k in enumerate(want):
            ok2, s2 = _call(K.get_key_signature, k)
            if not ok2:
                S.problem("get_key_signature(%r)" % k, sig, s2)
                continue
            ok3, pair = _call(K.get_key, s2)
            if not ok3 or not isinstance(pair, (tuple, list)) or len(pair) != 2 or pair[idx] != k:
                S.problem("get_key(get_key_signature(%r))[%d]" % (k, idx), k, pair)
    else:
        S.outcome(("out", ok, type(got).__name__))
        if ok or not isinstance(got, RangeError):
            S.problem("get_key(%d)" % sig, "RangeError", got if not ok else ("returned", got))
        else:
            S.count("signatures_refused")


# ---------------------------------------------------------------------------------------
# clause relative: relative major/minor are inverse, same note set, minor tonic 9 semitones up
# ---------------------------------------------------------------------------------------
def run_relative(key):
    S = engine.S
    minor = P.key_is_minor(key)
    sig = P.KEY_SIG[key]
    # a cold module: the relative key is the first thing this "process" asks (nothing has validated a key yet)
    importlib.reload(K)
    there, back = (K.relative_major, K.relative_minor) if minor else (K.relative_minor, K.relative_major)
    want = P.major_key(sig) if minor else P.minor_key(sig)
    ok, other = _call(there, key)
    if not ok:
        S.problem("%s(%r)" % (there.__name__, key), want, other)
        return
    S.outcome((key, other))
    S.sample({"key": key, "relative": other})
    if other != want:
        S.problem("%s(%r)" % (there.__name__, key), want, other)
    ok, again = _call(back, other)
    if not ok or again != key:
        S.problem("%s(%s(%r))" % (back.__name__, there.__name__, key), key, again)
    ok1, a = _call(K.get_notes, key)
    ok2, b = _call(K.get_notes, other)
    if not (ok1 and ok2):
        S.problem("get_notes of %r and its relative %r" % (key, other), "two note lists", (a, b))
        return
    if sorted(a) != sorted(b):
        S.problem("note sets of %r and its relative %r" % (key, other), sorted(a), sorted(b))
    if isinstance(other, str) and other and P.is_name(tonic_of(other)):
        major_t, minor_t = (tonic_of(other), tonic_of(key)) if minor else (tonic_of(key), tonic_of(other))
        d = (P.pc(minor_t) - P.pc(major_t)) % 12
        if d != 9:
            S.problem("semitones from tonic of %r up to tonic of its relative minor" % major_t, 9, d)
        if (other[0].islower()) == minor:
            S.problem("mode of the relative of %r" % key, "minor" if not minor else "major", other)
    S.count("relative_pairs")


# ---------------------------------------------------------------------------------------
# clause key_object
# ---------------------------------------------------------------------------------------
def run_key_object(key):
    S = engine.S
    ok, obj = _call(K.Key, key)
    if not ok:
        S.problem("Key(%r)" % key, "a Key object", obj)
        return
    minor = P.key_is_minor(key)
    name = getattr(obj, "name", None)
    S.outcome((key, getattr(obj, "mode", None), getattr(obj, "signature", None), name))
    S.sample({"key": key, "name": name, "mode": getattr(obj, "mode", None), "signature": getattr(obj, "signature", None)})
    if getattr(obj, "key", None) != key:
        S.problem("Key(%r).key" % key, key, getattr(obj, "key", None))
    if getattr(obj, "mode", None) != ("minor" if minor else "major"):
        S.problem("Key(%r).mode" % key, "minor" if minor else "major", getattr(obj, "mode", None))
    if getattr(obj, "signature", None) != P.KEY_SIG[key] or isinstance(getattr(obj, "signature", None), bool):
        S.problem("Key(%r).signature" % key, P.KEY_SIG[key], getattr(obj, "signature", None))
    good = isinstance(name, str) and name[:1].upper() == key[0].upper() and name.endswith("minor" if minor else "major") \
        and (("sharp" in name) == ("#" in key[1:])) and (("flat" in name) == ("b" in key[1:]))
    if not good:
        S.problem("Key(%r).name" % key, "%s [sharp|flat] %s" % (key[0].upper(), "minor" if minor else "major"), name)
    S.count("key_objects")


# ---------------------------------------------------------------------------------------
# clause reject: candidate strings
# ---------------------------------------------------------------------------------------
KEY_TAKERS = ["get_key_signature", "get_key_signature_accidentals", "get_notes", "relative_major", "relative_minor", "Key"]


def run_reject(cand):
    S = engine.S
    is_key = cand in P.KEY_SIG
    ok, v = _call(K.is_valid_key, cand)
    if not ok or v is not is_key:
        S.problem("is_valid_key(%r)" % cand, is_key, v)
    for fname in KEY_TAKERS:
        fn = getattr(K, fname)
        ok, got = _call(fn, cand)
        S.outcome((fname, is_key, ok, None if ok else type(got).__name__))
        if is_key:
            if fname == "relative_major" and not P.key_is_minor(cand):
                continue                       # not judged: statement silent
            if fname == "relative_minor" and P.key_is_minor(cand):
                continue
            if not ok:
                S.problem("%s(%r)" % (fname, cand), "accepted (it is one of the 30 keys)", got)
        else:
            if ok or not isinstance(got, NoteFormatError):
                S.problem("%s(%r)" % (fname, cand), "NoteFormatError", got if not ok else ("returned", got),
                          tags={"fn": fname, "cand": cand})
    S.count("candidates_accepted" if is_key else "candidates_refused")
    if not is_key:
        S.sample(cand)
    # asking the same thing again gives the same thing again -- also for the diatonic steps, whose first
    # answer for an unknown key is a refusal and must stay one (a valid key is asked in between calls of other cases)
    if not is_key:
        _call(I.third, "C", P.KEYS30[len(cand) % 30])
        first = _call(I.second, "D", cand)
        again = _call(I.second, "D", cand)
        def _cls(r):
            return ("value", r[1]) if r[0] else ("raised", type(r[1]).__name__)
        if _cls(first) != _cls(again):
            S.problem("intervals.second('D', %r) asked twice in a row" % cand, list(_cls(first)), list(_cls(again)))
        S.outcome(("diatonic step in a non-key", _cls(first)[0]))
    # a refusal must leave the module as it was: a valid key asked right afterwards gets the right answers
    probe = P.KEYS30[sum(ord(c) for c in cand) % 30]
    ok, got = _call(K.get_key_signature_accidentals, probe)
    want = P.key_signature_accidentals(P.KEY_SIG[probe])
    if not ok or list(got) != want:
        S.problem("get_key_signature_accidentals(%r) right after the candidate %r went through the key functions" % (probe, cand), want, got)
    ok, got = _call(K.get_notes, probe)
    if not ok or list(got) != P.notes_of_key(probe):
        S.problem("get_notes(%r) right after the candidate %r went through the key functions" % (probe, cand), P.notes_of_key(probe), got)


REJECT_ALPHABET = ["C", "c", "F", "f", "A", "a", "B", "b", "#", "x", " ", "1"]


def reject_candidates(maxlen):
    out = []
    seen = set()

    def add(s):
        if s not in seen:
            seen.add(s)
            out.append(s)
    for n in range(0, maxlen + 1):
        for t in itertools.product(REJECT_ALPHABET, repeat=n):
            add("".join(t))
    for L in "CDEFGABcdefgab":
        for acc in ("", "#", "b", "##", "bb", "#b"):
            add(L + acc)
    for k in P.KEYS30:
        add(k)
        add(k.upper())
        add(k.lower())
        add(k + " ")
        add(k + "\n")
        add(k + "\t")
        add("\n" + k)
        add(k + "\n\n")
        add(" " + k)
        add(k + " major")
        add(k + "m")
    return out


# ---------------------------------------------------------------------------------------
# clause diatonic: second .. seventh of any note in any key
# ---------------------------------------------------------------------------------------
def run_diatonic(case):
    S = engine.S
    key, start, step = case
    ref_notes = P.notes_of_key(key)
    idx = [n[0] for n in ref_notes].index(start[0])
    want = ref_notes[(idx + step) % 7]
    fname = STEP_FUNCS[step]
    ok, got = _call(getattr(I, fname), start, key)
    S.outcome((key, start[0], step, got if ok else type(got).__name__))
    if not ok or got != want:
        S.problem("intervals.%s(%r, %r)" % (fname, start, key), want, got)
    ok, got2 = _call(I.interval, key, start, step)
    if not ok or got2 != want:
        S.problem("intervals.interval(%r, %r, %d)" % (key, start, step), want, got2)
    # statement form, on the library's own key notes: the key's note `step` letters above
    ok, notes = _call(K.get_notes, key)
    if ok and _is_name_list(notes):
        L = P.letter_up(start[0], step)
        mine = [n for n in notes if n[0] == L]
        if ok and (len(mine) != 1 or got != mine[0]):
            S.problem("intervals.%s(%r, %r) vs get_notes(%r)" % (fname, start, key, key), mine, got)
    S.count("diatonic_steps")
    if len(start) > 1:
        S.count("diatonic_steps_from_altered_spelling")


def gen_diatonic(shard):
    key, k = shard
    for start in P.names(k):
        for step in range(1, 7):
            yield [key, start, step]


# ---------------------------------------------------------------------------------------
# clause circle: edges key -> dominant key on the circle of fifths
# ---------------------------------------------------------------------------------------
def run_circle(case):
    """case = [sig, idx]: idx 0 = major, 1 = minor; edge from signature sig to sig + 1."""
    S = engine.S
    sig, idx = case
    ok1, here = _call(K.get_key, sig)
    ok2, there = _call(K.get_key, sig + 1)
    if not (ok1 and ok2):
        S.problem("get_key(%d), get_key(%d)" % (sig, sig + 1), "two key pairs", (here, there))
        return
    k0, k1 = here[idx], there[idx]
    ok1, n0 = _call(K.get_notes, k0)
    ok2, n1 = _call(K.get_notes, k1)
    if not (ok1 and ok2) or not (_is_name_list(n0) and _is_name_list(n1)):
        S.problem("get_notes(%r), get_notes(%r)" % (k0, k1), "two note lists", (n0, n1))
        return
    S.outcome((k0, k1))
    S.sample({"from": k0, "to": k1})
    # the dominant key starts on the fifth degree ...
    ok, fifth = _call(I.fifth, tonic_of(k0), k0)
    if not ok or fifth != tonic_of(k1):
        S.problem("intervals.fifth(tonic of %r, %r) vs tonic of get_key(%d)" % (k0, k0, sig + 1), tonic_of(k1), fifth)
    # ... and differs in exactly one note: the letter of the newest signature accidental, raised
    diff0 = sorted(set(n0) - set(n1))
    diff1 = sorted(set(n1) - set(n0))
    good = len(diff0) == 1 and len(diff1) == 1 and diff0[0][0] == diff1[0][0] and \
        P.net(diff1[0]) - P.net(diff0[0]) == 1
    if not good:
        S.problem("notes of %r -> notes of its dominant key %r" % (k0, k1), "one letter raised by a semitone", (diff0, diff1))
    else:
        raised_degree = (P.letter_index(diff0[0]) - P.letter_index(tonic_of(k0))) % 7 + 1
        want_degree = 6 if idx else 4           # raised 4th of a major key = raised 6th of its relative minor
        if raised_degree != want_degree:
            S.problem("degree raised from %r to %r" % (k0, k1), want_degree, raised_degree)
    S.count("circle_edges")


# ---------------------------------------------------------------------------------------
# clause memo: the key -> notes memo is transparent under any two-key history
# ---------------------------------------------------------------------------------------
def run_memo(case):
    S = engine.S
    k1, k2 = case
    # cold start without naming any private table: re-execute the module, which rebuilds whatever
    # memo tables it keeps (K is the same module object afterwards)
    importlib.reload(K)
    S.count("memo_cold_starts")
    seq = [k1, k2, k1, k2]
    got = []
    for k in seq:
        ok, n = _call(K.get_notes, k)
        got.append(list(n) if ok and isinstance(n, (list, tuple)) else n)
        if k in P.KEY_SIG:
            if not ok or got[-1] != P.notes_of_key(k):
                S.problem("get_notes(%r) after %r" % (k, seq[:len(got) - 1]), P.notes_of_key(k), n)
        else:
            if ok or not isinstance(n, NoteFormatError):
                S.problem("get_notes(%r) after %r" % (k, seq[:len(got) - 1]), "NoteFormatError", n)
    # a diatonic step must not disturb it either
    if k1 in P.KEY_SIG:
        _call(I.third, "C", k1)
        ok, n = _call(K.get_notes, k1)
        if not ok or list(n) != P.notes_of_key(k1):
            S.problem("get_notes(%r) after intervals.third('C', %r)" % (k1, k1), P.notes_of_key(k1), n)
    S.outcome((k1, k2, repr(got[2]), repr(got[3])))
    S.count("memo_histories")


# ---------------------------------------------------------------------------------------
# long_history: a diatonic question gets the same answer as the first question of a process and after thousands of others
# ---------------------------------------------------------------------------------------
LH_QUESTIONS = [("third", "F#", "Cb"), ("fifth", "Bbb", "b"), ("second", "C", "C"), ("seventh", "E", "f#"), ("fourth", "B", "F"),
                ("sixth", "G#", "E"), ("unison", "Db", "Ab"), ("third", "A", "a"), ("fifth", "C##", "d#"), ("second", "Fb", "Gb"),
                ("third", "H", "C"), ("fifth", "C", "H")]
_LH_BASE = {}


def _lh_do(q):
    import mingus.core.intervals as _iv
    try:
        return ["ok", engine.with_step_budget(getattr(_iv, q[0]), (q[1], q[2]), budget=20000)]
    except engine.StepBudgetExceeded:
        return ["no result within the step horizon"]
    except Exception as e:                              # noqa
        return ["raised", type(e).__name__]


def _lh_cold():
    import importlib
    import mingus.core.intervals as _iv
    importlib.reload(K)
    importlib.reload(_iv)


def run_long_history(case):
    """case = "forward" | "reversed": the questions, then every diatonic step on every letter (natural, sharp, flat) in all 30
    keys, then the questions again -- in freshly loaded keys / intervals modules; also against each question's answer as the
    very first question of a fresh module."""
    import mingus.core.intervals as _iv
    S = engine.S
    qs = list(LH_QUESTIONS) if case == "forward" else list(reversed(LH_QUESTIONS))
    for q in qs:
        if q not in _LH_BASE:
            _lh_cold()
            _LH_BASE[q] = _lh_do(q)
    _lh_cold()
    first = [_lh_do(q) for q in qs]
    work = 0
    for key in P.KEYS30:
        for L in "CDEFGAB":
            for fn in ("unison", "second", "third", "fourth", "fifth", "sixth", "seventh"):
                for acc in ("", "#", "b"):
                    try:
                        getattr(_iv, fn)(L + acc, key)
                    except Exception:                   # noqa -- judged by the diatonic clause
                        pass
                    work += 1
    again = [_lh_do(q) for q in qs]
    S.trans(work + 2 * len(qs))
    for q, a, b in zip(qs, first, again):
        if a != b:
            S.problem("intervals.%s(%r, %r) asked again after %d other diatonic steps" % (q[0], q[1], q[2], work), a, b)
            break
    for q, a in zip(qs, first):
        if a != _LH_BASE[q]:
            S.problem("intervals.%s(%r, %r) within the first %d questions of a fresh process (%s order)" % (q[0], q[1], q[2], len(qs), case), _LH_BASE[q], a)
            break
    S.count("long_histories")
    S.outcome(("long_history", case, work))


KW_CANDIDATES = ["C", "Gb", "Cb", "a#", "ab", "f#", "H", "", "cb", "C#b", "G#", "zz"]


def run_keyword_forms(case):
    """case = [first, second]: the keys functions asked with the key passed by keyword (and, for the first one, also with no
    argument at all: the default key), one candidate after the other; every answer equals the positional answer."""
    S = engine.S

    def ask(fn, **kw):
        try:
            return ["ok", fn(**kw)]
        except Exception as e:                          # noqa
            return ["raised", type(e).__name__]

    def ask_pos(fn, *a):
        try:
            return ["ok", fn(*a)]
        except Exception as e:                          # noqa
            return ["raised", type(e).__name__]

    for cand in case:
        for name in ("is_valid_key", "get_key_signature", "get_key_signature_accidentals", "get_notes", "relative_major", "relative_minor"):
            fn = getattr(K, name)
            want = ask_pos(fn, cand)
            got = ask(fn, key=cand)
            S.trans(2)
            if got != want:
                S.problem("keys.%s(key=%r) [by keyword, asked after %r]" % (name, cand, case[:case.index(cand)]), want, got)
                return
    for name in ("get_key_signature", "get_key_signature_accidentals", "get_notes"):
        fn = getattr(K, name)
        want, got = ask_pos(fn, "C"), ask(fn)
        if got != want:
            S.problem("keys.%s() [the default key]" % name, want, got)
            return
    S.count("keyword_form_pairs")
    S.outcome(tuple(case))


# ---------------------------------------------------------------------------------------
# clause neighbours: other parts of the library that read the key tables are used in between
# ---------------------------------------------------------------------------------------
def _nb_calls():
    import copy
    from mingus.core import scales, chords, progressions
    from mingus.containers.bar import Bar
    from mingus.containers.note_container import NoteContainer
    return [
        ("scales.determine(['C', 'E', 'G'])", lambda: scales.determine(["C", "E", "G"])),
        ("scales.determine(['F#', 'A#', 'C#', 'E#'])", lambda: scales.determine(["F#", "A#", "C#", "E#"])),
        ("scales.determine of the seven naturals", lambda: scales.determine(list("CDEFGAB"))),
        ("scales.Major('Gb').ascending() and descending()", lambda: (scales.Major("Gb").ascending(), scales.Major("Gb").descending())),
        ("scales.HarmonicMinor('a#').ascending()", lambda: scales.HarmonicMinor("a#").ascending()),
        ("chords.triads('Cb') and sevenths('a#')", lambda: (chords.triads("Cb"), chords.sevenths("a#"))),
        ("progressions.to_chords(['I', 'bVII7', 'ivm'], 'F#')", lambda: progressions.to_chords(["I", "bVII7", "ivm"], "F#")),
        ("copy.copy(Key('Eb'))", lambda: copy.copy(K.Key("Eb"))),
        ("copy.deepcopy(Key('f#'))", lambda: copy.deepcopy(K.Key("f#"))),
        ("copy.deepcopy(Bar('Ab', (3, 4)))", lambda: copy.deepcopy(Bar("Ab", (3, 4)))),
        ("Bar() and Bar('c')", lambda: (Bar(), Bar("c"))),
        ("NoteContainer().from_progression_shorthand('V7', 'Db')", lambda: NoteContainer().from_progression_shorthand("V7", "Db")),
        ("sorting and reversing copies of the public tables", lambda: (sorted(K.keys), list(reversed(K.major_keys)), sorted(K.minor_keys))),
    ]


def _nb_battery():
    out = []
    for key in P.KEYS30:
        for fn in (K.get_key_signature, K.get_key_signature_accidentals, K.get_notes, K.relative_major if key[0].islower() else K.relative_minor):
            ok, got = _call(fn, key)
            out.append((fn.__name__, key, ok, repr(got)))
        ok, obj = _call(K.Key, key)
        out.append(("Key", key, ok, repr((getattr(obj, "key", None), getattr(obj, "mode", None), getattr(obj, "signature", None), getattr(obj, "name", None)))))
    for sig in range(-7, 8):
        ok, got = _call(K.get_key, sig)
        out.append(("get_key", sig, ok, repr(got)))
    for fn in ("second", "third", "fifth", "seventh"):
        for key in ("C", "Gb", "a#", "f"):
            ok, got = _call(getattr(I, fn), key[0].upper(), key)
            out.append((fn, key, ok, repr(got)))
    return out


def run_neighbours(case):
    """case = index of a neighbour call: freshly loaded keys / intervals, the whole battery of key questions, the
    neighbour call (twice), the battery again -- and the same with the neighbour call as the very first thing."""
    S = engine.S
    name, fn = _nb_calls()[case]

    def cold():
        # the modules that bind names of the key tables at import time are loaded afresh as well
        import mingus.core.scales as _sc
        _lh_cold()
        importlib.reload(_sc)

    cold()
    base = _nb_battery()
    for warm in (True, False):
        cold()
        if warm:
            _nb_battery()
        for _ in range(2):
            try:
                fn()
            except Exception as e:                   # noqa -- the neighbours are judged by their own properties
                S.count("neighbour_call_raised")
        after = _nb_battery()
        S.trans(2 * len(base) + 2)
        if after != base:
            bad = [i for i in range(len(base)) if after[i] != base[i]][0]
            S.problem("keys.%s(%r) after %s (%s)" % (base[bad][0], base[bad][1], name, "asked before as well" if warm else "first question of the process"),
                      base[bad][3], after[bad][3])
            return
    S.count("neighbour_histories")
    S.outcome(("neighbours", case))


CLAUSES = {
    "neighbours": run_neighbours,
    "key_notes": run_key_notes,
    "lookup": run_lookup,
    "relative": run_relative,
    "key_object": run_key_object,
    "reject": run_reject,
    "diatonic": run_diatonic,
    "circle": run_circle,
    "memo": run_memo,
    "long_history": run_long_history,
    "keyword_forms": run_keyword_forms,
}


def explore(ctx):
    ctx.use_thorough_bounds('thorough bounds take about two seconds')
    keys30 = list(P.KEYS30)
    ctx.bound("keys", keys30)
    if ctx.want("key_notes"):
        ctx.serial("key_notes", keys30)
    if ctx.want("lookup"):
        # every integer of a wide window (numbers that are in range modulo 12, modulo 256 or modulo 65536 included)
        sigs = list(range(-1100, 1101)) + list(range(65536 - 20, 65536 + 21)) + [-10 ** 6, -2 ** 31, 2 ** 31, 2 ** 32 - 7, 2 ** 32 + 7, 10 ** 6]
        sigs = sorted(set(sigs))
        ctx.bound("signature_numbers", "-1100..1100, 65516..65556 and +-10**6, +-2**31, 2**32-+7")
        ctx.serial("lookup", sigs)
    if ctx.want("keyword_forms"):
        ctx.bound("keyword_forms", {"candidates": KW_CANDIDATES, "ordered pairs": len(KW_CANDIDATES) ** 2})
        ctx.serial("keyword_forms", [[a, b] for a in KW_CANDIDATES for b in KW_CANDIDATES])
    if ctx.want("neighbours"):
        ctx.bound("neighbours", [n for n, _ in _nb_calls()])
        ctx.product("neighbours", list(range(len(_nb_calls()))), lambda i: [i])
    if ctx.want("long_history"):
        ctx.product("long_history", ["forward", "reversed"], lambda o: [o])
    if ctx.want("relative"):
        ctx.serial("relative", keys30)
    if ctx.want("key_object"):
        ctx.serial("key_object", keys30)
    if ctx.want("circle"):
        ctx.serial("circle", [[s, i] for s in range(-7, 7) for i in (0, 1)])
    if ctx.want("reject"):
        maxlen = ctx.pick(3, 4)
        cands = reject_candidates(maxlen)
        ctx.bound("candidate_strings", {"alphabet": REJECT_ALPHABET, "max_length": maxlen, "total": len(cands)})
        nsh = 12
        ctx.product("reject", list(range(nsh)), lambda i: cands[i::nsh])
    if ctx.want("diatonic"):
        k = ctx.pick(2, 5)
        ctx.bound("start_spellings", "NAMES(%d) = %d names" % (k, len(P.names(k))))
        ctx.product("diatonic", [(key, k) for key in keys30], gen_diatonic)
    if ctx.want("memo"):
        extra = ["", "C#b", "A#", "cb"]
        pool = keys30 + extra
        ctx.bound("memo_histories", "ordered pairs over the 30 keys + %r" % extra)
        # in-process and serial: the runner resets a module global of this process
        ctx.serial("memo", [[a, b] for a in pool for b in pool])
    if not ctx.only:
        ctx.guard("keys with sharps", ctx.counter("keys_with_sharps"), 14)
        ctx.guard("keys with flats", ctx.counter("keys_with_flats"), 14)
        ctx.guard("signatures in range", ctx.counter("signatures_in_range"), 15)
        ctx.guard("signatures refused", ctx.counter("signatures_refused"), 26)
        ctx.guard("relative pairs", ctx.counter("relative_pairs"), 30)
        ctx.guard("key objects", ctx.counter("key_objects"), 30)
        ctx.guard("circle edges", ctx.counter("circle_edges"), 28)
        ctx.guard("candidate strings accepted", ctx.counter("candidates_accepted"), 30)
        ctx.guard("candidate strings refused", ctx.counter("candidates_refused"), 1000)
        ctx.guard("diatonic steps", ctx.counter("diatonic_steps"), 30 * 49 * 6)
        ctx.guard("diatonic steps from altered spellings", ctx.counter("diatonic_steps_from_altered_spelling"), 30 * 42 * 6)
        ctx.guard("memo histories", ctx.counter("memo_histories"), 900)
        if not ctx.counter("memo_cold_starts"):
            ctx.note("memo histories ran without a cold start (module reload did not happen)")


# Predicate for the case that Key('') -> IndexError is recorded as a known finding instead of being
# repaired by fixes_proposed/c04_key_object_empty_string.diff (no entry is proposed: the fix is a
# one-line reordering).
KNOWN = {
    "key_object_of_empty_string_raises_indexerror": lambda rec: rec["clause"] == "reject" and rec["case"] == ""
    and rec["site"] == "Key('')" and str(rec["observed"]).startswith("IndexError"),
}
