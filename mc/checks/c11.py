# -*- coding: utf-8 -*-
"""C11 -- transposition is semitone-exact and reversible at every container level
(DESIGN.md section 4, C11; the statement in properties.jsonl is the specification).

note      product: every name x octave x every interval shorthand of size 0..11 x {up, down} on a real Note,
          the inverse (down after up) from every target, Note.augment/diminish
note_pair product: two transpositions in a row on one Note (every first step x every second step), also below octave 0
octave    product: change_octave(d) / octave_up / octave_down from every octave
lift      product: one operation at Track / Bar / NoteContainer level on every track of a zoo and of a generated
          family (every pattern of <= 3 entries over {note, chord, rest, empty container})
history   bfs: sequences of transpose/augment/diminish steps applied at the three levels of real tracks, the real
          track compared with the lifted model after every step, round trips from every reached state
"""
from mc import engine
from mc.engine import BfsSpec
from mc.ref import pitch as P
from mc.ref import noteforms as R
from mc.ref import values as V

from mingus.containers.note import Note
from mingus.containers.note_container import NoteContainer
from mingus.containers.bar import Bar
from mingus.containers.track import Track

PROPERTY = "C11"
RULE = ("product over (name, octave, interval shorthand, direction) on a real Note; product over (track, level, "
        "operation); bfs over operation sequences on real tracks, states deduplicated on the tuple of "
        "(beat, value, (name, octave)...) of every entry.  distinct_nontrivial = distinct observed outcome keys "
        "(resulting (name, octave) per operation)")
ASSUMPTIONS = [
    "the oracle for one transposition is exactly what the statement says: the new letter is the old one moved by the "
    "interval number, and 12*octave + natural + sharps - flats moves by the interval size; the spelling (how many "
    "accidentals on that letter, and hence which octave label) is otherwise left to the library",
    "'any interval shorthand whose size is 0-11' = the 31 of the 35 shorthands {bb,b,,#,##} x 1..7 with that size "
    "(bb1, b1, #7, ##7 are outside)",
    "up-then-down must restore name and octave exactly for names without redundant accidentals; for the 14 mixed "
    "spellings of length 2 ('C#b', 'Cb#') the pitch number and either the original or the reduced name are required (the interval "
    "constructors return reduced spellings by design)",
    "transposition is judged by exact arithmetic also when the result lies below octave 0 (the library yields octave -1 "
    "there): 'lowers its pitch number by exactly that many semitones' has no exception, and the last sentence ('changing the "
    "octave never goes below octave 0') is read as a statement about change_octave / octave_up / octave_down only",
    "'changing the octave' by d gives octave + d whenever that is >= 0 (the meaning of the operation) and is only "
    "required to be >= 0 otherwise",
    "containers of the zoo never share a Note or NoteContainer object between entries (aliasing is C15's subject); "
    "zoo chords are listed low to high with distinct pitches, so construction does not reorder them",
    "notes with more than 5 accidentals are outside the judged space (the interval constructors fold accidentals "
    "beyond six, see C02): the bfs starts from names with <= 2 accidentals and every step changes the count by at most "
    "one, so every *transition* up to depth 4 is judged; the round trips from a reached state (which pass through one "
    "more accidental) are skipped for states holding a note with more than 4 (counted)",
    "'beat positions and durations untouched' is judged on the stored entries (start beat bit-identical, value "
    "identical, rest stays None, container keeps its number of notes)",
    "augment-then-diminish identity is the order the statement names; diminish-then-augment is not judged",
]

SH_ALL = R.shorthands_in_range(P.SH35)          # 31 shorthands of size 0..11
SH_BFS = ["3", "b3", "5", "b2", "7", "#4"]
MAX_ACC = 5          # a transition is judged when its input notes carry at most this many accidentals
MAX_ACC_RT = 4       # round trips pass through one more accidental than they start with


# ---------------------------------------------------------------------------------------
# Note level
# ---------------------------------------------------------------------------------------
def judge_note(S, site, n, want_letter, want_number, tags=None):
    """Is the real note `n` on `want_letter` with pitch number `want_number`?  Returns True if so."""
    if not P.is_name(n.name) or not isinstance(n.octave, int):
        S.problem(site, "a note named on %s with pitch number %d" % (want_letter, want_number), [n.name, n.octave], tags=tags)
        return False
    got = R.pitch_number(n.name, n.octave)
    if n.name[0] != want_letter:
        S.problem(site + " letter", want_letter, n.name, detail={"note": [n.name, n.octave]}, tags=tags)
        return False
    if got != want_number:
        S.problem(site + " pitch number", want_number, got, detail={"note": [n.name, n.octave]}, tags=tags)
        return False
    if int(n) != want_number:
        S.problem(site + " int()", want_number, int(n), tags=tags)
        return False
    return True


def run_note(case):
    S = engine.S
    S.sample(case)
    name, octave, sh, up = case
    num, size = R.shorthand_parts(sh)
    start = R.pitch_number(name, octave)
    letter, number = R.transpose_model(name[0], start, sh, up)
    n = Note(name, octave)
    if up:
        n.transpose(sh)                      # default direction is up
        n2 = Note(name, octave)
        n2.transpose(sh, True)
        if (n2.name, n2.octave) != (n.name, n.octave):
            S.problem("transpose(%r) vs transpose(%r, True)" % (sh, sh), [n.name, n.octave], [n2.name, n2.octave])
    else:
        n.transpose(sh, False)
    S.trans(1)
    tags = {"sh": sh, "up": up, "name": name, "octave": octave}
    site = "Note(%r, %d).transpose(%r, %s)" % (name, octave, sh, up)
    if not judge_note(S, site, n, letter, number, tags):
        return
    S.count("note_transpositions_ok")
    if n.octave != octave:
        S.count("note_octave_label_changed")
    S.outcome((sh, up, n.name, n.octave - octave))
    # the same transposition on a note that sounds on another channel with another velocity: same result, and the
    # note keeps its channel and velocity
    nd = Note(name, octave, velocity=90, channel=3)
    nd.transpose(sh, up)
    S.trans(1)
    if (nd.name, nd.octave, nd.channel, nd.velocity) != (n.name, n.octave, 3, 90):
        S.problem("Note(%r, %d, velocity=90, channel=3).transpose(%r, %s) -> name, octave, channel, velocity" % (name, octave, sh, up),
                  [n.name, n.octave, 3, 90], [nd.name, nd.octave, nd.channel, nd.velocity], tags=tags)
    if up:
        # the inverse transition from the target
        target = (n.name, n.octave)
        n.transpose(sh, False)
        S.trans(1)
        site2 = "Note(%r, %d) up %r then down %r" % (name, octave, sh, sh)
        if len(name) - 1 > MAX_ACC_RT - 1:
            # the way there passes through more than six accidentals, which the interval functions respell (C02): the
            # pitch and the letter come back, the spelling is not judged (as in the history clause)
            if judge_note(S, site2, n, name[0], start, tags):
                S.count("note_round_trips_pitch_only")
        elif P.homogeneous(name):
            if (n.name, n.octave) != (name, octave):
                S.problem(site2, [name, octave], [n.name, n.octave], detail={"via": list(target)}, tags=tags)
            else:
                S.count("note_round_trips_exact")
        else:
            if not judge_note(S, site2, n, name[0], start, tags):
                return
            if n.name not in (name, P.canonical(name)):
                S.problem(site2 + " name", [name, P.canonical(name)], n.name, tags=tags)
            else:
                S.count("note_round_trips_reduced")


def run_note_pair(case):
    """case = [name, octave, sh1, up1]: the first transposition, then every second transposition (shorthand x
    direction) from its result -- results below octave 0 included."""
    S = engine.S
    name, octave, sh1, up1 = case
    start = R.pitch_number(name, octave)
    l1, n1 = R.transpose_model(name[0], start, sh1, up1)
    first = Note(name, octave)
    first.transpose(sh1, up1)
    if not judge_note(S, "Note(%r, %d).transpose(%r, %s)" % (name, octave, sh1, up1), first, l1, n1):
        return
    mid = (first.name, first.octave)
    if len(mid[0]) - 1 > MAX_ACC:
        S.count("note_pairs_skipped_too_many_accidentals")
        return
    for sh2 in SH_ALL:
        for up2 in (True, False):
            l2, n2 = R.transpose_model(l1, n1, sh2, up2)
            n = Note(name, octave)
            n.transpose(sh1, up1)
            n.transpose(sh2, up2)
            S.trans(2)
            site = "Note(%r, %d).transpose(%r, %s) [= %s-%d] .transpose(%r, %s)" % (name, octave, sh1, up1, mid[0], mid[1], sh2, up2)
            if judge_note(S, site, n, l2, n2, {"sh": sh2, "up": up2, "name": mid[0], "octave": mid[1]}):
                S.count("note_pairs_ok")
                if mid[1] < 0 or n.octave < 0:
                    S.count("note_pairs_below_octave_0")
    S.outcome((sh1, up1, mid[0], mid[1] - octave))


NOTE_OPS = ([["tr", sh, up] for sh in SH_BFS for up in (True, False)] +
            [["oct", 1], ["oct", -1], ["chg", 2], ["chg", -3], ["chg", 0], ["setoct", 2], ["set_same", 6], ["aug"], ["dim"]])
NOTE_STARTS = [["C", 4], ["D", 0], ["B#", 3], ["Cb", 1]]


def run_note_history(case):
    """case = [name, octave, [op, op, ...]]: operations on one Note object in turn; every step is judged from the state
    the real note was in just before it (the spelling the library chose is adopted, the pitch arithmetic is not)."""
    S = engine.S
    name, octave, ops = case
    n = Note(name, octave, velocity=80, channel=2)
    done = []
    for op in ops:
        before = (n.name, n.octave)
        if not P.is_name(before[0]) or len(before[0]) - 1 > MAX_ACC:
            S.count("note_histories_cut_short_too_many_accidentals")
            break
        num = R.pitch_number(before[0], before[1])
        kind = op[0]
        done.append(op)
        site = "Note(%r, %d) after %r" % (name, octave, done)
        if kind == "tr":
            n.transpose(op[1], op[2])
            letter, want = R.transpose_model(before[0][0], num, op[1], op[2])
            if not judge_note(S, site, n, letter, want):
                return
        elif kind in ("oct", "chg"):
            d = op[1]
            if kind == "oct":
                (n.octave_up if d > 0 else n.octave_down)()
            else:
                n.change_octave(d)
            if n.name != before[0]:
                S.problem(site + " name", before[0], n.name)
                return
            if before[1] + d >= 0:
                if n.octave != before[1] + d:
                    S.problem(site + " octave", before[1] + d, n.octave, detail={"before": list(before)})
                    return
            elif not isinstance(n.octave, int) or n.octave < 0:
                S.problem(site + " octave", "an octave >= 0", n.octave, detail={"before": list(before)})
                return
        elif kind == "setoct":
            n.octave = op[1]
        elif kind == "set_same":
            n.set_note(n.name, op[1])
            if (n.name, n.octave) != (before[0], op[1]):
                S.problem(site, [before[0], op[1]], [n.name, n.octave])
                return
        elif kind in ("aug", "dim"):
            (n.augment if kind == "aug" else n.diminish)()
            if not judge_note(S, site, n, before[0][0], num + (1 if kind == "aug" else -1)):
                return
        else:
            raise engine.HarnessError("unknown note op %r" % (op,))
        S.trans(1)
        if (n.velocity, n.channel) != (80, 2):
            S.problem(site + " velocity/channel", [80, 2], [n.velocity, n.channel])
            return
    S.count("note_histories")
    S.outcome((name, octave, n.name, n.octave))


def run_accidental(case):
    """Note.augment / Note.diminish: same letter, one semitone, octave label untouched; augment then
    diminish gives the name back."""
    S = engine.S
    S.sample(case)
    name, octave = case
    start = R.pitch_number(name, octave)
    a = Note(name, octave)
    a.augment()
    judge_note(S, "Note(%r, %d).augment()" % (name, octave), a, name[0], start + 1)
    d = Note(name, octave)
    d.diminish()
    judge_note(S, "Note(%r, %d).diminish()" % (name, octave), d, name[0], start - 1)
    a.diminish()
    if P.homogeneous(name):
        if (a.name, a.octave) != (name, octave):
            S.problem("Note(%r, %d) augment then diminish" % (name, octave), [name, octave], [a.name, a.octave])
        else:
            S.count("note_augment_diminish_identity")
    else:
        judge_note(S, "Note(%r, %d) augment then diminish" % (name, octave), a, name[0], start)
    S.trans(3)
    S.outcome((name, "aug/dim", d.name))


def run_octave(case):
    S = engine.S
    S.sample(case)
    name, octave, how = case
    n = Note(name, octave)
    if how == "up":
        n.octave_up()
        d = 1
    elif how == "down":
        n.octave_down()
        d = -1
    else:
        d = how
        n.change_octave(d)
    S.trans(1)
    site = "Note(%r, %d).change_octave(%s)" % (name, octave, how)
    if n.name != name:
        S.problem(site + " name", name, n.name)
    if not isinstance(n.octave, int) or n.octave < 0:
        S.problem(site, "an octave >= 0", n.octave)
    elif octave + d >= 0:
        if n.octave != octave + d:
            S.problem(site, octave + d, n.octave)
        S.count("octave_changes_exact")
    else:
        S.count("octave_changes_clamped")
        if n.octave != 0:
            S.count("octave_clamped_above_zero")
    S.outcome(("octave", octave, d, n.octave))


# ---------------------------------------------------------------------------------------
# tracks: description -> real object + model
# ---------------------------------------------------------------------------------------
# A track description is a JSON-able list of bars {"key", "meter", "entries"}; an entry is
# [value label, content, form] with content None (rest) | [] (empty container) | [[name, octave], ...]
# (low to high, distinct pitches) and form = how it is handed to the library.
def _e(v, content, form="nc"):
    return [v, content, form]


ZOO = [
    # 0: single notes around the octave boundary (B->C, Cb, B#, descending from C)
    [{"key": "C", "meter": [4, 4], "entries": [_e("4", [["C", 5]], "note"), _e("4", [["B", 4]], "text"),
                                                _e("4", [["Cb", 5]], "note"), _e("4", [["B#", 4]], "nc")]}],
    # 1: chords
    [{"key": "G", "meter": [4, 4], "entries": [_e("2", [["C", 4], ["E", 4], ["G", 4]], "list"),
                                                _e("4", [["A", 4], ["C#", 5], ["E", 5], ["G", 5]], "nc"),
                                                _e("4", [["Bb", 5], ["F##", 6]], "nc")]}],
    # 2: rests and empty containers between notes
    [{"key": "D", "meter": [4, 4], "entries": [_e("4", None), _e("4", [["F#", 4]], "note"), _e("4", []),
                                                _e("8", None), _e("8", [["Ebb", 5], ["G", 5]], "list")]}],
    # 3: dotted and tuplet values
    [{"key": "Bb", "meter": [4, 4], "entries": [_e("8.", [["D", 4]], "text"), _e("16", [["Eb", 4]], "note"),
                                                 _e("4*3:2", [["G", 4]], "note"), _e("4*3:2", None),
                                                 _e("4*3:2", [["Bb", 4], ["D", 5]], "nc"), _e("8*5:4", [["A", 6]], "note")]}],
    # 4: two bars, different keys and meters
    [{"key": "C", "meter": [3, 4], "entries": [_e("4", [["E", 4]], "note"), _e("4", None), _e("4", [["G", 4], ["B", 4]], "list")]},
     {"key": "f", "meter": [6, 8], "entries": [_e("8", [["Ab", 4]], "text"), _e("8", [["C", 8]], "note"),
                                                _e("4.", [["Fb", 5], ["Cb", 6]], "nc")]}],
    # 5: four bars: chord + note, only a rest, note + rest, no entry at all
    [{"key": "A", "meter": [2, 4], "entries": [_e("4", [["C", 4], ["E#", 4]], "nc"), _e("4", [["Gb", 4]], "note")]},
     {"key": "A", "meter": [2, 4], "entries": [_e("2", None)]},
     {"key": "A", "meter": [2, 4], "entries": [_e("4", [["B", 5]], "text"), _e("4", None)]},
     {"key": "A", "meter": [2, 4], "entries": []}],
    # 6: bars that become equal to one another under the operations: bar 1 is bar 0 a major third up, bar 2 repeats bar 0
    [{"key": "C", "meter": [4, 4], "entries": [_e("2", [["C", 4], ["E", 4], ["G", 4]], "nc"), _e("2", None)]},
     {"key": "C", "meter": [4, 4], "entries": [_e("2", [["E", 4], ["G#", 4], ["B", 4]], "nc"), _e("2", None)]},
     {"key": "C", "meter": [4, 4], "entries": [_e("2", [["C", 4], ["E", 4], ["G", 4]], "nc"), _e("2", None)]}],
    # 7: four one-note bars a semitone apart (augmenting bar i makes it sound like bar i+1)
    [{"key": "C", "meter": [4, 4], "entries": [_e("1", [["C", 4]], "note")]},
     {"key": "C", "meter": [4, 4], "entries": [_e("1", [["C#", 4]], "note")]},
     {"key": "C", "meter": [4, 4], "entries": [_e("1", [["D", 4]], "note")]},
     {"key": "C", "meter": [4, 4], "entries": [_e("1", [["Eb", 4]], "note")]}],
    # 9: chords that double a name in several octaves, low enough to cross octave lines downwards
    [{"key": "C", "meter": [4, 4], "entries": [_e("2", [["C", 3], ["G", 3], ["C", 4], ["E", 4]], "nc"),
                                                _e("4", [["A", 2], ["A", 3], ["A", 4]], "nc"),
                                                _e("4", [["B", 3], ["D", 4], ["B", 4], ["D", 5]], "nc")]}],
    # 10: a tuned track (standard guitar) filled by from_chords: chords come out as fingerings that use open strings
    [{"key": "C", "meter": [4, 4], "entries": [], "from_chords": ["E", "A", "Em", "E"], "tuning": ["Guitar", "Standard tuning"]},
     {"key": "C", "meter": [4, 4], "entries": []}, {"key": "C", "meter": [4, 4], "entries": []}, {"key": "C", "meter": [4, 4], "entries": []}],
    # 14: a track that carries an instrument (all notes inside a piano's range, also after the operations of the bfs)
    [{"key": "C", "meter": [4, 4], "instrument": "Piano", "entries": [_e("4", [["C", 4]], "note"), _e("4", [["E", 4], ["G", 4]], "nc"), _e("2", None)]},
     {"key": "C", "meter": [4, 4], "entries": [_e("1", [["A", 3], ["C", 4], ["E", 4]], "nc")]}],
    # 15: entries whose container is an instance of a NoteContainer subclass
    [{"key": "C", "meter": [4, 4], "entries": [_e("4", [["D", 4], ["F", 4]], "subclass"), _e("4", [["A", 4]], "nc"), _e("2", [["C", 5], ["E", 5]], "subclass")]}],
    # 13: built by from_chords in 3/4 with whole-note chords: every chord is split over a bar line (two entries, one chord each)
    [{"key": "C", "meter": [3, 4], "entries": [_e("2.", [["C", 4], ["E", 4], ["G", 4]], "nc")], "from_chords": ["C", "Am"], "first_meter": [3, 4]},
     {"key": "C", "meter": [3, 4], "entries": [_e("4", [["C", 4], ["E", 4], ["G", 4]], "nc"), _e("2", [["A", 4], ["C", 5], ["E", 5]], "nc")]},
     {"key": "C", "meter": [3, 4], "entries": [_e("2", [["A", 4], ["C", 5], ["E", 5]], "nc")]}],
    # 12: an empty bar between two bars that hold notes (a silent bar), and one at the very start
    [{"key": "C", "meter": [4, 4], "entries": []},
     {"key": "C", "meter": [4, 4], "entries": [_e("2", [["C", 4], ["E", 4]], "nc"), _e("2", [["G", 4]], "note")]},
     {"key": "C", "meter": [4, 4], "entries": []},
     {"key": "C", "meter": [4, 4], "entries": [_e("1", [["B", 3], ["D", 4]], "nc")]}],
    # 11: containers whose notes were set in place: a doubled unison, enharmonic pairs, notes not in pitch order
    [{"key": "C", "meter": [4, 4], "entries": [_e("4", [["C##", 4], ["D", 4], ["F", 4]], "set"), _e("4", [["E", 4], ["E", 4]], "set"),
                                                _e("4", [["A", 4], ["E", 4], ["Fb", 4]], "set"), _e("4", [["B#", 3], ["C", 4]], "set")]}],
    # 16: a bar in the free meter (0, 0) -- it holds any number of notes -- between two ordinary bars, and one at the end
    [{"key": "C", "meter": [4, 4], "entries": [_e("1", [["C", 4], ["G", 4]], "nc")]},
     {"key": "C", "meter": [0, 0], "entries": [_e("1", [["E", 4]], "note"), _e("1", [["D", 4], ["F", 4], ["A", 4]], "nc"), _e("2", None), _e("1", [["B", 4]], "text")]},
     {"key": "C", "meter": [2, 4], "entries": [_e("2", [["A", 3]], "note")]},
     {"key": "F", "meter": [0, 0], "entries": [_e("4", [["Bb", 4], ["D", 5]], "list")]}],
    # 17: a track that carries the percussion instrument (its notes are notes like any others)
    [{"key": "C", "meter": [4, 4], "instrument": "Percussion", "entries": [_e("4", [["C", 2]], "note"), _e("4", [["F#", 2], ["A#", 2]], "nc"), _e("2", None)]},
     {"key": "C", "meter": [4, 4], "entries": [_e("1", [["D", 2], ["E", 3]], "nc")]}],
    # 8: built with Track.from_chords from a sheet that repeats its chord symbols (every occurrence is its own chord)
    [{"key": "C", "meter": [4, 4], "entries": [_e("1", [["C", 4], ["E", 4], ["G", 4]], "nc")], "from_chords": ["C", "Am", "C", "Am"]},
     {"key": "C", "meter": [4, 4], "entries": [_e("1", [["A", 4], ["C", 5], ["E", 5]], "nc")]},
     {"key": "C", "meter": [4, 4], "entries": [_e("1", [["C", 4], ["E", 4], ["G", 4]], "nc")]},
     {"key": "C", "meter": [4, 4], "entries": [_e("1", [["A", 4], ["C", 5], ["E", 5]], "nc")]}],
]


def generated_tracks():
    """Every pattern of 1..3 entries over {N(ote), CH(ord), R(est), E(mpty container)}; names and octaves are
    dealt deterministically from the 35 reduced names (accidentals <= 2) and octaves 1..8."""
    import itertools
    names = P.canon_names(2)
    vals = ["4", "8", "4*3:2"]
    out = []
    k = 0
    for length in (1, 2, 3):
        for pat in itertools.product("NCRE", repeat=length):
            entries = []
            for pos, kind in enumerate(pat):
                k += 1
                v = vals[(pos + len(out)) % 3]
                if kind == "R":
                    entries.append(_e(v, None))
                elif kind == "E":
                    entries.append(_e(v, []))
                elif kind == "N":
                    nm = names[(k * 11) % 35]
                    entries.append(_e(v, [[nm, 1 + k % 8]], ["note", "text", "nc"][k % 3]))
                else:
                    base = 1 + k % 7
                    trio = [names[(k * 13) % 35], names[(k * 13 + 9) % 35], names[(k * 13 + 23) % 35]]
                    cands = sorted(((R.pitch_number(nm, base + i % 2), nm, base + i % 2) for i, nm in enumerate(trio)))
                    chord, seen = [], set()
                    for pn, nm, o in cands:
                        if pn not in seen:
                            seen.add(pn)
                            chord.append([nm, o])
                    entries.append(_e(v, chord, ["list", "nc"][k % 2]))
            out.append([{"key": "C", "meter": [4, 4], "entries": entries}])
    return out


class _OwnContainer(NoteContainer):
    """a caller's own NoteContainer subclass (a chord class with extra methods, say): still a container of notes"""

    def label(self):
        return "chord of %d" % len(self.notes)


def build(desc):
    """-> (real Track, model).  model[b][e] = None | [[letter, pitch number], ...]"""
    t = Track()
    if desc and desc[0].get("instrument") == "Percussion":
        from mingus.containers.instrument import MidiPercussionInstrument
        t = Track(MidiPercussionInstrument())
    elif desc and desc[0].get("instrument") == "Piano":
        from mingus.containers.instrument import Piano
        t = Track(Piano())
    model = []
    via_chords = bool(desc) and "from_chords" in desc[0]
    tuned = via_chords and "tuning" in desc[0]
    if tuned:
        # a track with a string tuning: from_chords turns every chord into a fingering (a container of the notes the
        # strings sound, open strings included); what those notes are is the fingering's business -- the model is
        # read off the freshly built track, the operations afterwards are what is checked
        import mingus.extra.tunings as _tun
        t.set_tuning(_tun.get_tuning(desc[0]["tuning"][0], desc[0]["tuning"][1]))
    if via_chords:
        if "first_meter" in desc[0]:
            t.add_bar(Bar(desc[0]["key"], tuple(desc[0]["first_meter"])))
        t.from_chords(list(desc[0]["from_chords"]), 1)
    if tuned:
        snap = snapshot(t)
        if len(snap) != len(desc) or any(len(bar) != 1 or not bar[0][2] for bar in snap):
            raise engine.HarnessError("tuned from_chords track has an unexpected shape: %r" % (snap,))
        return t, [[[[nm[0], R.pitch_number(nm, o)] for (nm, o) in e[2]] for e in bar] for bar in snap]
    for bd in desc:
        b = Bar(bd["key"], tuple(bd["meter"]))
        mb = []
        if via_chords:
            model.append([[[nm[0], R.pitch_number(nm, o)] for nm, o in content] for (_v, content, _f) in bd["entries"]])
            continue
        for (vlabel, content, form) in bd["entries"]:
            v = V.BY_LABEL[vlabel][1]
            if content is None:
                ok = b.place_rest(v)
                mb.append(None)
            else:
                notes = [Note(nm, o) for nm, o in content]
                if form == "note" and len(notes) == 1:
                    ok = b.place_notes(notes[0], v)
                elif form == "text" and len(notes) == 1:
                    ok = b.place_notes("%s-%d" % tuple(content[0]), v)
                elif form == "list" and notes:
                    ok = b.place_notes(notes, v)
                elif form == "subclass":
                    ok = b.place_notes(_OwnContainer(notes), v)
                elif form == "set":
                    # notes put in place one by one (nc[i] = Note): equal-sounding notes side by side, any order
                    nc = NoteContainer([Note("C", i) for i in range(len(notes))])
                    for i, x in enumerate(notes):
                        nc[i] = x
                    ok = b.place_notes(nc, v)
                else:
                    ok = b.place_notes(NoteContainer(notes), v)
                mb.append([[nm[0], R.pitch_number(nm, o)] for nm, o in content])
            if not ok:
                raise engine.HarnessError("zoo entry does not fit its bar: %r" % (bd,))
        t.add_bar(b)
        model.append(mb)
    # the construction itself is the subject of C12-C14: here it only has to have produced the description
    snap = snapshot(t)
    want = [[(None if c is None else [tuple(x) for x in c]) for (_, c, _) in bd["entries"]] for bd in desc]
    got = [[(None if e[2] is None else list(e[2])) for e in bar] for bar in snap]
    if got != want:
        raise engine.HarnessError("zoo construction did not produce the description: %r vs %r" % (got, want))
    return t, model


def snapshot(track):
    out = []
    for bar in track.bars:
        ents = []
        for e in bar.bar:
            c = e[2]
            if c is None:
                cc = None
            elif isinstance(c, NoteContainer):
                cc = tuple((n.name, n.octave) for n in c.notes)
            else:
                cc = ("not a NoteContainer", type(c).__name__)
            beat = float(e[0]).hex() if isinstance(e[0], (int, float)) else repr(e[0])
            ents.append((beat, repr(e[1]), cc))
        out.append(tuple(ents))
    return tuple(out)


class State(object):
    def __init__(self, desc):
        self.track, self.model = build(desc)
        self.shape = [[(e[0], e[1], None if e[2] is None else len(e[2])) for e in bar] for bar in snapshot(self.track)]


def compare(S, site, st, snap, touched=None, before=None, tags=None):
    """Real snapshot vs the model.  `touched` = set of (bar, entry) the last operation applied to;
    untouched sounding entries must be exactly what they were in `before`."""
    ok = True
    if len(snap) != len(st.shape):
        S.problem(site, "%d bars" % len(st.shape), "%d bars" % len(snap), tags=tags)
        return False
    for bi, (bar, shp) in enumerate(zip(snap, st.shape)):
        if len(bar) != len(shp):
            S.problem(site + " bar %d" % bi, "%d entries" % len(shp), "%d entries" % len(bar), tags=tags)
            return False
        for ei, (e, s) in enumerate(zip(bar, shp)):
            where = "%s bar %d entry %d" % (site, bi, ei)
            if e[0] != s[0]:
                S.problem(where + " start beat", s[0], e[0], tags=tags)
                ok = False
            if e[1] != s[1]:
                S.problem(where + " value", s[1], e[1], tags=tags)
                ok = False
            if s[2] is None:
                if e[2] is not None:
                    S.problem(where, "a rest (None)", e[2], tags=tags)
                    ok = False
                else:
                    S.count("rests_seen_untouched")
                continue
            if e[2] is None or (e[2] and e[2][0] == "not a NoteContainer") or len(e[2]) != s[2]:
                S.problem(where, "a container of %d notes" % s[2], e[2], tags=tags)
                ok = False
                continue
            if s[2] == 0:
                S.count("empty_containers_seen")
            if touched is not None and (bi, ei) not in touched:
                if before is not None and before[bi][ei][2] != e[2]:
                    S.problem(where + " (not a target of the operation)", before[bi][ei][2], e[2], tags=tags)
                    ok = False
            for ni, ((name, octave), (letter, number)) in enumerate(zip(e[2], st.model[bi][ei])):
                if not P.is_name(name) or not isinstance(octave, int):
                    S.problem(where + " note %d" % ni, "a note on %s with pitch number %d" % (letter, number), [name, octave], tags=tags)
                    ok = False
                elif name[0] != letter:
                    S.problem(where + " note %d letter" % ni, letter, [name, octave], tags=tags)
                    ok = False
                elif R.pitch_number(name, octave) != number:
                    S.problem(where + " note %d pitch number" % ni, number, R.pitch_number(name, octave),
                              detail={"note": [name, octave]}, tags=tags)
                    ok = False
    return ok


def targets_of(st, target):
    """-> (list of real objects to call, set of (bar, entry) they cover).  target:
    ['track'] | ['bar', i] | ['nc', 'first'|'last'] | ['bars'] (every bar) | ['ncs'] (every container)"""
    tr = st.track
    allpos = set((bi, ei) for bi, bar in enumerate(st.model) for ei, m in enumerate(bar) if m is not None)
    if target[0] == "track":
        return [tr], allpos
    if target[0] == "bars":
        return list(tr.bars), allpos
    if target[0] == "ncs":
        return [tr.bars[bi].bar[ei][2] for (bi, ei) in sorted(allpos)], allpos
    if target[0] == "bar":
        bi = target[1] % len(tr.bars)
        return [tr.bars[bi]], set(p for p in allpos if p[0] == bi)
    if target[0] == "nc":
        sounding = sorted(p for p in allpos if st.model[p[0]][p[1]])
        if not sounding:
            return [], set()
        p = sounding[0] if target[1] == "first" else sounding[-1]
        return [tr[p[0]][p[1]][2]], {p}
    raise engine.HarnessError("bad target %r" % (target,))


def call_op(obj, op):
    if op[0] == "transpose":
        if op[2]:
            obj.transpose(op[1])             # default direction: up
        else:
            obj.transpose(op[1], False)
    elif op[0] == "augment":
        obj.augment()
    elif op[0] == "diminish":
        obj.diminish()
    else:
        raise engine.HarnessError("bad op %r" % (op,))


def apply_action(st, target, op, check, S, site=None, tags=None, before=None):
    """One real call per target object + the model step; compares when `check`.
    Returns the snapshot after the call when everything agreed, else None (False when not checking)."""
    objs, touched = targets_of(st, target)
    if check and before is None:
        before = snapshot(st.track)
    for o in objs:
        call_op(o, op)
    for (bi, ei) in touched:
        st.model[bi][ei] = [list(R.apply_op(l, n, op)) for (l, n) in st.model[bi][ei]]
    if not check:
        return False
    S.trans(len(objs))
    S.count("level_%s_calls" % target[0], len(objs))
    after = snapshot(st.track)
    site = site or "%s.%s" % ("/".join(str(x) for x in target), " ".join(str(x) for x in op))
    if not compare(S, site, st, after, touched, before, tags):
        return None
    S.count("notes_moved_and_verified", sum(len(st.model[bi][ei]) for (bi, ei) in touched))
    return after


EDIT_NOTES = [["D", 4], ["F#", 4]]


def apply_edit(st, how):
    """Replace the last entry of the first non-empty bar by a fresh two-note container (same value, same
    start beat), through Bar.__setitem__ or through remove_last_entry + place_notes."""
    for bi, bar in enumerate(st.track.bars):
        if len(bar.bar):
            break
    else:
        return
    ei = len(bar.bar) - 1
    fresh = NoteContainer([Note(nm, o) for nm, o in EDIT_NOTES])
    if how == "setitem":
        bar[ei] = fresh
    else:
        value = bar.bar[ei][1]
        bar.remove_last_entry()
        if bar.place_notes(fresh, value) is not True:
            raise engine.HarnessError("could not put the entry back")
    st.model[bi][ei] = [[nm[0], R.pitch_number(nm, o)] for nm, o in EDIT_NOTES]
    st.shape[bi][ei] = (st.shape[bi][ei][0], st.shape[bi][ei][1], len(EDIT_NOTES))
    engine.S.count("edits_between_operations")


def max_accidentals(snap):
    m = 0
    for bar in snap:
        for e in bar:
            if e[2]:
                for (name, _o) in e[2]:
                    m = max(m, len(name) - 1)
    return m


def round_trips(st, S, snap0):
    """From the current state: augment then diminish restores every name; transpose up then down restores
    every (name, octave).  The level and the shorthand are functions of the state."""
    if max_accidentals(snap0) > MAX_ACC_RT:
        S.count("round_trips_skipped_more_than_4_accidentals")
        return
    acc = sum(len(name) - 1 for bar in snap0 for e in bar if e[2] for (name, _o) in e[2])
    pcs = sum(number for bar in st.model for m in bar if m for (_l, number) in m)
    level = [["track"], ["bars"], ["ncs"]][acc % 3]
    sh = SH_BFS[pcs % len(SH_BFS)]
    tags = {"round_trip": True}
    a = apply_action(st, level, ["augment"], True, S, "round trip %s.augment" % level[0], tags, snap0)
    if a is None:
        return
    snap1 = apply_action(st, level, ["diminish"], True, S, "round trip %s.augment then .diminish" % level[0], tags, a)
    if snap1 is None:
        return
    if snap1 != snap0:
        S.problem("%s.augment() then .diminish(): names" % level[0], _names(snap0), _names(snap1), tags=tags)
        return
    S.count("container_augment_diminish_identity")
    a = apply_action(st, level, ["transpose", sh, True], True, S, "round trip %s.transpose(%r)" % (level[0], sh), tags, snap1)
    if a is None:
        return
    snap2 = apply_action(st, level, ["transpose", sh, False], True, S, "round trip %s.transpose(%r) then down" % (level[0], sh), tags, a)
    if snap2 is None:
        return
    if snap2 != snap0:
        S.problem("%s.transpose(%r) up then down: names and octaves" % (level[0], sh), _names(snap0), _names(snap2), tags=tags)
        return
    S.count("container_up_down_identity")


def _names(snap):
    return [[None if e[2] is None else ["%s-%d" % x for x in e[2]] for e in bar] for bar in snap]


# ---------------------------------------------------------------------------------------
# lift: one operation from the initial state
# ---------------------------------------------------------------------------------------
LEVEL_TARGETS = [["track"], ["bars"], ["ncs"], ["bar", 0], ["bar", -1], ["nc", "first"], ["nc", "last"]]


def all_ops():
    return [["transpose", sh, up] for sh in SH_ALL for up in (True, False)] + [["augment"], ["diminish"]]


def run_lift(case):
    S = engine.S
    S.sample(case)
    st = State(case["track"])
    snap = apply_action(st, case["target"], case["op"], True, S)
    if snap is not None:
        S.outcome((case["target"][0], tuple(case["op"][:2]), hash(snap) % 1000003))
        S.count("lift_ok")


def gen_lift(shard):
    kind, idx = shard
    if kind == "zoo":
        desc = ZOO[idx]
        for target in LEVEL_TARGETS:
            for op in all_ops():
                yield {"track": desc, "target": target, "op": op}
    else:
        desc = generated_tracks()[idx]
        for target in (["track"], ["bars"], ["ncs"]):
            for op in all_ops():
                yield {"track": desc, "target": target, "op": op}


# ---------------------------------------------------------------------------------------
# history: bfs
# ---------------------------------------------------------------------------------------
def bfs_ops():
    return [["transpose", sh, up] for sh in SH_BFS for up in (True, False)] + [["augment"], ["diminish"]]


def action_targets(track_index, action_set):
    """narrow: whole track, first bar (tracks of several bars) or first container (one-bar tracks), last
    container.  wide: whole track, every bar (tracks of several bars), first and last container."""
    nbars = len(ZOO[track_index])
    if action_set == "narrow":
        return [["track"], ["bar", 0] if nbars > 1 else ["nc", "first"], ["nc", "last"]]
    if action_set == "wide":
        bars = [["bar", i] for i in range(nbars)] if nbars > 1 else []
        return [["track"]] + bars + [["nc", "first"], ["nc", "last"]]
    raise engine.HarnessError("bad action set %r" % (action_set,))


class HistorySpec(BfsSpec):
    """canon = the snapshot of the real track: tuple of bars of (start beat bits, value, None | tuple of
    (name, octave)).  Transposing/augmenting/diminishing reads nothing else: the operations look at note
    names and octaves only (keys, meters, velocities, channels are never consulted), every zoo track holds
    distinct Note/NoteContainer objects, and the targets of an action are positions, i.e. functions of the
    (constant) structure."""

    def __init__(self, track_index, action_set):
        self.track_index = track_index
        self.action_set = action_set

    def params(self):
        return {"track": self.track_index, "actions": self.action_set}

    def init(self):
        return State(ZOO[self.track_index])

    def actions(self):
        acts = [[target, op] for target in action_targets(self.track_index, self.action_set) for op in bfs_ops()]
        # edits that keep the bar's length: the operations that follow must see the new entry
        return acts + [[["edit"], ["setitem"]], [["edit"], ["replace_last"]]]

    def step(self, st, act, check=True):
        if act[0] == ["edit"]:
            apply_edit(st, act[1][0])
            return
        apply_action(st, act[0], act[1], check, engine.S)

    def invariant(self, st):
        S = engine.S
        snap = snapshot(st.track)
        if not compare(S, "state", st, snap):
            return
        S.outcome(hash(snap) % 1000003)
        S.sample(S.current_case)
        round_trips(st, S, snap)

    def canon(self, st):
        # the entire instance state of the real track (every attribute of every bar, container and
        # note, floats bit-exact): hidden state added by a changed library still separates states
        return engine.deep_key(st.track)


def run_history(case):
    spec = HistorySpec(case["track"], case["actions"])
    if not case["history"]:
        st = spec.init()
        spec.invariant(st)
        return
    engine.bfs_execute(spec, case["history"], check_prefix=True)


CLAUSES = {
    "note": run_note,
    "accidental": run_accidental,
    "octave": run_octave,
    "note_pair": run_note_pair,
    "note_history": run_note_history,
    "lift": run_lift,
    "history": run_history,
}


# ---------------------------------------------------------------------------------------
def explore(ctx):
    names = ctx.pick(P.names(2), P.names(2) + [n for n in P.canon_names(3) if len(n) == 4])
    octaves = list(range(0, 10))
    ctx.bound("note_names", "7 letters x accidental strings of length <= 2 (49)" + ctx.pick("", " + triple sharps/flats (14)"))
    ctx.bound("octaves", [0, 9])
    ctx.bound("shorthands", SH_ALL)
    if ctx.want("note"):
        ctx.product("note", names, lambda nm: ([nm, o, sh, up] for o in octaves for sh in SH_ALL for up in (True, False)))
        # names of four and five accidentals of one kind (the spelling of the result may come back from the other side: fix e3c5df2)
        far = [L + a * k for L in "CDEFGAB" for a in "#b" for k in (4, 5)]
        ctx.bound("note_names_far", far)
        ctx.product("note", far, lambda nm: ([nm, o, sh, up] for o in (0, 2, 9) for sh in SH_ALL for up in (True, False)))
    if ctx.want("note_pair"):
        pn = ctx.pick(P.canon_names(1), P.names(2))
        po = ctx.pick([0, 1, 4], [0, 1, 2, 4, 9])
        ctx.bound("note_pair", {"names": len(pn), "octaves": po, "first and second step": "31 shorthands x up/down each"})
        ctx.product("note_pair", pn, lambda nm: ([nm, o, sh, up] for o in po for sh in SH_ALL for up in (True, False)))
    if ctx.want("note_history"):
        import itertools as _it
        nd = ctx.pick(3, 4)
        ctx.bound("note_history", {"operations": NOTE_OPS, "starts": NOTE_STARTS, "length": nd})
        ctx.product("note_history", [(st, i) for st in NOTE_STARTS for i in range(len(NOTE_OPS))],
                    lambda sh: ([sh[0][0], sh[0][1], [NOTE_OPS[sh[1]]] + [list(o) for o in rest]] for k in range(0, nd) for rest in _it.product(NOTE_OPS, repeat=k)))
    if ctx.want("accidental"):
        ctx.serial("accidental", [[nm, o] for nm in names for o in octaves])
    if ctx.want("octave"):
        ctx.bound("octave_diffs", [-12, 12])
        cases = [[nm, o, d] for nm in ("C", "B#", "Cb", "F##", "Ebb") for o in octaves for d in list(range(-12, 13)) + ["up", "down"]]
        ctx.serial("octave", cases)
    if ctx.want("lift"):
        gens = generated_tracks()
        ctx.bound("lift_tracks", {"zoo": len(ZOO), "generated": len(gens)})
        ctx.product("lift", [("zoo", i) for i in range(len(ZOO))] + [("gen", i) for i in range(len(gens))], gen_lift)
    if ctx.want("history"):
        depth = ctx.pick(3, 4)
        aset = ctx.pick("narrow", "narrow")
        # quick: the chord-only and the tuplet-value track (many notes, nothing structurally new) go one level less deep
        # thorough: the tracks added for particular regressions (list positions 8 and up) go one level less deep than the first eight
        depths = {i: (depth - 1 if ((ctx.quick and i in (1, 3, 6, 7)) or i >= 8) else depth) for i in range(len(ZOO))}
        ctx.bound("history_depth", {str(i): d for i, d in depths.items()})
        ctx.bound("history_actions", {"set": aset, "targets": {str(i): action_targets(i, aset) for i in range(len(ZOO))}, "ops": bfs_ops()})
        for i in range(len(ZOO)):
            ctx.bfs("history", HistorySpec(i, aset), depths[i], label="history track %d" % i)
        if not ctx.quick:
            ctx.bound("history_wide_depth", 3)
            for i in range(len(ZOO)):
                if len(ZOO[i]) > 1 and i < 8:            # on a one-bar track the wide set is the narrow one
                    ctx.bfs("history", HistorySpec(i, "wide"), 3, label="history track %d wide" % i)
    if not ctx.only:
        ctx.guard("note transpositions verified", ctx.counter("note_transpositions_ok"), 30000)
        ctx.guard("note transpositions changing the octave label", ctx.counter("note_octave_label_changed"), 5000)
        ctx.guard("exact note round trips", ctx.counter("note_round_trips_exact"), 10000)
        ctx.guard("octave changes exact", ctx.counter("octave_changes_exact"), 500)
        ctx.guard("octave changes clamped", ctx.counter("octave_changes_clamped"), 100)
        ctx.guard("single-step liftings verified", ctx.counter("lift_ok"), 10000)
        ctx.guard("rests seen untouched", ctx.counter("rests_seen_untouched"), 1000)
        ctx.guard("empty containers seen", ctx.counter("empty_containers_seen"), 1000)
        ctx.guard("track-level calls", ctx.counter("level_track_calls"), 1000)
        ctx.guard("bar-level calls", ctx.counter("level_bar_calls") + ctx.counter("level_bars_calls"), 1000)
        ctx.guard("container-level calls", ctx.counter("level_nc_calls") + ctx.counter("level_ncs_calls"), 1000)
        ctx.guard("container augment/diminish round trips", ctx.counter("container_augment_diminish_identity"), 1000)
        ctx.guard("container up/down round trips", ctx.counter("container_up_down_identity"), 1000)
    if ctx.counter("round_trips_skipped_more_than_4_accidentals"):
        ctx.note("%d reached states hold a note with more than 4 accidentals: their round trips were not judged"
                 % ctx.counter("round_trips_skipped_more_than_4_accidentals"))
    if ctx.counter("below_octave_0_clamped_accepted"):
        ctx.note("%d results below octave 0 were clamped to octave 0 by the library and accepted"
                 % ctx.counter("below_octave_0_clamped_accepted"))


KNOWN = {}
