# -*- coding: utf-8 -*-
"""C06 -- chord shorthand builds exactly the chord its formula prescribes on every root
(DESIGN.md section 4, C06).

Exhaustive products over (shorthand x root), every alias spelling, slash basses, polychord
partners, lists, and a grammar of malformed strings.  The simple chords are judged against the
independent formula table ``mc/ref/chordtab.py`` (letter + pitch class per note); the composite
syntaxes (alias, slash, polychord, list) are judged compositionally against the library's own
simple chords, which the ``formula`` clause verifies one by one.
"""
import itertools

from mc import engine
from mc.ref import pitch as P
from mc.ref import chordtab as T

from mingus.core import chords
from mingus.core.mt_exceptions import FormatError, NoteFormatError

PROPERTY = "C06"
RULE = ("product over shorthand x root (x alias spelling / slash bass / polychord partner) and over a grammar of "
        "malformed strings, each case one or more real from_shorthand / builder calls; distinct_nontrivial = "
        "distinct chords (note lists) or distinct (input class, error type) outcomes observed per clause")
ASSUMPTIONS = [
    "which chord name a shorthand stands for is the documented one (from_shorthand docstring groups / published name "
    "table): e.g. 'M7+5' = '7#5' = augmented minor seventh, '7+' = augmented major seventh, 'add9' = dominant ninth, "
    "'11' = root, fifth, minor seventh, eleventh; what notes a chord name denotes is taken from theory (mc/ref/chordtab.py)",
    "a generated note is judged by letter and pitch class (plus being a syntactically valid note name); the exact run of "
    "accidentals chosen for roots with three or more accidentals is not judged; the first note must be the root string itself",
    "compound degrees are spelled on their simple letter (9th on the 2nd, 11th on the 4th, 13th on the 6th, the Hendrix "
    "chord's top note on the minor third)",
    "alias spellings are exercised on the quality letters m / M only (the 'm' of dim, dim7, dom7 is not a minor sign)",
    "malformed input: only strings for which no liberal reading (any alias rewriting order, any number of /bass suffixes "
    "and | partners, NC partners) is a chord expression over the union of the documented and the library's shorthand "
    "tables must be rejected; either of FormatError / NoteFormatError is accepted for any of them",
    "polychords with an NC partner, nested polychords X|Y|Z and multiple slashes are not judged (statement silent)",
    "strings with an empty chord component ('', 'C|', 'C/', 'C/E/': nothing where a chord or bass note should stand) are "
    "neither 'an unknown shorthand' nor 'a bad root' and are not judged (today they raise IndexError or, for 'C/E/', are "
    "accepted; counted in the evidence as empty_component_*)",
    "builder functions are looked up by the documented names (module docstring / meaning text with underscores); "
    "'5' (perfect fifth) has no named builder",
]

OK_ERRORS = (FormatError, NoteFormatError)


# ---------------------------------------------------------------------------------------
def lib_known():
    return set(chords.chord_shorthand) | set(chords.chord_shorthand_meaning)


def all_shorthands():
    return sorted(set(T.MEANING) | lib_known())


def lib_meaning(sh):
    m = chords.chord_shorthand_meaning.get(sh)
    return m.strip() if isinstance(m, str) else None


def formula_for(sh):
    """Formula the statement prescribes for sh, or None when neither the documentation table nor a
    recognisable meaning text gives one (then the shorthand is not judged by the formula clause)."""
    f = T.formula_of(sh)
    if f is None:
        m = lib_meaning(sh)
        if m in T.FORMULA:
            f = T.FORMULA[m]
    return f


def call(fn, *args):
    """(value, None) or (None, exception).  Only Exception subclasses; the engine catches the rest."""
    try:
        return fn(*args), None
    except Exception as e:                                           # noqa
        return None, e


def err_name(e):
    return "%s: %s" % (type(e).__name__, e)


def fold_poly(y_notes, x_notes):
    """'X|Y' = Y's notes followed by X's notes; a note equal to the one just before is not repeated."""
    r = list(y_notes)
    hit = False
    for n in x_notes:
        if r and n == r[-1]:
            hit = True
            continue
        r.append(n)
    return r, hit


# ---------------------------------------------------------------------------------------
# formula: simple chord on every root, and the named builders
# ---------------------------------------------------------------------------------------
def run_formula(case):
    S = engine.S
    sh, root = case
    S.sample(case)
    formula = formula_for(sh)
    got, err = call(chords.from_shorthand, root + sh)
    S.trans(1)
    if err is not None:
        S.problem("from_shorthand(%r)" % (root + sh), "the chord %s" % (T.meaning_of(sh) or lib_meaning(sh)),
                  err_name(err), tags={"sh": sh, "not_constructible": isinstance(err, FormatError)})
        S.outcome(("error", sh, type(err).__name__))
        return
    if formula is None:
        S.count("formula_unknown_to_reference")
        S.outcome(("unjudged", sh))
        return
    why = T.matches(root, formula, got)
    if why is not None:
        S.problem("from_shorthand(%r)" % (root + sh), {"slots(letter,pc)": T.slots(root, formula),
                                                       "e.g.": T.spelled(root, formula)}, got, detail=why,
                  tags={"sh": sh})
    else:
        S.count("formula_ok")
    S.outcome("|".join(map(str, got)) if isinstance(got, list) else repr(got))
    meaning = T.meaning_of(sh) or lib_meaning(sh)
    for bname in T.BUILDERS.get(meaning, []):
        fn = getattr(chords, bname, None)
        if fn is None:
            S.problem("chords.%s" % bname, "a builder function for %r" % meaning, "no such function")
            continue
        b, berr = call(fn, root)
        S.trans(1)
        if berr is not None:
            S.problem("chords.%s(%r)" % (bname, root), got, err_name(berr))
        elif b != got:
            S.problem("chords.%s(%r)" % (bname, root), got, b, detail="builder and from_shorthand(%r) differ" % (root + sh))
        else:
            S.count("builder_ok")
            if T.matches(root, formula, b) is not None and why is None:
                raise engine.HarnessError("equal lists judged differently")


# ---------------------------------------------------------------------------------------
# alias spellings (alone, with a slash bass, as either polychord partner)
# ---------------------------------------------------------------------------------------
ALIAS_BASSES = ["E", "Bb"]
ALIAS_PARTNER = "G7"


OTHER_SPELLINGS = {}


def spelling_variant(sh, spelling, alt):
    """the alias spelling `spelling` of shorthand `sh` with each quality word swapped for another alias of the same
    family (min <-> mi <-> -, maj <-> ma); None when nothing changes"""
    out = spelling
    for fam in (("min", "mi", "-"), ("maj", "ma")):
        for w in fam:
            if w in out:
                for v in fam:
                    if v != w and v == alt:
                        out = out.replace(w, v)
                        break
                break
    return out if out != spelling else None


_COLD_SHORTHANDS = set(chords.chord_shorthand)
_COLD_MEANINGS = set(chords.chord_shorthand_meaning)


def run_alias(case):
    S = engine.S
    root, sh, spelling = case
    S.sample(case)
    base, err = call(chords.from_shorthand, root + sh)
    if err is not None:
        S.count("alias_base_not_constructible")      # reported by the formula / tables clauses
        return
    sites = [(root + spelling, base)]
    for bass in ALIAS_BASSES:
        sites.append((root + spelling + "/" + bass, [bass] + base))
    partner, perr = call(chords.from_shorthand, ALIAS_PARTNER)
    if perr is None:
        sites.append((root + spelling + "|" + ALIAS_PARTNER, fold_poly(partner, base)[0]))
        sites.append((ALIAS_PARTNER + "|" + root + spelling, fold_poly(base, partner)[0]))
    sites.append((root + spelling + "|" + root + spelling, fold_poly(base, base)[0]))
    # the two halves of a polychord may spell the same quality differently (Amin7|A-7): still the same chords
    if spelling != sh:
        sites.append((root + spelling + "|" + root + sh, fold_poly(base, base)[0]))
        sites.append((root + sh + "|" + root + spelling, fold_poly(base, base)[0]))
    for alt in ("min", "mi", "-", "maj", "ma"):
        other = spelling_variant(sh, spelling, alt)
        if other is not None:
            sites.append((root + spelling + "|" + root + other, fold_poly(base, base)[0]))
    refused = [root + spelling + "/H", root + "foo|" + root, root + spelling + "|Xm", "H" + spelling]
    for k, (text, want) in enumerate(sites):
        # a malformed slash chord / polychord / root asked just before (it is refused; how is the malformed clause's
        # subject) must not change what the next well-formed string means
        call(chords.from_shorthand, refused[k % len(refused)])
        got, e = call(chords.from_shorthand, text)
        S.trans(2)
        if e is not None:
            S.problem("from_shorthand(%r) right after the refused from_shorthand(%r)" % (text, refused[k % len(refused)]), want, err_name(e),
                      detail="same as %r" % (root + sh))
        elif got != want:
            S.problem("from_shorthand(%r)" % text, want, got, detail="same as %r" % (root + sh))
        else:
            S.count("alias_ok")
    # using the library does not change its public tables: the shorthands that can be built are still those that have a meaning
    if set(chords.chord_shorthand) != _COLD_SHORTHANDS or set(chords.chord_shorthand_meaning) != _COLD_MEANINGS:
        S.problem("chords.chord_shorthand / chord_shorthand_meaning keys after alias spellings were used",
                  "the keys the module was loaded with", {"added shorthands": sorted(set(chords.chord_shorthand) - _COLD_SHORTHANDS),
                                                          "added meanings": sorted(set(chords.chord_shorthand_meaning) - _COLD_MEANINGS)})
    S.outcome((spelling, "|".join(base)))


# ---------------------------------------------------------------------------------------
# slash chords
# ---------------------------------------------------------------------------------------
def run_slash(case):
    S = engine.S
    root, sh, bass = case
    S.sample(case)
    base, err = call(chords.from_shorthand, root + sh)
    if err is not None:
        S.count("slash_base_not_constructible")
        return
    text = root + sh + "/" + bass
    got, e = call(chords.from_shorthand, text)
    S.trans(2)
    want = [bass] + base
    if e is not None:
        S.problem("from_shorthand(%r)" % text, want, err_name(e))
    elif got != want:
        S.problem("from_shorthand(%r)" % text, want, got)
    else:
        S.count("slash_ok")
        if bass in base:
            S.count("slash_bass_is_chord_note")
    # an unstripped line: the same text with a line end (or blank) after it is no chord name
    for tail in ("\n", " ", "\r\n"):
        junk, ej = call(chords.from_shorthand, text + tail)
        S.trans(1)
        if ej is None or not isinstance(ej, (FormatError, NoteFormatError)):
            S.problem("from_shorthand(%r)" % (text + tail), "FormatError / NoteFormatError", junk if ej is None else err_name(ej))
            break
    S.outcome("|".join(map(str, got)) if isinstance(got, list) else repr(e))


# ---------------------------------------------------------------------------------------
# polychords
# ---------------------------------------------------------------------------------------
def run_poly(case):
    S = engine.S
    xr, xs, yr, ys = case
    S.sample(case)
    x, ex = call(chords.from_shorthand, xr + xs)
    y, ey = call(chords.from_shorthand, yr + ys)
    if ex is not None or ey is not None:
        S.count("poly_partner_not_constructible")
        return
    text = xr + xs + "|" + yr + ys
    want, hit = fold_poly(y, x)
    got, e = call(chords.from_shorthand, text)
    S.trans(3)
    if e is not None:
        S.problem("from_shorthand(%r)" % text, want, err_name(e))
    elif got != want:
        S.problem("from_shorthand(%r)" % text, want, got, detail={"X": x, "Y": y})
    else:
        S.count("poly_ok")
    if hit:
        S.count("poly_repeated_note_dropped")
    # the partners' own chords must not have been changed by building the polychord
    x2, _ = call(chords.from_shorthand, xr + xs)
    y2, _ = call(chords.from_shorthand, yr + ys)
    if x2 != x or y2 != y:
        S.problem("from_shorthand(%r) afterwards" % text, [x, y], [x2, y2], detail="partner chords changed")
    if e is None and got == want:
        # lists are answered element by element, whatever halves the elements have in common
        for lst in ([text, yr + ys], [text, xr + xs], [yr + ys, text, yr + ys], [text, yr + ys + "|" + xr + xs, text], [text, xr + xs + "m|" + yr + ys]):
            each = [call(chords.from_shorthand, t) for t in lst]
            if any(er is not None for _, er in each):
                continue
            gl, el = call(chords.from_shorthand, list(lst))
            S.trans(len(lst) + 1)
            if el is not None or gl != [c for c, _ in each]:
                S.problem("from_shorthand(%r)" % (lst,), [c for c, _ in each], gl if el is None else err_name(el), detail="list of names")
                break
            S.count("poly_lists_checked")
    S.outcome((len(want), hit, len(got) if isinstance(got, list) else -1))
    # three layers 'X|Y|X': the statement fixes 'X|Y' only, so either grouping is accepted -- but nothing else
    # (in particular no layer may vanish)
    if xs in ("", "m", "7") and ys in ("", "m7", "sus4"):
        text3 = xr + xs + "|" + yr + ys + "|" + xr + xs
        right = fold_poly(fold_poly(x, y)[0], x)[0]          # X | (Y|X)
        left = fold_poly(x, fold_poly(y, x)[0])[0]           # (X|Y) | X
        got3, e3 = call(chords.from_shorthand, text3)
        S.trans(1)
        S.count("poly_three_layers")
        if e3 is not None:
            S.problem("from_shorthand(%r)" % text3, right, err_name(e3), detail="three stacked chords")
        elif got3 != right and got3 != left:
            S.problem("from_shorthand(%r)" % text3, {"X|(Y|X)": right, "(X|Y)|X": left}, got3, detail="three stacked chords")


# ---------------------------------------------------------------------------------------
# NC and lists
# ---------------------------------------------------------------------------------------
def run_special(case):
    S = engine.S
    S.sample(case)
    if case == "NC":
        for spelled in ("NC", "N.C."):
            got, e = call(chords.from_shorthand, spelled)
            S.trans(1)
            if e is not None or got != []:
                S.problem("from_shorthand(%r)" % spelled, [], got if e is None else err_name(e))
            # the empty chord stays empty whatever happened to earlier answers and whatever was built around it
            if isinstance(got, list):
                got.extend(["C", "E", "G"])
            for around in ("Am|" + spelled, spelled + "|Am", [spelled, "Am"]):
                call(chords.from_shorthand, around)              # may raise (an empty half is not judged)
            again, e2 = call(chords.from_shorthand, spelled)
            S.trans(5)
            if e2 is not None or again != []:
                S.problem("from_shorthand(%r) asked again after the first answer was extended and the chord was used inside other strings" % spelled,
                          [], again if e2 is None else err_name(e2))
            inside, e3 = call(chords.from_shorthand, ["C", spelled])
            if e3 is None and (not isinstance(inside, list) or len(inside) != 2 or inside[1] != []):
                S.problem("from_shorthand(['C', %r])[1]" % spelled, [], inside)
        S.outcome("NC")
        return
    items = list(case)
    want = []
    for it in items:
        v, e = call(chords.from_shorthand, it)
        if e is not None:
            S.count("list_item_not_constructible")
            return
        want.append(v)
    got, e = call(chords.from_shorthand, items)
    S.trans(1 + len(items))
    if e is not None:
        S.problem("from_shorthand(%r)" % (items,), want, err_name(e))
    elif got != want:
        S.problem("from_shorthand(%r)" % (items,), want, got)
    else:
        S.count("list_ok")
    if items != list(case):
        S.problem("from_shorthand(list) argument", list(case), items, detail="caller's list was modified")
    S.outcome(("list", len(items), tuple(len(w) for w in want)))


# ---------------------------------------------------------------------------------------
# malformed strings
# ---------------------------------------------------------------------------------------
def has_empty_component(s):
    """'', a '|' partner that is empty, or a '/' that is followed by nothing / another separator."""
    if s == "":
        return True
    for part in s.split("|"):
        if part == "" or part.endswith("/") or "//" in part:
            return True
    return False


def run_malformed(case):
    S = engine.S
    s = case
    known = set(T.MEANING) | lib_known()
    if T.could_be_chord(s, known):
        S.count("malformed_skipped_has_a_chord_reading")
        return
    if has_empty_component(s):
        # nothing at all where a chord or a bass note should stand: neither "an unknown shorthand" nor
        # "a bad root" in the statement's words -- weaker reading, not judged (see ASSUMPTIONS)
        got, e = call(chords.from_shorthand, s)
        S.count("malformed_skipped_empty_component")
        S.count("empty_component_" + ("accepted" if e is None else type(e).__name__))
        return
    S.sample(case)
    got, e = call(chords.from_shorthand, s)
    S.trans(1)
    if e is None:
        S.problem("from_shorthand(%r)" % s, "FormatError or NoteFormatError", got, detail="malformed string accepted")
        S.outcome(("accepted", len(got) if isinstance(got, list) else -1))
    elif not isinstance(e, OK_ERRORS):
        S.problem("from_shorthand(%r)" % s, "FormatError or NoteFormatError", err_name(e))
        S.outcome(("wrong error", type(e).__name__))
    else:
        S.count("malformed_rejected")
        S.count("malformed_rejected_" + type(e).__name__)
        sr = T.split_root(s)
        S.outcome((type(e).__name__, "no root" if sr is None else ("/" in s, "|" in s)))


def malformed_strings(root, first, alphabet, maxlen):
    """root + first + every string over alphabet of length <= maxlen-1."""
    for n in range(0, maxlen):
        for tail in itertools.product(alphabet, repeat=n):
            yield root + first + "".join(tail)


# ---------------------------------------------------------------------------------------
# tables: constructible <=> has a meaning; same meaning => same chord
# ---------------------------------------------------------------------------------------
def run_tables(case):
    S = engine.S
    S.sample(case)
    kind = case[0]
    if kind == "constructible":
        sh, roots = case[1], case[2]
        has_meaning = sh in chords.chord_shorthand_meaning
        in_builder_table = sh in chords.chord_shorthand
        oks = []
        for root in roots:
            got, e = call(chords.from_shorthand, root + sh)
            S.trans(1)
            if e is not None and not isinstance(e, OK_ERRORS):
                S.problem("from_shorthand(%r)" % (root + sh), "a chord or FormatError", err_name(e))
            oks.append(e is None)
        constructible = all(oks)
        if any(oks) != all(oks):
            S.problem("from_shorthand(root + %r)" % sh, "constructible on every root or on none", dict(zip(roots, oks)))
        if constructible != has_meaning:
            S.problem("constructible(%r) vs chord_shorthand_meaning" % sh,
                      "constructible exactly when it has a textual meaning",
                      {"constructible": constructible, "has_meaning": has_meaning, "in_chord_shorthand": in_builder_table},
                      tags={"sh": sh})
        if in_builder_table != has_meaning:
            S.problem("key sets of chord_shorthand / chord_shorthand_meaning", "equal key sets",
                      {"shorthand": sh, "in_chord_shorthand": in_builder_table, "in_chord_shorthand_meaning": has_meaning},
                      tags={"sh": sh})
        S.count("constructible_and_meaning" if (constructible and has_meaning) else "other_table_state")
        S.outcome((sh, constructible, has_meaning))
    elif kind == "same_meaning":
        meaning, root = case[1], case[2]
        group = sorted(k for k, v in chords.chord_shorthand_meaning.items() if isinstance(v, str) and v.strip() == meaning)
        built = {}
        for sh in group:
            got, e = call(chords.from_shorthand, root + sh)
            S.trans(1)
            if e is None:
                built[sh] = got
        vals = list(built.values())
        if any(v != vals[0] for v in vals[1:]):
            S.problem("shorthands meaning %r on %s" % (meaning, root), "one chord", built)
        if len(built) > 1:
            S.count("same_meaning_groups_compared")
        S.outcome((meaning, len(group), "|".join(vals[0]) if vals else None))
    else:
        raise engine.HarnessError("bad tables case %r" % (case,))


CLAUSES = {
    "formula": run_formula,
    "alias": run_alias,
    "slash": run_slash,
    "polychord": run_poly,
    "special": run_special,
    "malformed": run_malformed,
    "tables": run_tables,
}


# ---------------------------------------------------------------------------------------
# ---------------------------------------------------------------------------------------
# cold_first: the very first thing a freshly loaded library is asked is diatonic work in some key
# ---------------------------------------------------------------------------------------
COLD_FIRSTS = [["chords", "triads", ["a"]], ["chords", "triads", ["e"]], ["chords", "sevenths", ["f#"]], ["chords", "triads", ["Eb"]],
               ["chords", "sevenths", ["c"]], ["intervals", "third", ["C", "a"]], ["intervals", "seventh", ["B", "e"]],
               ["intervals", "fifth", ["F", "d"]], ["chords", "triad", ["E", "c#"]], ["chords", "seventh", ["G", "bb"]],
               ["chords", "tonic", ["g"]], ["chords", "dominant7", ["ab"]]]


def run_cold_first(case):
    """case = [first call, shorthand, root]: mingus.core.intervals and chords are loaded afresh, `first` is the first
    call they ever see, then the chord is built; it must be what the formula clause demands."""
    import importlib
    from mingus.core import intervals as _iv
    first, sh, root = case
    importlib.reload(_iv)
    importlib.reload(chords)
    mod = chords if first[0] == "chords" else _iv
    call(getattr(mod, first[1]), *first[2])
    engine.S.trans(1)
    run_formula([sh, root])
    engine.S.count("cold_first_cases")


CLAUSES["cold_first"] = run_cold_first


def _roots(ctx):
    if ctx.quick:
        # every order of up to two accidentals (mixed ones like C#b are names too) + triple runs
        out = []
        for n in P.canon_names(2) + P.names(2) + ["C###", "Fbbb", "B#b#"]:
            if n not in out:
                out.append(n)
        return out
    out = []
    for n in P.names(4) + P.canon_names(7):
        if n not in out:
            out.append(n)
    return out


def explore(ctx):
    ctx.use_thorough_bounds('thorough bounds take about ten seconds')
    roots = _roots(ctx)
    shs = all_shorthands()
    ctx.bound("shorthands", len(shs))
    ctx.bound("roots", "CANON(2): 35" if ctx.quick else "NAMES(4) + CANON(7): %d" % len(roots))

    if ctx.want("formula"):
        ctx.product("formula", shs, lambda sh: ([sh, r] for r in roots))

    if ctx.want("cold_first"):
        croots = ctx.pick(["C", "E", "B", "Ab", "F#"], P.canon_names(1))
        ctx.bound("cold_first", {"first calls": COLD_FIRSTS, "roots": croots, "shorthands": len(shs)})
        ctx.product("cold_first", COLD_FIRSTS, lambda f: ([f, sh, r] for sh in shs for r in croots))

    if ctx.want("alias"):
        aroots = roots if ctx.quick else P.canon_names(2) + ["C#b", "Bb#", "F###", "Abbb"]
        ctx.product("alias", [sh for sh in shs if len(T.alias_spellings(sh)) > 1],
                    lambda sh: ([r, sh, sp] for r in aroots for sp in T.alias_spellings(sh) if sp != sh))

    if ctx.want("slash"):
        basses = ctx.pick(P.canon_names(1), P.canon_names(2) + ["C#b", "Ebbb", "F###"])
        sroots = ctx.pick(P.canon_names(1), P.canon_names(2))
        ctx.bound("slash", "%d roots x %d basses" % (len(sroots), len(basses)))
        ctx.product("slash", shs, lambda sh: ([r, sh, b] for r in sroots for b in basses))

    if ctx.want("polychord"):
        xroots = ctx.pick(["G", "Bb", "C#", "E"], list("CDEFGAB") + ["Bb", "F#", "Ebb", "G##"])
        yroots = ctx.pick(["C", "Eb", "F#"], list("CDEFGAB") + ["Eb", "C#"])
        ctx.bound("polychord", "%d x %d shorthands, %d x %d roots" % (len(shs), len(shs), len(xroots), len(yroots)))
        ctx.product("polychord", shs, lambda xs: ([xr, xs, yr, ys] for ys in shs for xr in xroots for yr in yroots))

    if ctx.want("special"):
        items = ["C", "NC", "Dm7", "F#m7b5/A", "Dm|G7", "Bbmaj7", "Ebb6/9"]
        cases = ["NC", []]
        for n in (1, 2, 3):
            if n == 3 and ctx.quick:
                pool = items[:4]
            else:
                pool = items
            for combo in itertools.product(pool, repeat=n):
                cases.append(list(combo))
        ctx.serial("special", cases)

    if ctx.want("malformed"):
        alphabet = ctx.pick("x7mMs9+-/|b#6 EH", "x7mMs9+-/|b#6 EHinajdug5o.N")
        maxlen = ctx.pick(3, 4)
        mroots = ["C", "Bb", "F##"]
        ctx.bound("malformed", "roots %s + strings of length <= %d over %r; first characters outside A-G" % (
            mroots, maxlen, alphabet))
        shards = [(r, a) for r in mroots for a in alphabet]
        ctx.product("malformed", shards, lambda sh: malformed_strings(sh[0], sh[1], alphabet, maxlen))
        bad_first = [c for c in "HhcgXx17#b /|-+ ." ] + ["", "Ç", "do"]
        heads = []
        for c in bad_first:
            for tail in ["", "m7", "7", "/E", "|C", "#"]:
                heads.append(c + tail)
        # bad roots inside slash chords and polychords
        for bad in ["H", "c", "x", "7", "E ", " E", "E7", "Eb5"]:
            for sh in ["", "m7", "6/9", "m/M7"]:
                heads.append("C" + sh + "/" + bad)
                heads.append("C" + sh + "|" + bad)
                heads.append(bad + "|C" + sh)
        # near misses of the no-chord token: everything over N, C and the dot (and lower case) except the two spellings
        for n in range(1, 6):
            for t in itertools.product("NC.", repeat=n):
                heads.append("".join(t))
        for n in range(1, 5):
            for t in itertools.product("NC.nc", repeat=n):
                heads.append("".join(t))
        heads += [" NC", "NC ", "N C", "N.C. ", " N.C.", "NC|C", "C|NC.", "C/NC"]
        heads = [h for h in heads if h not in ("NC", "N.C.")]
        ctx.serial("malformed", sorted(set(heads)))

    if ctx.want("tables"):
        troots = ctx.pick(["C", "F#", "Bbb"], P.canon_names(2))
        # plus a few strings that are in neither table today (no alias letters, no leading accidental)
        cases = [["constructible", sh, troots] for sh in sorted(set(shs + ["M11", "sus9", "9sus4", "7+5", "x"]))]
        meanings = sorted(set(v.strip() for v in chords.chord_shorthand_meaning.values() if isinstance(v, str)))
        for m in meanings:
            for r in roots:
                cases.append(["same_meaning", m, r])
        ctx.serial("tables", cases)

    if not ctx.only:
        ctx.guard("simple chords matching their formula", ctx.counter("formula_ok"), 1500)
        ctx.guard("builder calls equal to from_shorthand", ctx.counter("builder_ok"), 1500)
        ctx.guard("alias spellings accepted", ctx.counter("alias_ok"), 2000)
        ctx.guard("slash chords", ctx.counter("slash_ok"), 10000)
        ctx.guard("slash chords whose bass is a chord note", ctx.counter("slash_bass_is_chord_note"), 500)
        ctx.guard("polychords", ctx.counter("poly_ok"), 20000)
        ctx.guard("polychords where a repeated note was dropped", ctx.counter("poly_repeated_note_dropped"), 200)
        ctx.guard("lists", ctx.counter("list_ok"), 50)
        ctx.guard("malformed strings rejected", ctx.counter("malformed_rejected"), 2000)
        ctx.guard("rejected with FormatError", ctx.counter("malformed_rejected_FormatError"), 500)
        ctx.guard("rejected with NoteFormatError", ctx.counter("malformed_rejected_NoteFormatError"), 500)
        ctx.guard("generated strings that do have a chord reading (skipped)", ctx.counter("malformed_skipped_has_a_chord_reading"), 50)
        ctx.guard("shorthands both constructible and documented", ctx.counter("constructible_and_meaning"), 40)
        ctx.guard("same-meaning groups with >= 2 constructible spellings", ctx.counter("same_meaning_groups_compared"), 100)
    if ctx.counter("formula_unknown_to_reference"):
        ctx.note("%d (shorthand, root) cases used a shorthand whose formula the reference does not know; not judged by 'formula'"
                 % ctx.counter("formula_unknown_to_reference"))

