# -*- coding: utf-8 -*-
"""Bounded zoo of MIDI programs shared by C16 and C17 (DESIGN.md section 3 "ZOO").

A *program* is a JSON-able recipe; `build_*` turns it into real mingus objects, `score_of_*` reads
the neutral score (plain tuples) back off the real object graph with attribute reads only -- the
oracle is computed from that score by mc/ref/timeline.py, never by the library.

    bar recipe    {"key": "C", "meter": [4, 4], "entries": [[value, content], ...]}
                  value: a number or a label of mc.ref.values ("4", "8.", "4*3:2")
                  content: null | [] | [[name, octave, channel, velocity], ...]
                  entries are placement *attempts* on a real Bar; refused ones leave no trace, so
                  the bars used are exactly the reachable states of a real Bar
    track recipe  {"name": str | null, "instrument": null | "Instrument" | "Piano" | "Guitar" | ["midi", nr],
                   "bars": [bar, ...]}
    composition   {"tracks": [track, ...]}
"""
import contextlib
import itertools
import os
import shutil
import tempfile

from mc import engine
from mc.ref import values as V
from mc.ref import pitch as P

from mingus.containers.bar import Bar
from mingus.containers.composition import Composition
from mingus.containers.instrument import Guitar, Instrument, MidiInstrument, Piano
from mingus.containers.note import Note
from mingus.containers.note_container import NoteContainer
from mingus.containers.track import Track


# a memory-backed directory when the platform has one (unlink/rmdir on the root fs cost ms each)
_FAST_TMP = "/dev/shm" if os.path.isdir("/dev/shm") and os.access("/dev/shm", os.W_OK | os.X_OK) else None


@contextlib.contextmanager
def midi_dir(prefix="verif-midi-"):
    """Per-process scratch directory for MIDI files; always removed."""
    d = tempfile.mkdtemp(prefix=prefix, dir=_FAST_TMP)
    try:
        yield d
    finally:
        shutil.rmtree(d, ignore_errors=True)


# ---------------------------------------------------------------------------------------
# building real objects from recipes
# ---------------------------------------------------------------------------------------
def value_of(v):
    if isinstance(v, str):
        return V.BY_LABEL[v][1]
    if isinstance(v, (list, tuple)) and v[0] == "ticks":
        return 288.0 / v[1]                 # the float value of a whole number of ticks (72 per quarter note)
    return v


def build_note(spec):
    name, octave, channel, velocity = spec
    return Note(name, octave, velocity=velocity, channel=channel)


def build_content(content):
    if content is None:
        return None
    if isinstance(content, dict):
        # a container that carries a tempo (the sequencer and the MIDI writer honour a `bpm` attribute)
        nc = NoteContainer([build_note(s) for s in content["notes"]])
        nc.bpm = content["bpm"]
        return nc
    return NoteContainer([build_note(s) for s in content])


def build_bar(recipe):
    bar = Bar(recipe["key"], tuple(recipe["meter"]))
    for (v, content) in recipe["entries"]:
        bar.place_notes(build_content(content), value_of(v))       # a refused attempt leaves the bar as it was
    return bar


def build_instrument(spec):
    if spec is None:
        return None
    if spec == "Instrument":
        return Instrument()
    if spec == "Piano":
        return Piano()
    if spec == "Guitar":
        return Guitar()
    if isinstance(spec, (list, tuple)) and spec[0] == "midi":
        i = MidiInstrument()
        i.instrument_nr = spec[1]
        return i
    raise engine.HarnessError("unknown instrument recipe %r" % (spec,))


def build_track(recipe):
    t = Track(build_instrument(recipe.get("instrument")))
    if recipe.get("name") is not None:
        t.name = recipe["name"]
    bars = [build_bar(b) for b in recipe["bars"]]
    # "order": the track is made of these Bar objects in this order -- one object may stand at several places
    for i in recipe.get("order", range(len(bars))):
        t.add_bar(bars[i])
    return t


def build_composition(recipe):
    c = Composition()
    for t in recipe["tracks"]:
        c.add_track(build_track(t))
    return c


# ---------------------------------------------------------------------------------------
# reading the neutral score off the real object graph (attribute reads only)
# ---------------------------------------------------------------------------------------
def score_of_container(nc):
    if nc is None:
        return None
    return [(n.name, n.octave, n.channel, n.velocity) for n in nc.notes]


def score_of_note(n):
    return [(n.name, n.octave, n.channel, n.velocity)]


def score_of_bar(bar):
    key = bar.key.key if hasattr(bar.key, "key") else bar.key
    return {"key": key, "meter": (bar.meter[0], bar.meter[1]),
            "entries": [(e[1], score_of_container(e[2])) for e in bar.bar]}


def score_of_track(track, recipe):
    instr = recipe.get("instrument")
    nr = instr[1] if isinstance(instr, (list, tuple)) else None
    return {"name": track.name, "instrument_nr": nr, "bars": [score_of_bar(b) for b in track.bars]}


def values_in(track_scores):
    return [v for t in track_scores for b in t["bars"] for (v, _c) in b["entries"]]


# ---------------------------------------------------------------------------------------
# content alphabet and the bar zoo
# ---------------------------------------------------------------------------------------
REGISTERS = {
    # register -> (note N, other note M, three-note chord CH) as (name, octave) lists
    "mid": ([("C", 4)], [("E", 5)], [("C", 4), ("E", 4), ("G", 4)]),
    "low": ([("C", 0)], [("Cb", 0)], [("Cb", 0), ("C", 0), ("E", 0)]),          # MIDI keys 12, 11
    "high": ([("G", 9)], [("F#", 9)], [("D#", 9), ("F", 9), ("G", 9)]),         # MIDI key 127
    "flat": ([("Bb", 3)], [("F##", 4)], [("Bb", 3), ("Db", 4), ("Fb", 4)]),     # accidentals
}


def content(kind, register="mid", channel=1, velocity=64):
    """kind: N, M (other note), CH (3-note chord), R (rest None), E (empty container), X (mixed chord)."""
    n, m, ch = REGISTERS[register]
    if kind == "R":
        return None
    if kind == "E":
        return []
    if kind == "N":
        src = n
    elif kind == "M":
        src = m
    elif kind == "CH":
        src = ch
    elif kind == "X":
        # chord whose notes differ in channel and velocity (the lowest note is the "first" note)
        return [[nm, o, (channel + i) % 16, min(127, velocity + i)] for i, (nm, o) in enumerate(ch)]
    elif kind == "Y":
        # chord whose notes sound on channels A, B, A (from the lowest note up)
        return [[nm, o, (channel + (5 if i == 1 else 0)) % 16, velocity] for i, (nm, o) in enumerate(ch)]
    elif kind == "Z":
        # four notes on channels A, A, B, A
        four = list(ch) + [(ch[0][0], ch[0][1] + 1)] if ch[0][1] < 9 else list(ch) + [(m[0][0], m[0][1])]
        return [[nm, o, (channel + (7 if i == 2 else 0)) % 16, velocity] for i, (nm, o) in enumerate(four)]
    else:
        raise engine.HarnessError("unknown content kind %r" % kind)
    return [[nm, o, channel, velocity] for (nm, o) in src]


def bar_recipe(pattern, key="C", meter=(4, 4), register="mid", channel=1, velocity=64):
    """pattern: [(kind, value), ...]"""
    return {"key": key, "meter": list(meter),
            "entries": [[v, content(k, register, channel, velocity)] for (k, v) in pattern]}


# The 12-pattern zoo (leading / inner / trailing / whole-bar rests, chords, single notes, empty
# container, values that round (20 -> 14.4, 10 -> 28.8, 5 -> 57.6 ticks) and the rounding tie 64 -> 4.5 ticks).
PATTERNS = [
    [("N", 4), ("M", 4), ("N", 4), ("M", 4)],               # 0 plain quarters
    [("CH", 2), ("CH", 2)],                                 # 1 chords
    [("R", 4), ("N", 4), ("M", 2)],                         # 2 leading rest
    [("N", 4), ("R", 4), ("CH", 2)],                        # 3 inner rest
    [("N", 2), ("M", 4), ("R", 4)],                         # 4 trailing rest
    [("R", 1)],                                             # 5 whole-bar rest
    [],                                                     # 6 empty bar
    [("N", 20), ("N", 10), ("M", 20), ("R", 10), ("CH", 5)],  # 7 values that round down (14.4) and up (28.8, 57.6)
    [("N", 64), ("CH", 64), ("R", 64), ("M", 64)],          # 8 rounding tie
    [("R", 2), ("X", 4), ("R", 4)],                         # 9 leading + trailing rest, mixed chord
    [("E", 4), ("N", "4."), ("M", 8), ("R", 8), ("N", 8)],  # 10 empty container, dotted value
    [("N", 1)],                                             # 11 whole note
    [("Y", 4), ("Z", 4), ("R", 4), ("Y", 4)],               # 12 chords whose notes alternate between two channels (A B A / A A B A)
]
# the same zoo with whole-tick values only (C17: "values that correspond to whole tick counts")
PATTERNS_WHOLE = [list(p) for p in PATTERNS]
PATTERNS_WHOLE[7] = [("N", 12), ("N", 12), ("M", 12), ("R", 12), ("CH", 12), ("N", 6)]
PATTERNS_WHOLE[8] = [("N", 32), ("CH", 32), ("R", 32), ("M", 32), ("N", "8."), ("M", 3)]

SYMBOLS = ["N", "M", "CH", "R", "E"]


def reachable_bars(symbols, values, max_entries, meter=(4, 4), first=None):
    """Every reachable state of a real Bar (as a pattern) under placements symbols x values, up to
    max_entries entries, breadth first.  A placement the real Bar refuses creates no new state.
    With first=(kind, value) only the states whose first entry is that one (sharding)."""
    if first is None:
        out = [[]]
        frontier = [[]]
        levels = max_entries
    else:
        bar = build_bar(bar_recipe([], meter=meter))
        if max_entries < 1 or not bar.place_notes(build_content(content(first[0])), value_of(first[1])):
            return []
        out = [[tuple(first)]]
        frontier = [[tuple(first)]]
        levels = max_entries - 1
    for _depth in range(levels):
        nxt = []
        for pat in frontier:
            for k in symbols:
                for v in values:
                    bar = build_bar(bar_recipe(pat, meter=meter))
                    if bar.place_notes(build_content(content(k)), value_of(v)):
                        nxt.append(pat + [(k, v)])
        out.extend(nxt)
        frontier = nxt
    return out


# ---------------------------------------------------------------------------------------
# deviation-bounded enumeration
# ---------------------------------------------------------------------------------------
def deviations(dims, d):
    """dims: ordered dict name -> list of values, default first.  Yields every assignment that
    departs from the default in at most d dimensions (each exactly once)."""
    names = list(dims)
    default = {n: dims[n][0] for n in names}
    for k in range(0, d + 1):
        for combo in itertools.combinations(names, k):
            alts = [dims[n][1:] for n in combo]
            for choice in itertools.product(*alts):
                a = dict(default)
                for n, c in zip(combo, choice):
                    a[n] = c
                yield a, k


def count_deviations(dims, d):
    return sum(1 for _ in deviations(dims, d))


KEYS30 = ["C"] + [k for k in P.KEYS30 if k != "C"]
METERS = [(4, 4), (3, 4), (6, 8), (2, 2), (12, 8)]
INSTRUMENTS = [None, ["midi", 1], ["midi", 0], ["midi", 13], ["midi", 127], "Instrument", "Piano", "Guitar"]
NAMES = [None, "", "<&>\"'", "Lead 1", "x" * 200]


def program_from_assignment(a, patterns):
    """Turn a deviation assignment into a composition recipe.

    a: {"pattern": index, "key", "meter", "channel", "velocity", "instrument", "name", "tracks",
        "nbars", "register"}; bars of a track are the patterns p, p+5, p+7 (mod 12); track i starts
    3*i patterns later, uses channel+i, is named name+str(i) and carries the instrument only when i is
    even (so multi-track programs mix tracks with and without an instrument)."""
    tracks = []
    for ti in range(a["tracks"]):
        p0 = (a["pattern"] + 3 * ti) % len(patterns)
        bars = []
        for bi in range(a["nbars"]):
            p = (p0 + (0, 5, 7)[bi]) % len(patterns)
            bars.append(bar_recipe(patterns[p], key=a["key"], meter=a["meter"], register=a["register"],
                                   channel=(a["channel"] + ti) % 16, velocity=a["velocity"]))
        tracks.append({"name": a["name"] if ti == 0 else (None if a["name"] is None else a["name"] + str(ti)),
                       "instrument": a["instrument"] if ti % 2 == 0 else None, "bars": bars})
    return {"tracks": tracks}
