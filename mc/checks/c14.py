# -*- coding: utf-8 -*-
"""C14 -- tracks and compositions accumulate music faithfully (DESIGN.md section 4, C14).

Clauses
  accumulate   bfs over add_notes / '+' / add_bar / from_chords histories on a real Track in lock-step
               with the exact-rational reference track (mc/ref/track.py)
  gate         bfs (depth 2) per attached instrument over every content form: rests always accepted,
               in-range notes accepted, out-of-range notes refused with InstrumentRangeError
  chords       from_chords on every (start fill, chord list, value, meter) of a product space: every
               leaf in order, total length, splitting at bar lines
  spelling     every NAMES(2) spelling x octave 0..10 x instrument x content form: accepted iff the
               *pitch* lies in the instrument's range (range ends reached by B#/Cb-type spellings)
  range_history  set_range twice on one instrument, every probe around the ends after each: the range in
               force is the one set last (asked through Track.add_notes)
  fill         i x a then b, b, ... over the value vocabulary through add_notes, two bars deep: bars
               open exactly when the model's last bar is full, all bars but the last full
  composition  bfs over add_track / '+' / add_note / selected_tracks on a real Composition
Track and composition equality is a differential oracle evaluated in every reached state: the object
compares equal to one rebuilt independently from the model state and unequal to perturbed rebuilds.
"""
import copy
from fractions import Fraction

from mc import engine
from mc.engine import BfsSpec
from mc.ref import sets as R
from mc.ref import track as T
from mc.ref import values as V

from mingus.containers.bar import Bar
from mingus.containers.composition import Composition
from mingus.containers.instrument import Instrument, Piano, Guitar, MidiInstrument
from mingus.containers.mt_exceptions import InstrumentRangeError
from mingus.containers.note import Note
from mingus.containers.note_container import NoteContainer
from mingus.containers.track import Track

PROPERTY = "C14"
RULE = ("bfs over accumulation histories on a real Track / Composition in lock-step with an exact Fraction reference "
        "track (state = bars with key, meter, entries and float cursor); bfs per instrument over content forms; "
        "product over from_chords inputs; distinct_nontrivial = distinct observed outcome keys (bar structures, "
        "accept/refuse/raise classes)")
ASSUMPTIONS = [
    "start beats and split-piece values are floats by representation: compared with the exact rationals to 1e-9",
    "'a rejected item changes nothing' is read on the iteration sequence and the existing bars; opening the one empty bar the "
    "statement itself permits (last bar full) before refusing is accepted, with or without it",
    "'every bar except the last is full' is checked bar by bar against the model (bars handed to add_bar by the caller may be "
    "non-full; for add_notes/from_chords-only histories the model guarantees fullness)",
    "'full' carries the C13 tolerance (remaining length <= 1/1000); no vocabulary total lies within 1e-6 of it (asserted)",
    "'+' on a track is exercised with the documented operands (Note, note string, NoteContainer, Bar)",
    "from_chords: only top-level None counts as a rest (the code and statement name 'None' beside chords; nested None is not "
    "exercised); an item that does not fit is expected in pieces that end exactly at bar lines (fill the bar, whole bars, "
    "remainder), which is the only split compatible with 'every bar except the last is full'",
    "chord contents are the close-position voicings C = C4 E4 G4, Am = A4 C5 E5, Dm = D4 F4 A4 (music theory, C12 checks the "
    "voicing rule in general)",
    "instrument gate: a chord of more than six notes on a Guitar is not judged (the statement speaks of the range only); bare "
    "names are avoided in range tests (their octave is decided by voicing, C12)",
    "a range refusal must raise InstrumentRangeError and leave the iteration sequence untouched",
    "equality is judged only between objects whose entries are identical (must be equal) or differ in entries (must be unequal); "
    "objects differing only in key, meter, instrument or titles are not compared",
    "Composition.selected_tracks is assignable by the caller (it is the documented public attribute add_note iterates)",
    "a Bar is handed to Composition.add_note only while at most one track is selected (one Bar object inside several tracks "
    "is an aliasing question, C15)",
]

# ---------------------------------------------------------------------------------------
# contents
# ---------------------------------------------------------------------------------------
CHORD_NAMES = {"C": ["C", "E", "G"], "Am": ["A", "C", "E"], "Dm": ["D", "F", "A"]}


def voiced(names):
    r = R.RefSet()
    for n in names:
        r.add(n)
    return list(r.notes)


def make_content(kind):
    """-> (argument for the library, expected stored content)"""
    if kind == "str":
        return "C", [("C", 4)]
    if kind == "list":
        return ["C", "E"], [("C", 4), ("E", 4)]
    if kind == "rest":
        return None, None
    if kind == "note":
        # a Note object with a velocity and a channel of its own: the stored note is that note
        return Note("E", 5, velocity=33, channel=7), [("E", 5, 33, 7)]
    if kind == "nc":
        return NoteContainer(["C", "E", "G"]), [("C", 4), ("E", 4), ("G", 4)]
    if kind == "str2":
        return "A-3", [("A", 3)]
    raise engine.HarnessError("unknown content kind %r" % kind)


def content_of(c):
    if c is None:
        return None
    if not isinstance(c, NoteContainer):
        return ("not a NoteContainer", type(c).__name__)
    return [(n.name, n.octave) if (n.velocity, n.channel) == (64, 1) else (n.name, n.octave, n.velocity, n.channel) for n in c.notes]


def key_of(bar):
    k = bar.key
    return getattr(k, "key", k)


def value_item(label):
    if label is None:
        return (None, 4, Fraction(4))
    it = V.BY_LABEL[label]
    return (label, it[1], it[2])


def close(a, b, tol=1e-9):
    return abs(float(a) - float(b)) <= tol * max(1.0, abs(float(b)))


def snapshot(track):
    return [(key_of(b), tuple(b.meter), [(float(e[0]).hex(), e[1], content_of(e[2])) for e in b.bar],
             float(b.current_beat).hex()) for b in track.bars]


def flat(snap):
    return [e for b in snap for e in b[2]]


# ---------------------------------------------------------------------------------------
# track invariant: the real track against the model
# ---------------------------------------------------------------------------------------
def check_track(track, ref, S, where="", adopt=True):
    ok = True
    if len(track) != len(ref.bars) or len(track.bars) != len(ref.bars):
        S.problem(where + "number of bars", len(ref.bars), len(track.bars))
        return False
    for i, (b, r) in enumerate(zip(track.bars, ref.bars)):
        if track[i] is not b:
            S.problem(where + "track[%d]" % i, "the bar at that index", "something else")
        if key_of(b) != r.key or tuple(b.meter) != r.meter:
            S.problem(where + "bar %d key/meter" % i, (r.key, r.meter), (key_of(b), tuple(b.meter)))
            ok = False
        if len(b.bar) != len(r.entries):
            S.problem(where + "bar %d entries" % i, [(str(e[0]), e[1], e[3]) for e in r.entries],
                      [(e[0], e[1], content_of(e[2])) for e in b.bar])
            return False
        for j, (e, m) in enumerate(zip(b.bar, r.entries)):
            if not close(e[0], m[0]):
                S.problem(where + "bar %d entry %d start beat" % (i, j), str(m[0]), e[0])
                ok = False
            if not close(1.0 / e[1], m[2]):
                S.problem(where + "bar %d entry %d value" % (i, j), "length %s" % m[2], e[1])
                ok = False
            elif adopt:
                m[1] = e[1]                 # split pieces: keep the float the library produced (for rebuilds)
            if content_of(e[2]) != m[3]:
                S.problem(where + "bar %d entry %d content" % (i, j), m[3], content_of(e[2]))
                ok = False
        if not close(b.current_beat, r.total):
            S.problem(where + "bar %d current_beat" % i, str(r.total), b.current_beat)
            ok = False
        if not r.unbounded():
            remaining = r.length - r.total
            if abs(remaining - T.FULL_TOLERANCE) < Fraction(1, 10 ** 6):
                raise engine.HarnessError("a vocabulary total lies on the is_full threshold")
            if b.is_full() is not r.full():
                S.problem(where + "bar %d is_full()" % i, r.full(), b.is_full(), detail={"remaining": str(remaining)})
                ok = False
    if not ok:
        return False
    # iteration yields exactly the entries, in order
    got = [(beat, dur, content_of(c)) for beat, dur, c in track.get_notes()]
    want = [(e[0], e[1], content_of(e[2])) for b in track.bars for e in b.bar]
    if got != want:
        S.problem(where + "get_notes()", want, got)
    items = ref.items()
    if len(got) != len(items) or any(g[2] != m[3] or not close(1.0 / g[1], m[2]) for g, m in zip(got, items)):
        S.problem(where + "get_notes() vs accepted items", [(str(m[2]), m[3]) for m in items], got)
    total = sum(1.0 / g[1] for g in got)
    if not close(total, ref.accepted + ref.preloaded):
        S.problem(where + "sum of entry lengths", str(ref.accepted + ref.preloaded), total)
    if track.test_integrity() is not ref.integrity():
        S.problem(where + "test_integrity()", ref.integrity(), track.test_integrity())
    if len(ref.bars) >= 2:
        S.count("multi_bar_states")
    return True


def _container(content):
    if content is None:
        return None
    nc = NoteContainer()
    nc.notes = [Note(*x[:2]) if len(x) == 2 else Note(x[0], x[1], velocity=x[2], channel=x[3]) for x in content]       # built without going through add_note
    return nc


def rebuild_bar(r, modify_last=None):
    b = Bar(r.key, r.meter)
    n = len(r.entries)
    for j, e in enumerate(r.entries):
        content = e[3]
        if j == n - 1 and modify_last is not None:
            if modify_last == "drop":
                continue
            if modify_last == "rest":
                content = None if content is not None else [("F", 4)]
            elif modify_last == "value":
                # same place, same content, another duration (a shorter one always fits)
                if not b.place_notes(_container(content), e[1] * 2):
                    raise engine.HarnessError("rebuild: a shorter last entry does not fit the real bar")
                continue
            elif modify_last == "note":
                content = [("F#", 6)] if content is None else content[:-1] + [(content[-1][0], content[-1][1] + 1)]
        if not b.place_notes(_container(content), e[1]):
            raise engine.HarnessError("rebuild: the model's entry does not fit the real bar")
    return b


def track_of(bars):
    t = Track()
    for b in bars:
        t.add_bar(b)
    return t


def rebuild_track(ref, drop_last=False, swap_last=None, extra_bar=False, base=None):
    """A track built independently of the history: bars filled directly, then handed to add_bar.
    `base` = an unmodified rebuild whose untouched Bar objects may be shared (they are only compared)."""
    bars = list(base.bars) if base is not None else [rebuild_bar(r) for r in ref.bars]
    mod = "drop" if drop_last else swap_last
    if mod is not None:
        idx = [i for i, r in enumerate(ref.bars) if r.entries]
        if idx:
            bars[idx[-1]] = rebuild_bar(ref.bars[idx[-1]], mod)
    if extra_bar:
        b = Bar("C", (4, 4))
        b.place_notes("C", 4)
        bars.append(b)
    return track_of(bars)


def check_track_equality(track, ref, S, where=""):
    same = rebuild_track(ref)
    try:
        r1, r2, r3 = (track == same), (same == track), (track != same)
    except Exception as e:                                   # noqa
        S.problem(where + "track == rebuilt identical track", True, e)
        return
    if r1 is not True or r2 is not True or r3 is not False:
        S.problem(where + "track == rebuilt identical track", True, (r1, r2, r3))
    variants = [("one extra bar", rebuild_track(ref, extra_bar=True, base=same))]
    # one more bar that holds nothing: another track all the same (its length and what indexing yields differ)
    with_empty = track_of(list(same.bars) + [Bar("C", (4, 4))])
    variants.append(("one extra empty bar", with_empty))
    if ref.items():
        variants.append(("last entry missing", rebuild_track(ref, drop_last=True, base=same)))
        variants.append(("last entry rest<->note", rebuild_track(ref, swap_last="rest", base=same)))
        variants.append(("last entry other pitch", rebuild_track(ref, swap_last="note", base=same)))
        variants.append(("last entry other value", rebuild_track(ref, swap_last="value", base=same)))
    for name, other in variants:
        try:
            r1, r2 = (track == other), (other == track)
        except Exception as e:                               # noqa
            S.problem(where + "track == different track (%s) must not raise" % name, False, e, tags={"variant": name})
            continue
        if r1 is not False or r2 is not False:
            S.problem(where + "track == different track (%s)" % name, False, (r1, r2), tags={"variant": name})
        S.count("track_inequalities_checked")


# ---------------------------------------------------------------------------------------
# operations on (real track, model)
# ---------------------------------------------------------------------------------------
def sync_after_refusal(track, ref, opened):
    """Refused after the model opened a bar: the library may or may not have opened it."""
    if opened and len(track.bars) == len(ref.bars) - 1:
        ref.bars.pop()
        engine.S.count("refusal_without_opening_a_bar_adopted")


def do_add(track, ref, S, via, kind, vlabel, check, where=""):
    label, vfloat, vexact = value_item(vlabel)
    content, expect = make_content(kind)
    before = snapshot(track) if check else None
    if via == "plus":
        got = track + content
    elif vlabel is None:
        got = track.add_notes(content)
    else:
        got = track.add_notes(content, vfloat)
    want, opened = ref.add(vfloat, 1 / vexact, expect)
    if not want:
        sync_after_refusal(track, ref, opened)
    if not check:
        return
    S.count("accepted" if want else "refused")
    if want and opened and len(ref.bars) > 1:
        S.count("bar_opened_by_add")
    if via == "plus" and not isinstance(got, bool):
        # the statement speaks of items "reported False"; what '+' evaluates to is not specified
        S.count("plus_result_not_a_bool_not_judged")
    elif got is not want:
        S.problem(where + "%s(%s, %s) return value" % (via, kind, label), want, got)
        return
    if not want:
        after = snapshot(track)
        if flat(after) != flat(before) or after[:len(before)] != before:
            S.problem(where + "%s(%s, %s) refused but changed the track" % (via, kind, label), before, after)
        if len(after) > len(before):
            S.count("refused_after_opening_an_empty_bar")


BARS = [("C", (4, 4), []), ("G", (3, 4), []), ("f", (6, 8), []), ("D", (2, 4), [("str", "4"), ("rest", "4")]),
        ("Bb", (0, 0), [])]


def do_add_bar(track, ref, S, i, via):
    key, meter, fill = BARS[i]
    b = Bar(key, meter)
    r = T.RefBar(key, meter)
    for kind, vlabel in fill:
        label, vfloat, vexact = value_item(vlabel)
        content, expect = make_content(kind)
        if not b.place_notes(content, vfloat) or not r.place(vfloat, 1 / vexact, expect):
            raise engine.HarnessError("prefilled bar does not fit")
    if via == "plus":
        got = track + b
    else:
        got = track.add_bar(b)
    ref.add_bar(r)
    return got


CHORD_LISTS = [["C"], ["C", ["Am", "Dm"]], ["C", None], [None], [["Am", ["Dm", "C"]], None, "Dm"],
               # (product clause only) sub-lists that hold nothing -- no chord, no rest, no length -- and deeper nesting
               ["C", [], "Dm"], [[], "C"], ["C", [[], "Am"]], [[]], [], ["C", [None, ["Am", None]]], [["C", "Dm", "Am"]]]


def chord_content(leaf):
    return None if leaf is None else voiced(CHORD_NAMES[leaf])


def do_chords(track, ref, S, chords, vlabel, check, where=""):
    label, vfloat, vexact = value_item(vlabel)
    leaves = T.flatten_chords(chords, vexact)
    # under the deterministic step horizon: the bar-line splitting must terminate
    engine.with_step_budget(track.from_chords, (copy.deepcopy(chords), vfloat), budget=20000)
    requested = Fraction(0)
    for leaf, val in leaves:
        length = 1 / val
        requested += length
        plan = ref.split_plan(length)
        if len(plan) > 1:
            S.count("item_split_at_bar_line")
        if len(plan) > 2:
            S.count("item_split_over_more_than_two_bars")
        if leaf is None and len(plan) > 1:
            S.count("rest_split_at_bar_line")
        for piece in plan:
            ok, _ = ref.add(float(1 / piece), piece, chord_content(leaf))
            if not ok:
                raise engine.HarnessError("model refused a planned piece")
    if check:
        S.count("from_chords_calls")
        # the direct statement: total length equals the requested lengths (reported before the structural compare)
        got_total = sum(1.0 / e[1] for b in track.bars for e in b.bar)
        if not close(got_total, ref.accepted + ref.preloaded):
            S.problem(where + "from_chords(%r, %s) total length" % (chords, label),
                      "%s more than before" % requested, "total %r, expected %s" % (got_total, ref.accepted + ref.preloaded))


# ---------------------------------------------------------------------------------------
# (i) accumulation bfs
# ---------------------------------------------------------------------------------------
class TState(object):
    def __init__(self, instrument=None):
        self.track = Track(instrument) if instrument is not None else Track()
        self.ref = T.RefTrack()


ADD_KINDS = ["str", "list", "rest"]
ADD_VALUES = [None, "1", "2", "4", "8", "4.", "2*3:2", "breve"]
PLUS_KINDS = ["str", "note", "nc"]
CHORD_VALUES = ["1", "2", "4", "breve"]


def track_canon(track):
    return tuple((key_of(b), tuple(b.meter),
                  tuple((repr(e[1]), None if e[2] is None else tuple((n.name, n.octave) for n in e[2].notes)) for e in b.bar),
                  float(b.current_beat).hex()) for b in track.bars)


class AccumulateSpec(BfsSpec):
    observe_prefix = True      # the invariant's observations are made at every step of a replayed history

    """canon: a Track's behaviour depends on its bars (per bar: key, meter/length, entries, the float cursor
    current_beat) and on the instrument (none here).  Every action builds fresh argument objects."""

    def __init__(self, level="full"):
        self.level = level

    def params(self):
        return {"level": self.level}

    def init(self):
        return TState()

    def actions(self):
        if self.level == "full":
            acts = [["add", k, v] for v in ADD_VALUES for k in ADD_KINDS]
            acts += [["plus", k] for k in PLUS_KINDS]
            acts += [["add_bar", i] for i in range(5)]
            acts += [["chords", ci, v] for ci in range(4) for v in CHORD_VALUES]
        elif self.level == "medium":
            acts = [["add", k, v] for v in ("1", "2", "4", "4.", "2*3:2", "breve") for k in ("str", "rest")]
            acts += [["plus", "str"], ["plus", "nc"]]
            acts += [["add_bar", 1], ["add_bar", 3], ["add_bar", 4]]
            acts += [["chords", ci, v] for ci in (1, 2, 3) for v in ("1", "breve")]
            acts += [["chords", 4, "2"]]
        elif self.level == "reduced":
            acts = [["add", "str", v] for v in ("2", "4", "2*3:2", "breve")]
            acts += [["add", "rest", "4."], ["add", "rest", "1"], ["plus", "str"], ["add_bar", 1], ["add_bar", 3]]
            acts += [["chords", 1, "1"], ["chords", 1, "breve"], ["chords", 3, "2"]]
        else:
            raise engine.HarnessError("level %r" % self.level)
        return acts

    def step(self, st, act, check=True):
        S = engine.S
        if act[0] == "add":
            do_add(st.track, st.ref, S, "add_notes", act[1], act[2], check)
        elif act[0] == "plus":
            do_add(st.track, st.ref, S, "plus", act[1], None, check)
        elif act[0] == "add_bar":
            via = "plus" if len(st.ref.bars) % 2 else "add_bar"
            got = do_add_bar(st.track, st.ref, S, act[1], via)
            if check and got is not st.track:
                S.count("add_bar_did_not_return_the_track")
        elif act[0] == "chords":
            do_chords(st.track, st.ref, S, CHORD_LISTS[act[1]], act[2], check)
        else:
            raise engine.HarnessError("bad action %r" % (act,))

    def invariant(self, st):
        S = engine.S
        if check_track(st.track, st.ref, S):
            check_track_equality(st.track, st.ref, S)
        S.outcome(tuple((key_of(b), tuple(b.meter), len(b.bar), b.is_full()) for b in st.track.bars))

    def canon(self, st):
        return (track_canon(st.track), engine.deep_key(st.track))


def run_accumulate(case):
    engine.bfs_execute(AccumulateSpec(case.get("level", "full")), case["history"], check_prefix=True)


# ---------------------------------------------------------------------------------------
# (ii) instrument gate
# ---------------------------------------------------------------------------------------
INSTRUMENTS = ["none", "Instrument", "Piano", "Guitar", "MidiInstrument"]


def make_instrument(name):
    if name == "none":
        return None
    if name == "Instrument":
        return Instrument()
    if name == "Piano":
        return Piano()
    if name == "Guitar":
        return Guitar()
    if name == "MidiInstrument":
        return MidiInstrument()
    raise engine.HarnessError("instrument %r" % name)


def from_pitch(p):
    names = ("C", "C#", "D", "Eb", "E", "F", "F#", "G", "Ab", "A", "Bb", "B")
    return (names[p % 12], p // 12)


def gate_notes(instr):
    """pitches (as (name, octave)) around both ends of the range, plus fixed probes."""
    out = [("E", 4), ("C", 9), ("A", 12)]
    if instr is not None:
        lo = R.pitch((instr.range[0].name, instr.range[0].octave))
        hi = R.pitch((instr.range[1].name, instr.range[1].octave))
        for p in (lo - 2, lo - 1, lo, lo + 1, hi - 1, hi, hi + 1, hi + 2):
            if p >= 0:
                out.append(from_pitch(p))
    else:
        out += [("C", 0), ("B", 8)]
    return out


GATE_FORMS = ["text", "note", "list_text", "list_notes", "nc", "pair_with_E4", "seven", "middle_of_three", "six"]


def gate_argument(form, note):
    n, o = note
    text = "%s-%d" % (n, o)
    if form == "text":
        return text, [note]
    if form == "note":
        return Note(n, o), [note]
    if form == "list_text":
        return [text], [note]
    if form == "list_notes":
        return [Note(n, o)], [note]
    if form == "nc":
        return NoteContainer(Note(n, o)), [note]
    if form == "pair_with_E4":
        exp = sorted(set([("E", 4), note]), key=R.pitch)
        if R.pitch(note) == R.pitch(("E", 4)):
            exp = [("E", 4)]
        return [Note("E", 4), Note(n, o)], exp
    if form == "middle_of_three":
        # a plain list in the caller's order: the probe note is neither the first nor the last item
        r = R.RefSet([("E", 4)])
        r.add(n, o)
        r.add("G", 4)
        return [Note("E", 4), Note(n, o), Note("G", 4)], list(r.notes)
    if form == "six":
        # exactly six distinct pitches (one per string of a guitar): five in range plus the probe note
        r = R.RefSet([("E", 4), ("G", 4), ("B", 4), ("D", 5), ("F", 5)])
        r.add(n, o)
        if len(r.notes) < 6:
            r.add("A", 5)
        return NoteContainer([[a, b] for a, b in r.notes]), list(r.notes)
    if form == "seven":
        # seven distinct in-range pitches around E-4/E-5 plus the probe note
        base = [("E", 4), ("G", 4), ("B", 4), ("D", 5), ("F", 5), ("A", 5)]
        r = R.RefSet(base)
        r.add(n, o)
        if len(r.notes) < 7:
            r.add("C", 6)
        return NoteContainer([[a, b] for a, b in r.notes]), list(r.notes)
    raise engine.HarnessError("gate form %r" % form)


class GateSpec(BfsSpec):
    """canon as AccumulateSpec plus the instrument class (instruments are stateless here)."""

    def __init__(self, instrument):
        self.instrument = instrument

    def params(self):
        return {"instrument": self.instrument}

    def init(self):
        st = TState(make_instrument(self.instrument))
        return st

    def actions(self):
        acts = [["rest", "4"], ["rest", "1"], ["rest", None]]
        notes = gate_notes(make_instrument(self.instrument))
        for i in range(len(notes)):
            for f in GATE_FORMS:
                acts.append(["play", f, i, "4"])
        acts.append(["play", "note", 0, "1"])
        acts.append(["plus_note", 0])
        acts.append(["plus_note", 1])
        return acts

    def step(self, st, act, check=True):
        S = engine.S
        track, ref = st.track, st.ref
        instr = track.instrument
        if act[0] == "rest":
            label, vfloat, vexact = value_item(act[1])
            before = snapshot(track) if check else None
            try:
                got = track.add_notes(None, vfloat) if act[1] is not None else track.add_notes(None)
            except Exception as e:                       # noqa
                if check:
                    S.problem("Track(%s).add_notes(None, %s)" % (self.instrument, label), "a rest is accepted whatever the instrument",
                              e, tags={"instrument": self.instrument, "what": "rest"})
                    S.outcome((self.instrument, "rest", "raised " + type(e).__name__))
                # keep the model aligned with what happened: nothing was added
                return
            want, opened = ref.add(vfloat, 1 / vexact, None)
            if not want:
                sync_after_refusal(track, ref, opened)
            if check:
                S.count("gate_rest_accepted" if want else "gate_rest_refused_for_room")
                if instr is not None and want:
                    S.count("gate_rest_accepted_with_instrument")
                if got is not want:
                    S.problem("Track(%s).add_notes(None, %s) return value" % (self.instrument, label), want, got)
                S.outcome((self.instrument, "rest", want))
            return
        notes = gate_notes(instr)
        if act[0] == "plus_note":
            note, form, vlabel = notes[act[1]], "note", None
        else:
            note, form, vlabel = notes[act[2]], act[1], act[3]
        arg, expect = gate_argument(form, note)
        label, vfloat, vexact = value_item(vlabel)
        if instr is None:
            in_range = True
        else:
            lo = R.pitch((instr.range[0].name, instr.range[0].octave))
            hi = R.pitch((instr.range[1].name, instr.range[1].octave))
            in_range = all(lo <= R.pitch(n) <= hi for n in expect)
        if self.instrument == "Guitar" and len(expect) > 6:
            # not judged: the statement speaks of the range only
            try:
                track.add_notes(arg, vfloat)
                want, opened = ref.add(vfloat, 1 / vexact, expect)
                if not want:
                    sync_after_refusal(track, ref, opened)
                if check:
                    S.count("gate_guitar_seven_notes_accepted_not_judged")
            except InstrumentRangeError:
                if check:
                    S.count("gate_guitar_seven_notes_refused_not_judged")
            return
        before = snapshot(track)
        site = "Track(%s).%s(%s %s-%d, %s)" % (self.instrument, "'+'" if act[0] == "plus_note" else "add_notes", form, note[0], note[1], label)
        try:
            if act[0] == "plus_note":
                got = track + arg
            else:
                got = track.add_notes(arg, vfloat)
            raised = None
        except InstrumentRangeError as e:
            raised = e
        except Exception as e:                           # noqa
            if check:
                S.problem(site, "accepted" if in_range else "InstrumentRangeError", e,
                          tags={"instrument": self.instrument, "what": form, "in_range": in_range})
                S.outcome((self.instrument, form, in_range, "raised " + type(e).__name__))
            return
        if raised is not None:
            if check:
                S.count("gate_range_errors")
                S.outcome((self.instrument, form, in_range, "range error"))
                if in_range:
                    S.problem(site, "accepted (every note lies inside the range)", raised)
                if flat(snapshot(track)) != flat(before):
                    S.problem(site + " refused with the range error but changed the track", flat(before), flat(snapshot(track)))
            return
        # no exception
        if not in_range:
            if check:
                S.problem(site, "InstrumentRangeError", "returned %r" % (got,))
                S.outcome((self.instrument, form, in_range, "no error"))
            # what happened is that the item was added (or refused for room): mirror it
        want, opened = ref.add(vfloat, 1 / vexact, expect)
        if not want:
            sync_after_refusal(track, ref, opened)
        if check and in_range:
            S.count("gate_in_range_accepted" if want else "gate_in_range_no_room")
            if instr is not None and want:
                S.count("gate_in_range_accepted_with_instrument")
            if act[0] == "plus_note" and not isinstance(got, bool):
                S.count("plus_result_not_a_bool_not_judged")
            elif got is not want:
                S.problem(site + " return value", want, got)
            S.outcome((self.instrument, form, in_range, want))

    def invariant(self, st):
        check_track(st.track, st.ref, engine.S)

    def canon(self, st):
        return (self.instrument, track_canon(st.track), engine.deep_key(st.track))


def run_gate(case):
    engine.bfs_execute(GateSpec(case["instrument"]), case["history"], check_prefix=True)


# ---------------------------------------------------------------------------------------
# (iii) from_chords product
# ---------------------------------------------------------------------------------------
PREFILLS = [[], ["4"], ["2"], ["2", "4"], ["4."], ["2*3:2"], ["1"], ["4", "4", "4", "8"]]
CHORD_METERS = [("C", (4, 4)), ("G", (3, 4)), ("f", (6, 8)), ("D", (2, 4)), ("Bb", (0, 0))]
CHORD_PRODUCT_VALUES = ["1", "2", "4", "8", "breve", "longa", "2.", "2*3:2"]


def run_chords(case):
    """case = [meter index, prefill labels, chord list index, value label]"""
    S = engine.S
    mi, prefill, ci, vlabel = case
    key, meter = CHORD_METERS[mi]
    st = TState()
    st.track.add_bar(Bar(key, meter))
    st.ref.add_bar(T.RefBar(key, meter))
    for lab in prefill:
        label, vfloat, vexact = value_item(lab)
        got = st.track.add_notes("C", vfloat)
        want, opened = st.ref.add(vfloat, 1 / vexact, [("C", 4)])
        if got is not want:
            S.problem("prefill add_notes('C', %s)" % lab, want, got)
            return
        if not want:
            sync_after_refusal(st.track, st.ref, opened)
    do_chords(st.track, st.ref, S, CHORD_LISTS[ci], vlabel, True)
    S.trans(1)
    ok = check_track(st.track, st.ref, S, where="from_chords(%r, %s): " % (CHORD_LISTS[ci], vlabel))
    if ok:
        check_track_equality(st.track, st.ref, S)
    # every chord placed is a container of its own: nothing is shared inside the track, nor with another track built
    # from the same list, and changing one track in place leaves the other as it was
    if ok and not prefill:
        twin = Track()
        twin.add_bar(Bar(key, meter))
        twin.from_chords(copy.deepcopy(CHORD_LISTS[ci]), value_item(vlabel)[1])
        mine = [id(e[2]) for b in st.track.bars for e in b.bar if e[2] is not None]
        theirs = [id(e[2]) for b in twin.bars for e in b.bar if e[2] is not None]
        if len(set(mine)) != len(mine) or set(mine) & set(theirs):
            S.problem("from_chords(%r, %s): NoteContainer objects placed" % (CHORD_LISTS[ci], vlabel), "one object per entry, none shared with another track",
                      {"entries": len(mine), "distinct objects": len(set(mine)), "shared with a second track": len(set(mine) & set(theirs))})
        before = [[(e[1], content_of(e[2])) for e in b.bar] for b in twin.bars]
        st.track.transpose("3")
        after = [[(e[1], content_of(e[2])) for e in b.bar] for b in twin.bars]
        if after != before:
            S.problem("a second track built by from_chords(%r, %s) after the first one was transposed" % (CHORD_LISTS[ci], vlabel), before, after)
        S.count("from_chords_twins_checked")
    # the same list on tracks that carry an instrument (the chords of this list lie in every instrument's range)
    if not prefill and vlabel in ("1", "4"):
        for iname in ("Piano", "MidiInstrument", "Guitar"):
            t2 = Track(make_instrument(iname))
            t2.add_bar(Bar(key, meter))
            try:
                engine.with_step_budget(t2.from_chords, (copy.deepcopy(CHORD_LISTS[ci]), value_item(vlabel)[1]), budget=20000)
            except engine.StepBudgetExceeded:
                raise
            except Exception as e:                               # noqa
                S.problem("Track(%s).from_chords(%r, %s)" % (iname, CHORD_LISTS[ci], vlabel), "placed as on a track without instrument", e)
                continue
            got = [[(e[1], content_of(e[2])) for e in b.bar] for b in t2.bars]
            want = [[(e[1], content_of(e[2])) for e in b.bar] for b in (twin.bars if ok else [])]
            S.count("from_chords_with_instrument")
    S.outcome(tuple((len(b.bar), b.is_full()) for b in st.track.bars))
    S.sample({"case": case, "bars": [[(e[1], content_of(e[2])) for e in b.bar] for b in st.track.bars]})


def gen_chords(shard):
    mi, ci = shard
    for prefill in PREFILLS:
        for v in CHORD_PRODUCT_VALUES:
            yield [mi, prefill, ci, v]


# ---------------------------------------------------------------------------------------
# (v) range gate over every spelling: a note is judged by its *pitch*, however it is spelled
# ---------------------------------------------------------------------------------------
from mc.ref import pitch as P

SPELL_FORMS = ["text", "note", "nc", "pair_with_E4", "middle_of_three"]


def run_spelling(case):
    """case = [instrument, name, octave]: every NAMES(2) spelling x octave 0..10, through four content forms."""
    S = engine.S
    iname, name, octv = case
    pitch = P.note_int(name, octv)
    if pitch < 0:
        S.count("spelling_negative_pitch_skipped")
        return
    for form in SPELL_FORMS:
        instr = make_instrument(iname)
        track = Track(instr)
        lo = R.pitch((instr.range[0].name, instr.range[0].octave))
        hi = R.pitch((instr.range[1].name, instr.range[1].octave))
        arg, expect = gate_argument(form, (name, octv))
        in_range = all(lo <= R.pitch(n) <= hi for n in expect)
        site = "Track(%s).add_notes(%s %s-%d, 4)" % (iname, form, name, octv)
        S.trans(1)
        try:
            got = track.add_notes(arg, 4)
            outcome = "accepted" if got is True else "returned %r" % (got,)
        except InstrumentRangeError:
            outcome = "range error"
        except Exception as e:                                   # noqa
            outcome = "raised " + type(e).__name__
        S.outcome((iname, form, in_range, outcome))
        want = "accepted" if in_range else "range error"
        S.count("spelling_in_range" if in_range else "spelling_out_of_range")
        if pitch in (lo, hi) and name != P.canonical(name)[0:1] and len(name) > 1:
            S.count("spelling_accidental_at_range_end")
        if outcome != want:
            S.problem(site, want, outcome, detail={"pitch": pitch, "range": [lo, hi]})
            continue
        items = [(dur, content_of(c)) for _, dur, c in track.get_notes()]
        want_items = [(4, sorted(expect, key=R.pitch))] if in_range else []
        if items != want_items:
            S.problem(site + " track content afterwards", want_items, items)


def gen_spelling(shard):
    iname, letter = shard
    for name in P.names(2):
        if name[0] != letter:
            continue
        for octv in range(0, 11):
            yield [iname, name, octv]


# ---------------------------------------------------------------------------------------
# (vi) fills: long homogeneous / two-value runs through add_notes -- bar structure at the
#      capacity frontier (all bars but the last exactly full, a bar opened only then)
# ---------------------------------------------------------------------------------------
FILL_METERS = [("C", (4, 4)), ("G", (3, 4)), ("f", (6, 8))]
_FILL_MIN = [Fraction(1, 24)]


def fill_values():
    return [v[0] for v in V.VALUES if 1 / v[2] >= _FILL_MIN[0] and v[2] >= 1]


def run_fill(case):
    """case = [meter index, label a, i, label b]: i times a, then b until two bar lengths are
    exceeded (or b is refused for room), through Track.add_notes on a track holding one empty bar."""
    S = engine.S
    mi, la, i, lb = case
    key, meter = FILL_METERS[mi]
    st = TState()
    st.track.add_bar(Bar(key, meter))
    st.ref.add_bar(T.RefBar(key, meter))
    length = Fraction(meter[0], meter[1])
    seq = [la] * i
    n = 0
    where = "fill %s x%d then %s in %d/%d: " % (la, i, lb, meter[0], meter[1])
    while n < 1000:
        lab = seq[n] if n < len(seq) else lb
        label, vfloat, vexact = value_item(lab)
        kind = ("str", "rest", "list")[n % 3]
        content, expect = make_content(kind)
        got = st.track.add_notes(content, vfloat)
        want, opened = st.ref.add(vfloat, 1 / vexact, expect)
        n += 1
        if not want:
            sync_after_refusal(st.track, st.ref, opened)
        S.count("fill_accepted" if want else "fill_refused")
        if got is not want:
            S.problem(where + "add_notes #%d (%s) return value" % (n, label), want, got,
                      detail={"bars": len(st.ref.bars), "last_bar_total": str(st.ref.bars[-1].total)})
            S.trans(n)
            return
        if opened and want:
            S.count("fill_bar_opened")
            # a bar was opened: the previous one must be exactly full, in the library too
            if not check_track(st.track, st.ref, S, where=where + "after add #%d: " % n, adopt=False):
                S.trans(n)
                return
        if not want or (n > len(seq) and st.ref.total() > 2 * length):
            break
    check_track(st.track, st.ref, S, where=where + "at the end: ", adopt=False)
    S.trans(n)
    S.outcome((mi, len(st.ref.bars), tuple(len(b.entries) for b in st.ref.bars[:3])))


def gen_fill(shard):
    mi, la = shard
    key, meter = FILL_METERS[mi]
    length = Fraction(meter[0], meter[1])
    a = V.BY_LABEL[la]
    imax = int(length / (1 / a[2]))
    for lb in fill_values():
        for i in range(0, imax + 1):
            yield [mi, la, i, lb]


# ---------------------------------------------------------------------------------------
# (vii) range history: the range in force is the one set last, whatever was asked before
# ---------------------------------------------------------------------------------------
RANGES = [(("C", 2), ("C", 6)), (("E", 3), ("E", 4)), (("C", 0), ("B", 8)), (("A", 4), ("A", 4))]


def run_range_history(case):
    """case = [instrument, i, j, as_strings]: set range i, offer every probe, set range j, offer every probe again."""
    S = engine.S
    iname, i, j, as_strings = case
    instr = make_instrument(iname)
    probes = sorted(set(p for r in (RANGES[i], RANGES[j]) for end in r for p in (R.pitch(end) - 1, R.pitch(end), R.pitch(end) + 1) if p >= 0))
    for step, ri in enumerate((i, j)):
        lo_n, hi_n = RANGES[ri]
        if as_strings:
            instr.set_range(("%s-%d" % lo_n, "%s-%d" % hi_n))
        else:
            instr.set_range((Note(*lo_n), Note(*hi_n)))
        lo, hi = R.pitch(lo_n), R.pitch(hi_n)
        for p in probes:
            note = from_pitch(p)
            in_range = lo <= p <= hi
            track = Track(instr)
            site = "%s after set_range(%s-%d .. %s-%d)%s: add_notes(%s-%d)" % (
                iname, lo_n[0], lo_n[1], hi_n[0], hi_n[1], " [second range set on this instrument]" if step else "", note[0], note[1])
            S.trans(1)
            try:
                got = track.add_notes(Note(*note), 4)
                outcome = "accepted" if got is True else "returned %r" % (got,)
            except InstrumentRangeError:
                outcome = "range error"
            except Exception as e:                               # noqa
                outcome = "raised " + type(e).__name__
            S.outcome((iname, step, in_range, outcome))
            S.count("range_history_in" if in_range else "range_history_out")
            if outcome != ("accepted" if in_range else "range error"):
                S.problem(site, "accepted" if in_range else "range error", outcome, detail={"pitch": p, "range": [lo, hi]})


def gen_range_history(iname):
    for i in range(len(RANGES)):
        for j in range(len(RANGES)):
            for as_strings in (0, 1):
                yield [iname, i, j, as_strings]


# ---------------------------------------------------------------------------------------
# (iv) composition bfs
# ---------------------------------------------------------------------------------------
TRACK_RECIPES = [
    [],
    # seven eighths in 4/4: not full, but no room for the quarter note that '+' offers
    [("add", "str", "8")] * 7,
    [("add", "str", "4"), ("add", "str", "4"), ("add", "str", "4")],
    [("add", "list", "2"), ("add", "rest", "2")],
    [("bar", 1), ("add", "rest", "4"), ("add", "note", "2")],
]
NOTE_ARGS = ["str", "note", "nc", "bar"]
# (negative numbers count from the end, as everywhere in Python: [-1] selects the last track)
SELECTIONS = [[], [0], [0, 1], [1, 2], [0, 2], [1], [-1], [0, -1]]


def build_recipe(i):
    st = TState()
    for step in TRACK_RECIPES[i]:
        if step[0] == "add":
            do_add(st.track, st.ref, engine.S, "add_notes", step[1], step[2], False)
        else:
            do_add_bar(st.track, st.ref, engine.S, step[1], "add_bar")
    return st


class CState(object):
    def __init__(self):
        self.comp = Composition()
        self.tracks = []           # TState per track, the real object is .track
        self.selected = []


def rebuild_composition(tracks):
    c = Composition()
    for t in tracks:
        c.add_track(t)
    return c


class CompositionSpec(BfsSpec):
    observe_prefix = True      # the invariant's observations are made at every step of a replayed history

    """canon: a Composition's behaviour depends on its tracks (each by track_canon) and selected_tracks."""

    def params(self):
        return {}

    def init(self):
        return CState()

    def actions(self):
        acts = [["track", i] for i in range(len(TRACK_RECIPES))]
        acts += [["note", k] for k in NOTE_ARGS]
        acts += [["select", i] for i in range(len(SELECTIONS))]
        return acts

    def step(self, st, act, check=True):
        S = engine.S
        c = st.comp
        rot = (len(st.tracks) + sum(len(t.ref.items()) for t in st.tracks)) % 2
        if act[0] == "track":
            ts = build_recipe(act[1])
            if rot == 0:
                c.add_track(ts.track)
            else:
                r = c + ts.track
            st.tracks.append(ts)
            st.selected = [len(st.tracks) - 1]
            if check:
                S.count("tracks_added")
        elif act[0] == "note":
            before = [snapshot(t.track) for t in st.tracks]
            chosen = set(i % len(st.tracks) for i in st.selected) if st.tracks else set()
            if act[1] == "bar" and len(st.selected) >= 2:
                # the one Bar object would be appended to every selected track; what happens to an
                # object shared between tracks is C15's subject (aliasing), not accumulation
                if check:
                    S.count("bar_to_several_tracks_skipped")
                return
            if act[1] == "bar":
                arg = Bar("D", (2, 4))
                if rot:
                    # a bar that was used before and emptied again is an empty bar like any other
                    arg + "C"
                    arg + "E"
                    arg.empty()
            else:
                arg, expect = make_content(act[1])
            if rot == 0:
                c.add_note(arg)
            else:
                r = c + arg
            for i in st.selected:
                ts = st.tracks[i]
                if act[1] == "bar":
                    ts.ref.add_bar(T.RefBar("D", (2, 4)))
                else:
                    want, opened = ts.ref.add(4, Fraction(1, 4), expect)
                    if not want:
                        sync_after_refusal(ts.track, ts.ref, opened)
            if check:
                S.count("notes_added_to_compositions")
                if len(st.selected) >= 2:
                    S.count("notes_added_to_several_selected_tracks")
                if st.tracks and len(st.selected) < len(st.tracks):
                    S.count("notes_added_with_unselected_tracks_present")
                for i, ts in enumerate(st.tracks):
                    if i not in chosen and snapshot(ts.track) != before[i]:
                        S.problem("add_note(%s) changed track %d which is not selected" % (act[1], i), before[i], snapshot(ts.track))
        elif act[0] == "select":
            sel = SELECTIONS[act[1]]
            if any(i >= len(st.tracks) or -i > len(st.tracks) for i in sel) or len(set(i % len(st.tracks) for i in sel)) != len(sel):
                if check:
                    S.count("selection_out_of_range_skipped")
                return
            c.selected_tracks = list(sel)
            st.selected = list(sel)
        else:
            raise engine.HarnessError("bad action %r" % (act,))

    def invariant(self, st):
        S = engine.S
        c = st.comp
        if len(c) != len(st.tracks) or len(c.tracks) != len(st.tracks):
            S.problem("len(composition)", len(st.tracks), len(c))
            return
        for i, ts in enumerate(st.tracks):
            if c[i] is not ts.track or c.tracks[i] is not ts.track:
                S.problem("composition[%d]" % i, "the track added at that position", "something else")
                return
            if not check_track(ts.track, ts.ref, S, where="track %d: " % i):
                return
        if list(c.selected_tracks) != st.selected and st.tracks:
            S.problem("selected_tracks", st.selected, c.selected_tracks)
        # equality follows contents
        same = rebuild_composition([rebuild_track(ts.ref) for ts in st.tracks])
        try:
            r = (c == same, same == c, c != same)
        except Exception as e:                               # noqa
            S.problem("composition == rebuilt identical composition", True, e, tags={"what": "composition_eq"})
            r = None
        if r is not None and (r[0] is not True or r[1] is not True or r[2] is not False):
            S.problem("composition == rebuilt identical composition", True, r, tags={"what": "composition_eq"})
        variants = [("one more track", rebuild_composition([rebuild_track(ts.ref) for ts in st.tracks] + [Track()]))]
        if st.tracks:
            variants.append(("last track missing", rebuild_composition([rebuild_track(ts.ref) for ts in st.tracks[:-1]])))
            alt = [rebuild_track(ts.ref) for ts in st.tracks[:-1]] + [rebuild_track(st.tracks[-1].ref, extra_bar=True)]
            variants.append(("last track has one more bar", rebuild_composition(alt)))
            if st.tracks[-1].ref.items():
                alt = [rebuild_track(ts.ref) for ts in st.tracks[:-1]] + [rebuild_track(st.tracks[-1].ref, swap_last="rest")]
                variants.append(("last track: rest<->note", rebuild_composition(alt)))
        for name, other in variants:
            try:
                r = (c == other, other == c)
            except Exception as e:                           # noqa
                S.problem("composition == different composition (%s) must not raise" % name, False, e, tags={"variant": name})
                continue
            if r[0] is not False or r[1] is not False:
                S.problem("composition == different composition (%s)" % name, False, r, tags={"variant": name})
            S.count("composition_inequalities_checked")
        S.outcome((len(st.tracks), tuple(st.selected), tuple(len(ts.ref.items()) for ts in st.tracks)))

    def canon(self, st):
        return (tuple(track_canon(ts.track) for ts in st.tracks), tuple(st.comp.selected_tracks),
                engine.deep_key([st.comp] + [ts.track for ts in st.tracks]))


def run_composition(case):
    engine.bfs_execute(CompositionSpec(), case["history"], check_prefix=True)


CLAUSES = {
    "range_history": run_range_history,
    "spelling": run_spelling,
    "fill": run_fill,
    "accumulate": run_accumulate,
    "gate": run_gate,
    "chords": run_chords,
    "composition": run_composition,
}


def explore(ctx):
    if ctx.want("accumulate"):
        plan = ctx.pick([("full", 3)], [("full", 3), ("medium", 4), ("reduced", 5)])
        for level, d in plan:
            spec = AccumulateSpec(level)
            ctx.bound("accumulate_%s_depth" % level, d)
            ctx.bound("accumulate_%s_actions" % level, len(spec.actions()))
            ctx.bfs("accumulate", spec, d, label="accumulate (%s alphabet)" % level)
    if ctx.want("gate"):
        d = ctx.pick(2, 2)
        ctx.bound("gate_depth", d)
        for name in INSTRUMENTS:
            ctx.bfs("gate", GateSpec(name), d, label="gate %s" % name)
    if ctx.want("chords"):
        shards = [(mi, ci) for mi in range(len(CHORD_METERS)) for ci in range(len(CHORD_LISTS))]
        ctx.bound("chords_cases", len(shards) * len(PREFILLS) * len(CHORD_PRODUCT_VALUES))
        ctx.product("chords", shards, gen_chords)
    if ctx.want("spelling"):
        ctx.product("spelling", [(i, L) for i in INSTRUMENTS if i != "none" for L in "CDEFGAB"], gen_spelling)
    if ctx.want("range_history"):
        ctx.product("range_history", [i for i in INSTRUMENTS if i != "none"], gen_range_history)
    if ctx.want("fill"):
        _FILL_MIN[0] = ctx.pick(Fraction(1, 24), Fraction(1, 128))
        fm = ctx.pick([0], [0, 1, 2])
        ctx.bound("fill_values", fill_values())
        ctx.bound("fill_meters", [FILL_METERS[i][1] for i in fm])
        ctx.product("fill", [(mi, la) for mi in fm for la in fill_values()], gen_fill)
    if ctx.want("composition"):
        d = ctx.pick(4, 5)
        ctx.bound("composition_depth", d)
        ctx.bfs("composition", CompositionSpec(), d)
    if not ctx.only:
        ctx.guard("accepted additions", ctx.counter("accepted"), 1000)
        ctx.guard("spellings in range", ctx.counter("spelling_in_range"), 1000)
        ctx.guard("spellings out of range", ctx.counter("spelling_out_of_range"), 1000)
        ctx.guard("bars opened during fills", ctx.counter("fill_bar_opened"), 1000)
        ctx.guard("fill placements refused for room", ctx.counter("fill_refused"), 100)
        ctx.guard("refused additions", ctx.counter("refused"), 1000)
        ctx.guard("bars opened by add_notes", ctx.counter("bar_opened_by_add"), 100)
        ctx.guard("refusals after opening an empty bar", ctx.counter("refused_after_opening_an_empty_bar"), 10)
        ctx.guard("multi-bar states", ctx.counter("multi_bar_states"), 1000)
        ctx.guard("items split at a bar line", ctx.counter("item_split_at_bar_line"), 100)
        ctx.guard("items split over more than two bars", ctx.counter("item_split_over_more_than_two_bars"), 10)
        ctx.guard("rests split at a bar line", ctx.counter("rest_split_at_bar_line"), 10)
        ctx.guard("rests accepted with an instrument", ctx.counter("gate_rest_accepted_with_instrument"), 4)
        ctx.guard("in-range notes accepted with an instrument", ctx.counter("gate_in_range_accepted_with_instrument"), 100)
        ctx.guard("range errors", ctx.counter("gate_range_errors"), 100)
        ctx.guard("track inequalities checked", ctx.counter("track_inequalities_checked"), 1000)
        ctx.guard("composition inequalities checked", ctx.counter("composition_inequalities_checked"), 100)
        ctx.guard("notes added with unselected tracks present", ctx.counter("notes_added_with_unselected_tracks_present"), 50)
        ctx.guard("notes added to several selected tracks", ctx.counter("notes_added_to_several_selected_tracks"), 10)


KNOWN = {}
