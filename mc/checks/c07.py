# -*- coding: utf-8 -*-
"""C07 -- chord recognition inverts construction in every inversion and output form
(DESIGN.md section 4, C07).

* recognise : every chord buildable from a (simple) shorthand x root x rotation: the shorthand
              answer contains a name that rebuilds the root-position chord and the long answer at
              the same position names it with the right inversion ordinal.
* total     : determine() in long and short form on every 3-note input, every 4-note input, the
              deviation neighbourhood (replace one/two notes, insert one note) of every buildable
              5- and 6-note chord in every rotation, and polychord-built inputs of up to 12+ notes:
              neither form raises, same length, same order, every returned name (and each half of
              a polychord name) is accepted by from_shorthand.
* three     : every 3-note input: every returned name's chord contains the three given names.
* trivial   : 0, 1, 2 notes.
* cold_order: every ordered pair of library shorthands on a root, in a freshly loaded chords module: the second chord
              is built (same notes as from a cold start) and recognised whatever was built first.
"""
import itertools

from mc import engine
from mc.ref import pitch as P
from mc.ref import chordtab as T

from mingus.core import chords
from mingus.core import intervals
from mingus.core.mt_exceptions import FormatError, NoteFormatError

PROPERTY = "C07"
RULE = ("product over shorthand x root x rotation (recognise), over all 3- and 4-note inputs and the <=2-deviation / "
        "one-insertion neighbourhood of every buildable 5-6 note chord in every rotation (total, three); "
        "distinct_nontrivial = distinct (answer shape) outcomes: tuples of returned suffixes / error types")
ASSUMPTIONS = [
    "'every chord that can be built from shorthand' is read with the statement's quantifier: simple shorthand x root "
    "(not slash chords or polychords); chords of fewer than three notes ('5') fall under the trivial-answer clause",
    "the recognised name and the long name must agree at *some* common position (exists, not for all positions)",
    "the long name is root + ' ' + documented meaning of the returned suffix (or of the shorthand the chord was built "
    "from), followed by nothing in root position and by ', <ordinal> inversion' otherwise; only the ordinal word, the "
    "word 'inversion' and the leading comma are required of the tail",
    "rotation k (k notes moved from the front to the back) is the k-th inversion",
    "'same order' is judged position-wise: entry i of the long answer starts with the root of entry i of the short "
    "answer (and with the documented meaning of its suffix when the reference table knows the suffix); polychord "
    "entries must be polychord entries with the same roots in both forms",
    "'accepted by chord construction' = from_shorthand returns without raising (the whole name and each '|' half)",
    "'contains all the given notes' is judged on note names (string equality), as the library represents notes",
    "2-note answer: a one-element list holding the library's own long interval name for the pair, in the long and in the "
    "shorthand form alike (interval naming itself is C03's subject); only the interval number word is checked independently",
    "determine() is called with default flags in recognise/three; the total clause also runs the four "
    "no_inversions/no_polychords combinations",
]

OK_ERRORS = (FormatError, NoteFormatError)


def lib_known():
    return set(chords.chord_shorthand) | set(chords.chord_shorthand_meaning)


def all_shorthands():
    return sorted(set(T.MEANING) | lib_known())


def call(fn, *args):
    try:
        return fn(*args), None
    except Exception as e:                                           # noqa
        return None, e


def err_name(e):
    return "%s: %s" % (type(e).__name__, e)


def meaning_texts(suffix):
    """Documented meanings a long name for this suffix may use (reference table first; for a suffix
    the reference does not document, the library's own table)."""
    out = []
    m = T.MEANING.get(suffix)
    if m:
        out.append(m)
    else:
        lm = chords.chord_shorthand_meaning.get(suffix)
        if isinstance(lm, str):
            out.append(lm.strip())
        if suffix in T.OPTIONAL_MEANING:
            out.append(T.OPTIONAL_MEANING[suffix])
    return out


def tail_ok(tail, k):
    if k == 0:
        return tail == ""
    words = [w for w in T.ORDINALS[1:] if w in tail]
    return tail.startswith(",") and words == [T.ORDINALS[k]] and "inversion" in tail


def long_name_ok(long_name, root, meanings, k):
    if not isinstance(long_name, str):
        return False
    for m in meanings:
        head = root + " " + m
        if long_name.startswith(head) and tail_ok(long_name[len(head):], k):
            return True
    return False


def expected_long(root, meanings, k):
    return ["%s %s%s" % (root, m, "" if k == 0 else ", %s inversion" % T.ORDINALS[k]) for m in meanings]


# ---------------------------------------------------------------------------------------
# recognise
# ---------------------------------------------------------------------------------------
def run_recognise(case):
    S = engine.S
    sh, root, k = case
    chord, e = call(chords.from_shorthand, root + sh)
    if e is not None:
        S.count("recognise_not_constructible")        # C06's subject
        return
    if not isinstance(chord, list) or len(chord) < 3 or k >= len(chord):
        S.count("recognise_fewer_than_three_notes")
        return
    S.sample(case)
    rot = chord[k:] + chord[:k]
    # both forms are asked about the *same* chord object, as a caller would: the two answers must
    # correspond position by position for that chord
    same = list(rot)
    short, es = call(chords.determine, same, True)
    long_, el = call(chords.determine, same, False)
    if same != list(rot):
        engine.S.problem("determine(%r): the caller's chord afterwards" % (list(rot),), list(rot), same,
                         detail="asking for the shorthand and then the long form of one chord object changed it")
    S.trans(2)
    tags = {"sh": sh, "k": k, "n": len(chord)}
    if es is not None:
        S.problem("determine(%r, shorthand=True)" % (rot,), "a list containing a name that rebuilds %r" % (chord,),
                  err_name(es), tags=tags)
    if el is not None:
        S.problem("determine(%r)" % (rot,), expected_long(root, meaning_texts(sh), k), err_name(el), tags=tags)
    if es is not None:
        S.outcome(("short raised", type(es).__name__))
        return
    if not isinstance(short, list):
        S.problem("determine(%r, shorthand=True)" % (rot,), "a list", short, tags=tags)
        return
    hits = []
    for i, name in enumerate(short):
        if not isinstance(name, str):
            continue
        # every returned shorthand name -- and each half of a polychord name -- is accepted by construction
        for part in (name.split("|") if "|" in name else [name]):
            rebuilt, eb = call(chords.from_shorthand, part)
            S.trans(1)
            if eb is not None:
                S.problem("from_shorthand(%r) of a name returned by determine(%r, shorthand=True)" % (part, rot),
                          "accepted", err_name(eb), tags=tags)
        if "|" in name:
            whole, ew = call(chords.from_shorthand, name)
            if ew is not None:
                S.problem("from_shorthand(%r) of a polychord name returned by determine(%r, shorthand=True)" % (name, rot),
                          "accepted", err_name(ew), tags=tags)
            continue
        rebuilt, eb = call(chords.from_shorthand, name)
        if eb is None and rebuilt == chord:
            hits.append(i)
    if not hits:
        S.problem("determine(%r, shorthand=True)" % (rot,), "a name that rebuilds %r (e.g. %r)" % (chord, root + sh),
                  short, tags=tags)
        S.outcome(("not recognised", len(chord), k))
        return
    S.count("recognised")
    S.count("recognised_inversion_%d" % k)
    if el is not None:
        S.outcome(("long raised", type(el).__name__, k))
        return
    if not isinstance(long_, list) or len(long_) != len(short):
        S.problem("determine(%r) long vs short" % (rot,), "same length as %r" % (short,), long_, tags=tags)
        return
    good = False
    for i in hits:
        sr = T.split_root(short[i])
        if sr is None:
            continue
        r, suffix = sr
        meanings = meaning_texts(suffix) + [m for m in meaning_texts(sh) if m not in meaning_texts(suffix)]
        if r == root and long_name_ok(long_[i], root, meanings, k):
            good = True
            break
    if not good:
        S.problem("determine(%r)[%s]" % (rot, hits), expected_long(root, meaning_texts(sh), k),
                  [long_[i] for i in hits], detail={"short": short, "long": long_}, tags=tags)
    else:
        S.count("long_name_ok")
    S.outcome((tuple(T.split_root(short[i])[1] for i in hits), k))


def run_cold_order(case):
    """case = [earlier shorthand, shorthand, root]: in a freshly loaded chords module the earlier chord is the first
    thing ever built on the root; the chord under test must be built and recognised as from a cold start."""
    import importlib
    S = engine.S
    pre, sh, root = case
    importlib.reload(chords)
    base, e0 = call(chords.from_shorthand, root + sh)
    importlib.reload(chords)
    # names that are refused, polychord-shaped ones among them, were tried before
    for bad in ("Cm|Xq", "H|C", "C|", "|", "Cfoo|CM", "CM|Cfoo", "C|D|Ebad", "Zz|Zz", "Cm/", "/C", "C7|Hm"):
        call(chords.from_shorthand, bad)
    # the key helpers of the same module were used on that root before (a refusal for roots that are no key)
    call(chords.triads, root)
    call(chords.sevenths, root)
    first, e1 = call(chords.from_shorthand, root + pre)
    if e1 is None and isinstance(first, list) and len(first) >= 3:
        named, e2 = call(chords.determine, list(first), True)
        # ... and every name given for the earlier chord was built again from its name
        for nm in (named if e2 is None and isinstance(named, list) else []):
            if isinstance(nm, str):
                call(chords.from_shorthand, nm)
    # ... and so were slash chords over the chord under test
    for bass in ("G", root, "Bb"):
        call(chords.from_shorthand, root + sh + "/" + bass)
    chord, e = call(chords.from_shorthand, root + sh)
    S.trans(3)
    if (e0 is None) != (e is None) or (e is None and chord != base):
        S.problem("from_shorthand(%r) when %r was the first chord built on that root" % (root + sh, root + pre),
                  base if e0 is None else err_name(e0), chord if e is None else err_name(e))
        return
    for k in (0, 1):
        run_recognise([sh, root, k])
    S.count("cold_order_pairs")


# ---------------------------------------------------------------------------------------
# total: never raises, same length and order, names accepted
# ---------------------------------------------------------------------------------------
def name_root_ok(long_name, short_name):
    """long_name names the same chord as short_name as far as the reference can tell."""
    sr = T.split_root(short_name)
    if sr is None:
        return False
    root, suffix = sr
    if not long_name.startswith(root):
        return False
    rest = long_name[len(root):]
    if rest[:1] in ("#", "b"):
        return False
    ms = meaning_texts(suffix)
    if ms and not any(rest.strip().startswith(m) for m in ms):
        return False
    return True


def check_forms(S, chord, ni, np_, site):
    """Returns the short answer (or None)."""
    same = list(chord)
    short, es = call(chords.determine, same, True, ni, np_)
    long_, el = call(chords.determine, same, False, ni, np_)
    if same != list(chord):
        engine.S.problem("determine(%r, ni=%r, np=%r): the caller's chord afterwards" % (list(chord), ni, np_), list(chord), same,
                         detail="asking for the shorthand and then the long form of one chord object changed it")
    S.trans(2)
    tags = {"n": len(chord)}
    if es is not None:
        S.problem(site + " shorthand form", "no exception", err_name(es), tags=tags)
    if el is not None:
        S.problem(site + " long form", "no exception", err_name(el), detail={"short": short}, tags=tags)
    if es is not None or el is not None:
        S.count("total_raised")
        return short if es is None else None
    if not isinstance(short, list) or not isinstance(long_, list):
        S.problem(site, "two lists", [short, long_], tags=tags)
        return None
    if len(short) != len(long_):
        S.problem(site + " lengths", "same length", {"short": short, "long": long_}, tags=tags)
        return short
    for i, (s, l) in enumerate(zip(short, long_)):
        if not isinstance(s, str) or not isinstance(l, str):
            S.problem(site + " entry %d" % i, "strings", [s, l], tags=tags)
            continue
        if "|" in s:
            hs, hl = s.split("|"), l.split("|")
            ok = len(hs) == len(hl) and all(T.split_root(a) is not None and b.startswith(T.split_root(a)[0])
                                            for a, b in zip(hs, hl))
        else:
            ok = name_root_ok(l, s)
        if not ok:
            S.problem(site + " entry %d" % i, "long entry naming the same chord as short entry %r" % s, l,
                      detail={"short": short, "long": long_}, tags=tags)
    for s in short:
        if not isinstance(s, str):
            continue
        parts = [s] + (s.split("|") if "|" in s else [])
        for p in parts:
            _, e = call(chords.from_shorthand, p)
            S.trans(1)
            if e is not None:
                sr = T.split_root(p)
                S.problem("from_shorthand(%r) of a returned name" % p, "accepted", err_name(e),
                          detail={"returned": s, "input": chord},
                          tags={"n": len(chord), "suffix": sr[1] if sr and "|" not in p else None})
            else:
                S.count("names_accepted")
    S.count("answers_nonempty" if short else "answers_empty")
    if any("|" in s for s in short if isinstance(s, str)):
        S.count("answers_with_polychord")
    return short


def run_total(case):
    S = engine.S
    chord, ni, np_ = case
    S.sample(case)
    short = check_forms(S, chord, bool(ni), bool(np_), "determine(%r, ni=%s, np=%s)" % (chord, ni, np_))
    if short is not None:
        S.outcome((len(chord), tuple(sorted(set((T.split_root(s)[1] if T.split_root(s) else "?") if "|" not in s else "poly"
                                                 for s in short if isinstance(s, str))))))
        S.count("total_len_%d" % min(len(chord), 15))


# ---------------------------------------------------------------------------------------
# three-note inputs
# ---------------------------------------------------------------------------------------
def run_three(case):
    S = engine.S
    chord = list(case)
    S.sample(case)
    for ni in (False, True):
        short, es = call(chords.determine, list(chord), True, ni)
        S.trans(1)
        if es is not None:
            S.problem("determine(%r, True, %s)" % (chord, ni), "no exception", err_name(es))
            continue
        for name in short:
            built, e = call(chords.from_shorthand, name)
            S.trans(1)
            if e is not None:
                S.problem("from_shorthand(%r)" % (name,), "a chord containing %r" % (chord,), err_name(e))
                continue
            missing = [n for n in chord if n not in built]
            if missing:
                S.problem("determine(%r, True, %s) -> %r" % (chord, ni, name), "a chord containing %r" % (chord,), built,
                          detail={"missing": missing})
            else:
                S.count("three_names_ok")
        if not ni:
            S.outcome(tuple(T.split_root(n)[1] if T.split_root(n) else n for n in short))
            S.count("three_nonempty" if short else "three_empty")


# ---------------------------------------------------------------------------------------
# 0, 1, 2 notes
# ---------------------------------------------------------------------------------------
def run_trivial(case):
    S = engine.S
    chord = list(case)
    S.sample(case)
    for flag in (False, True):
        got, e = call(chords.determine, list(chord), flag)
        S.trans(1)
        site = "determine(%r, %s)" % (chord, flag)
        if e is not None:
            S.problem(site, "no exception", err_name(e))
            continue
        if len(chord) == 0:
            if got != []:
                S.problem(site, [], got)
            elif isinstance(got, list):
                # the empty answer is the caller's list: after it (and the "no chord" chord) was filled by the caller,
                # nothing still has a name and "no chord" still has no notes
                got += ["C", "E"]
                nc, _ = call(chords.from_shorthand, "NC")
                if isinstance(nc, list):
                    nc.append("G")
                again, e2 = call(chords.determine, [], flag)
                nc2, e3 = call(chords.from_shorthand, "NC")
                S.trans(3)
                if again != [] or nc2 != []:
                    S.problem(site + " and from_shorthand('NC') after the caller filled the lists returned before", [[], []], [again, nc2])
        elif len(chord) == 1:
            if got != chord:
                S.problem(site, chord, got)
        else:
            name, e2 = call(intervals.determine, chord[0], chord[1])
            names = [name]            # in both forms: the interval's (long) name is the trivial answer the library documents by its code
            number = P.QUALITY_NAMES[(P.letter_index(chord[1]) - P.letter_index(chord[0])) % 7]
            if not (isinstance(got, list) and len(got) == 1 and got[0] in names):
                S.problem(site, "[%r]" % (name,), got)
            elif got[0] == name and not str(name).endswith(number):
                S.problem(site, "an interval name ending in %r" % number, got)
        S.count("trivial_ok")
    S.outcome((len(chord), repr(got)[:40]))


CLAUSES = {
    "recognise": run_recognise,
    "total": run_total,
    "three": run_three,
    "trivial": run_trivial,
    "cold_order": run_cold_order,
}


# ---------------------------------------------------------------------------------------
# generators
# ---------------------------------------------------------------------------------------
def gen_recognise(roots):
    def gen(sh):
        for r in roots:
            for k in range(7):
                yield [sh, r, k]          # the runner skips k >= number of notes
    return gen


def distinct_chords(root, sizes):
    """Distinct buildable chords (as tuples) of the given sizes on root, in shorthand order."""
    seen, out = set(), []
    for sh in all_shorthands():
        ch, e = call(chords.from_shorthand, root + sh)
        if e is None and isinstance(ch, list) and len(ch) in sizes and tuple(ch) not in seen:
            seen.add(tuple(ch))
            out.append(ch)
    return out


def gen_deviations(names, d2):
    """shard = (root, size, i): neighbourhood of every rotation of the i-th distinct buildable chord of
    that size on that root."""
    def gen(shard):
        root, size, idx = shard
        seen = set()

        def emit(c):
            t = tuple(c)
            if t not in seen:
                seen.add(t)
                return True
            return False

        for ch in distinct_chords(root, (size,))[idx:idx + 1]:
            for k in range(len(ch)):
                rot = ch[k:] + ch[:k]
                if emit(rot):
                    yield [rot, 0, 0]
                for i in range(len(rot)):                       # replace one note
                    for x in names:
                        c = rot[:i] + [x] + rot[i + 1:]
                        if emit(c):
                            yield [c, 0, 0]
                for i in range(len(rot) + 1):                   # insert one note
                    for x in names:
                        c = rot[:i] + [x] + rot[i:]
                        if emit(c):
                            yield [c, 0, 0]
                if d2:
                    for i, j in itertools.combinations(range(len(rot)), 2):
                        for x in names:
                            for y in names:
                                c = list(rot)
                                c[i], c[j] = x, y
                                if emit(c):
                                    yield [c, 0, 0]
    return gen


def gen_four(names, flagsets):
    def gen(first):
        for rest in itertools.product(names, repeat=3):
            for ni, np_ in flagsets:
                yield [[first] + list(rest), ni, np_]
    return gen


def gen_poly_inputs(xroots, yroots):
    def gen(xs):
        shs = all_shorthands()
        for ys in shs:
            for xr in xroots:
                for yr in yroots:
                    ch, e = call(chords.from_shorthand, xr + xs + "|" + yr + ys)
                    if e is None and len(ch) >= 5:
                        yield [ch, 0, 0]
    return gen


def explore(ctx):
    shs = all_shorthands()
    ctx.bound("shorthands", len(shs))
    c1 = P.canon_names(1)
    sharp12 = ["C", "C#", "D", "D#", "E", "F", "F#", "G", "G#", "A", "A#", "B"]
    allflags = [(0, 0), (1, 0), (0, 1), (1, 1)]

    if ctx.want("recognise"):
        if ctx.quick:
            roots = P.canon_names(2)
        else:
            roots = []
            for n in P.names(3) + P.canon_names(4):
                if n not in roots:
                    roots.append(n)
        ctx.bound("recognise_roots", "CANON(2): 35" if ctx.quick else "NAMES(3) + CANON(4): %d" % len(roots))
        ctx.product("recognise", shs, gen_recognise(roots))

    if ctx.want("cold_order"):
        lib = sorted(chords.chord_shorthand)
        croots = ctx.pick(["Eb", "F#"], ["Eb", "F#", "C", "B", "Ab", "D#", "Bb"])
        ctx.bound("cold_order", {"ordered pairs of library shorthands": len(lib) ** 2, "roots": croots})
        ctx.product("cold_order", lib, lambda pre: ([pre, sh, r] for sh in lib for r in croots))

    if ctx.want("three"):
        names3 = ctx.pick(c1, c1)
        ctx.bound("three", "all %d^3 inputs" % len(names3))
        ctx.product("three", names3, lambda a: ([a, b, c] for b in names3 for c in names3))

    if ctx.want("trivial"):
        tn = ctx.pick(P.canon_names(2), P.names(2))
        cases = [[]] + [[a] for a in tn] + [[a, b] for a in tn for b in tn]
        ctx.bound("trivial", "0, 1, 2 notes over %d names" % len(tn))
        ctx.serial("trivial", cases)

    if ctx.want("total"):
        # (a) every 3-note input
        f3 = ctx.pick([(0, 0)], allflags)
        ctx.product("total", c1, lambda a: ([[a, b, c], ni, np_] for b in c1 for c in c1 for ni, np_ in f3))
        # (b) every 4-note input
        if ctx.quick:
            ctx.bound("total_4_notes", "12 sharp names ^4, default flags")
            ctx.product("total", sharp12, gen_four(sharp12, [(0, 0)]))
        else:
            ctx.bound("total_4_notes", "CANON(1)^4 default flags + 12 sharp names ^4 x 4 flag combinations")
            ctx.product("total", c1, gen_four(c1, [(0, 0)]))
            ctx.product("total", sharp12, gen_four(sharp12, allflags[1:]))
        # (c) deviation neighbourhoods of the buildable 5- and 6-note chords
        droots = ctx.pick({5: list("CDEFGAB"), 6: ["C", "E", "G", "A"]}, {5: c1, 6: c1})
        nch = {n: len(distinct_chords("C", (n,))) for n in (5, 6)}
        ctx.bound("total_deviation_roots", droots)
        ctx.bound("total_deviation_chords", nch)
        ctx.bound("total_deviation_depth", ctx.pick("1 replacement or 1 insertion", "1 replacement / 1 insertion on 21 roots, 2 replacements on roots C, F#, Bb"))
        ctx.product("total", [(r, n, i) for n in (6, 5) for r in droots[n] for i in range(nch[n])], gen_deviations(c1, False))
        if not ctx.quick:
            ctx.product("total", [(r, n, i) for n in (6, 5) for r in ("C", "F#", "Bb") for i in range(nch[n])], gen_deviations(c1, True))
        # (d) polychord-built inputs (5 .. 12+ notes) and the > 14 note cut-off
        xroots = ctx.pick(["G"], ["G", "Bb", "F#"])
        yroots = ctx.pick(["C"], ["C", "Eb", "A"])
        ctx.bound("total_polychord_inputs", "X|Y for all shorthand pairs on roots %s x %s" % (xroots, yroots))
        ctx.product("total", shs, gen_poly_inputs(xroots, yroots))
        longs = [[["C", "E", "G"] * 5, 0, 0], [["C", "E", "G", "B", "D"] * 3, 0, 0], [["C"] * 14, 0, 0], [["C", "E", "G", "B", "D", "F", "A"] * 2, 0, 0]]
        ctx.serial("total", longs)

    if not ctx.only:
        ctx.guard("chords recognised", ctx.counter("recognised"), 5000)
        ctx.guard("long names checked", ctx.counter("long_name_ok"), 5000)
        for k in range(6):
            ctx.guard("recognised in inversion %d" % k, ctx.counter("recognised_inversion_%d" % k), 50)
        ctx.guard("three-note names checked", ctx.counter("three_names_ok"), 500)
        ctx.guard("three-note inputs without an answer", ctx.counter("three_empty"), 1000)
        ctx.guard("returned names accepted", ctx.counter("names_accepted"), 20000)
        ctx.guard("answers with polychords", ctx.counter("answers_with_polychord"), 500)
        ctx.guard("non-empty answers (total)", ctx.counter("answers_nonempty"), 5000)
        ctx.guard("empty answers (total)", ctx.counter("answers_empty"), 5000)
        for n in (3, 4, 5, 6, 7):
            ctx.guard("inputs of %d notes (total)" % n, ctx.counter("total_len_%d" % n), 1000)
        ctx.guard("inputs of 8+ notes (total)", sum(ctx.counter("total_len_%d" % n) for n in range(8, 16)), 200)
        ctx.guard("trivial inputs", ctx.counter("trivial_ok"), 1000)
