# -*- coding: utf-8 -*-
"""C16 -- MIDI output is well-formed SMF that denotes exactly the music written
(DESIGN.md section 4, C16).

Every enumerated program is written with the real writers (write_Note .. write_Composition, or
MidiTrack.play_Bar / play_Track histories), the bytes are decoded by the independent strict reader
mc/ref/smf.py and compared with the expected timeline of mc/ref/timeline.py, which is computed
from the neutral score read off the object graph (attribute reads only)."""
import collections
import os
import zlib

from mc import engine
from mc.engine import BfsSpec
from mc.ref import smf
from mc.ref import timeline as TL
from mc.checks import zoo_midi as Z

from mingus.containers.note import Note
from mingus.containers.note_container import NoteContainer
from mingus.midi import midi_file_out as MFO
from mingus.midi.midi_track import MidiTrack

PROPERTY = "C16"
RULE = ("bounded program zoo (all reachable bars of a real Bar over a content x value alphabet, tracks, compositions, "
        "stand-alone notes/containers), deviation-bounded parameter assignments crossed with the 12-pattern zoo, bfs over "
        "MidiTrack.play_Bar/play_Track histories, and the VLQ encoder on integer ranges; every case is written by the real "
        "writer and decoded by an independent strict SMF reader; distinct_nontrivial = distinct CRC32 of the bytes "
        "produced (programs), distinct (state, bytes) keys (bfs), distinct encoding lengths (vlq)")
ASSUMPTIONS = [
    "note-on / note-off are told apart by status byte (0x9n / 0x8n); a note written with velocity 0 is expected as a "
    "0x9n event with velocity 0, exactly as the statement's 'note-on ... with the note's velocity' reads",
    "round(288/value) is the interpreter's round(): at an exact tie (value 64 = 4.5 ticks) it rounds half to even (4 ticks); "
    "an earlier, weaker reading that also accepted round-half-up was dropped (see DESIGN.md section 10)",
    "the tick of a time/key signature is only required to lie between the end of the last sounding entry before the "
    "bar and the start of the next sounding entry (the statement does not fix where inside a rest it is emitted); "
    "their per-bar order and values are exact",
    "bank select = a controller-0 event on the first note's channel with any value (the statement names no bank), "
    "anywhere before the first note-on of the track; program change = the last program change on that channel before "
    "that note-on carries the instrument number (so an implementation may or may not re-send it on every repeat); "
    "further program changes are tolerated when they carry a requested instrument number",
    "the first note of a chord is the container's first (lowest) note",
    "track name and tempo: at least one event, all such events carry the written value (their position is not judged); "
    "time-signature bytes 3 and 4 (clocks per click, 32nds per quarter) are not judged",
    "an empty NoteContainer in a bar counts as a rest; channel events other than note on/off are not judged, except "
    "the instrument change",
    "MidiTrack.play_Bar / play_Track histories are read as the generalisation of the repeat loops of write_Bar / "
    "write_Track: each call appends its content at the end (rests included) of what was written before",
    "write_Composition with repeat: each track chunk may repeat its own content end to end (what the library does) or "
    "the repeats may be aligned on the longest track; either is accepted",
    "which placements a Bar accepts is C13's subject: programs are the reachable states of real Bars and the score "
    "is read off them",
]


# ---------------------------------------------------------------------------------------
# oracle on one file
# ---------------------------------------------------------------------------------------
def timelines_for(play, values):
    """One Timeline per rounding convention that matters for these values; `play(tl)` fills it."""
    out = []
    for conv in TL.conventions_needed(values):
        tl = TL.Timeline(conv)
        play(tl)
        out.append(tl)
    if any(TL.is_tie(v) for v in values):
        engine.S.count("tie_tracks_checked")
    return out


def check_bytes(site, data, per_track_timelines, bpm):
    """The whole oracle for one produced file.  per_track_timelines: for each expected track chunk
    the list of acceptable Timelines (one per rounding convention)."""
    S = engine.S
    try:
        f = smf.parse(data)
    except smf.SMFError as e:
        S.problem(site + ": bytes parse under the strict SMF reader", "well-formed Standard MIDI File", "SMFError: %s" % e,
                  detail={"hex": bytes(data[:96]).hex()})
        return None
    S.count("files_parsed")
    if f.format != 1:
        S.problem(site + ": header format", 1, f.format)
    if f.division != 72:
        S.problem(site + ": header division (ticks per quarter)", 72, f.division)
    if len(f.tracks) != len(per_track_timelines):
        S.problem(site + ": number of track chunks", len(per_track_timelines), len(f.tracks))
        return f
    for ti, (events, tls) in enumerate(zip(f.tracks, per_track_timelines)):
        best = None
        for tl in tls:
            probs = [("notes",) + p for p in TL.compare_notes(events, tl)]
            if not probs:
                probs += [("instrument",) + p for p in TL.compare_instruments(events, tl)]
            else:
                S.count("instrument_check_skipped_notes_differ")
            probs += [("meta",) + p for p in TL.compare_meta(events, tl, bpm)]
            if best is None or len(probs) < len(best[1]):
                best = (tl, probs)
            if not probs:
                break
        tl, probs = best
        for (group, what, exp, obs) in probs:
            S.problem("%s: track %d: %s" % (site, ti, what), exp, obs, tags={"group": group, "convention": tl.convention})
        if not probs:
            S.count("notes_checked", len(tl.notes))
            S.count("bars_checked", len(tl.bars))
            S.count("instrument_changes_checked", len(tl.instruments))
            S.count("rest_entries_checked", tl.rest_entries)
    return f


def written(path):
    """Bytes of the file the writer produced (None when it produced none); the file is removed so
    that a later writer call in the same directory cannot be credited with it."""
    if not os.path.exists(path):
        return None
    with open(path, "rb") as fh:
        data = fh.read()
    os.remove(path)
    return data


# ---------------------------------------------------------------------------------------
# clause runners: programs
# ---------------------------------------------------------------------------------------
def run_program(case):
    """case = {"comp": composition recipe, "bpm": int, "repeat": int, "apis": [...]}.

    apis: "composition" (write_Composition), "track" (write_Track of track 0), "bar" (write_Bar of
    bar 0 of track 0)."""
    S = engine.S
    recipe, bpm, repeat = case["comp"], case.get("bpm", 120), case.get("repeat", 0)
    apis = case.get("apis", ["composition"])
    S.sample(case)
    with Z.midi_dir("verif-c16-") as d:
        path = os.path.join(d, "p.mid")
        for api in apis:
            comp = Z.build_composition(recipe)          # fresh objects per API: writers must not depend on reuse
            scores = [Z.score_of_track(t, r) for t, r in zip(comp.tracks, recipe["tracks"])]
            if api == "composition":
                ok = MFO.write_Composition(path, comp, bpm, repeat)
                per_track = []
                for sc in scores:
                    per_track.append(timelines_for(lambda tl, sc=sc: [tl.play_track(sc) for _ in range(repeat + 1)],
                                                   Z.values_in([sc])))
                if repeat and len(scores) > 1:
                    # second acceptable reading of "repeats the whole content": the repeats of all
                    # tracks are aligned on the longest track
                    for conv in TL.conventions_needed(Z.values_in(scores)):
                        lengths = []
                        for sc in scores:
                            tl = TL.Timeline(conv)
                            tl.play_track(sc)
                            lengths.append(tl.now)
                        for sc, alts in zip(scores, per_track):
                            tl = TL.Timeline(conv)
                            for r in range(repeat + 1):
                                tl.advance_to(r * max(lengths))
                                tl.play_track(sc)
                            alts.append(tl)
            elif api == "track":
                ok = MFO.write_Track(path, comp.tracks[0], bpm, repeat)
                sc = scores[0]
                per_track = [timelines_for(lambda tl: [tl.play_track(sc) for _ in range(repeat + 1)], Z.values_in([sc]))]
            elif api == "bar":
                if not comp.tracks or not comp.tracks[0].bars:
                    continue
                ok = MFO.write_Bar(path, comp.tracks[0].bars[0], bpm, repeat)
                bsc = scores[0]["bars"][0]
                per_track = [timelines_for(lambda tl: [tl.play_bar(bsc) for _ in range(repeat + 1)],
                                           [v for (v, _c) in bsc["entries"]])]
            else:
                raise engine.HarnessError("unknown api %r" % api)
            S.trans(1)
            site = "write_%s" % api.capitalize()
            data = written(path)
            if data is None:
                S.problem(site + " wrote no file", "a MIDI file", {"returned": ok})
                continue
            check_bytes(site, data, per_track, bpm)
            S.outcome(zlib.crc32(data))
            S.count("programs_written")
            if repeat:
                S.count("repeated_programs")
            for sc in (scores if api != "bar" else [{"bars": [scores[0]["bars"][0]]}]):
                for b in sc["bars"]:
                    kinds = [TL.sounding(c) for (_v, c) in b["entries"]]
                    if kinds and not kinds[0] and any(kinds):
                        S.count("bars_with_leading_rest")
                    if kinds and not kinds[-1] and any(kinds):
                        S.count("bars_with_trailing_rest")
                    if kinds and not any(kinds):
                        S.count("bars_all_rest")
                    if any(c and len(c) > 1 for (_v, c) in b["entries"]):
                        S.count("bars_with_chords")


def run_standalone(case):
    """case = {"api": "note" | "nc", "notes": [[name, octave, channel, velocity], ...], "bpm", "repeat"}"""
    S = engine.S
    bpm, repeat = case.get("bpm", 120), case.get("repeat", 0)
    S.sample(case)
    with Z.midi_dir("verif-c16-") as d:
        path = os.path.join(d, "s.mid")
        if case["api"] == "note":
            obj = Z.build_note(case["notes"][0])
            score = Z.score_of_note(obj)
            ok = MFO.write_Note(path, obj, bpm, repeat)
            site = "write_Note"
        else:
            obj = NoteContainer([Z.build_note(n) for n in case["notes"]])
            score = Z.score_of_container(obj)
            ok = MFO.write_NoteContainer(path, obj, bpm, repeat)
            site = "write_NoteContainer"
        S.trans(1)
        data = written(path)
        if data is None:
            S.problem(site + " wrote no file", "a MIDI file", {"returned": ok})
            return
    tl = TL.Timeline()
    for _ in range(repeat + 1):
        tl.play_standalone(score)
    check_bytes(site, data, [[tl]], bpm)
    S.outcome(zlib.crc32(data))
    S.count("standalone_written")


# ---------------------------------------------------------------------------------------
# clause rewrite: the same objects written, changed in place, written again; MidiFile built through its constructor
# ---------------------------------------------------------------------------------------
REWRITE_EDITS = [["none"], ["track_transpose", "3", True], ["track_transpose", "b2", False], ["track_augment"], ["bar_diminish", 0],
                 ["note_octave_up"], ["note_from_int", 70], ["deepcopy_then", ["track_transpose", "5", True]]]
REWRITE_PATTERNS = [0, 1, 3, 9, 12]


def _rewrite_edit(track, edit):
    import copy
    how = edit[0]
    if how == "deepcopy_then":
        track = copy.deepcopy(track)
        return _rewrite_edit(track, edit[1])
    if how == "track_transpose":
        track.transpose(edit[1], edit[2])
    elif how == "track_augment":
        track.augment()
    elif how == "bar_diminish":
        track.bars[edit[1]].diminish()
    elif how in ("note_octave_up", "note_from_int"):
        for b in track.bars:
            for e in b.bar:
                if e[2] is not None and len(e[2].notes):
                    if how == "note_octave_up":
                        e[2].notes[0].octave_up()
                    else:
                        e[2].notes[0].from_int(edit[1])
                    return track
    elif how != "none":
        raise engine.HarnessError("unknown edit %r" % (edit,))
    return track


def run_rewrite(case):
    """case = [pattern index, edit, route]: route 'write_Track' writes the file twice with an in-place edit in between;
    route 'constructor' plays the track into a MidiTrack and builds the file with MidiFile([track]) (before and after playing)."""
    S = engine.S
    pi, edit, route = case
    recipe = {"name": "Rw", "instrument": ["midi", 20], "bars": [Z.bar_recipe(Z.PATTERNS[pi], key="D"), Z.bar_recipe(Z.PATTERNS[(pi + 3) % 12], key="D")]}
    track = Z.build_track(recipe)
    with Z.midi_dir("verif-c16-") as d:
        path = os.path.join(d, "w.mid")
        if route == "write_Track":
            for attempt in ("first", "again"):
                if attempt == "again":
                    track = _rewrite_edit(track, edit)
                MFO.write_Track(path, track, 120)
                data = written(path)
                S.trans(1)
                if data is None:
                    S.problem("write_Track (%s) wrote no file" % attempt, "a MIDI file", None)
                    return
                sc = Z.score_of_track(track, recipe)
                check_bytes("write_Track %s%s" % (attempt, "" if attempt == "first" else " after %r on the written objects" % (edit,)),
                            data, [timelines_for(lambda tl: tl.play_track(sc), Z.values_in([sc]))], 120)
        else:
            track = _rewrite_edit(track, edit)
            sc = Z.score_of_track(track, recipe)
            for order in ("play_then_construct", "construct_then_play"):
                mt = MidiTrack(120)
                if order == "play_then_construct":
                    mt.play_Track(track)
                    mf = MFO.MidiFile([mt])
                else:
                    mf = MFO.MidiFile([mt])
                    mt.play_Track(track)
                data = mf.get_midi_data()
                S.trans(1)
                check_bytes("MidiFile([MidiTrack]) %s" % order, bytes(data), [timelines_for(lambda tl: tl.play_track(sc), Z.values_in([sc]))], 120)
    S.count("rewrites")
    S.outcome((pi, edit[0], route))


# ---------------------------------------------------------------------------------------
# clause runner: VLQ encoder
# ---------------------------------------------------------------------------------------
def run_vlq(case):
    """case = [lo, hi): MidiTrack.int_to_varbyte(n) == the standard encoding for every n in the range."""
    S = engine.S
    lo, hi = case
    f = MidiTrack().int_to_varbyte
    ref = smf.vlq_encode_fast
    reported = 0
    for n in range(lo, hi):
        got = f(n)
        if got != ref(n):
            if reported < 3:
                S.problem("MidiTrack.int_to_varbyte(%d)" % n, smf.vlq_encode(n).hex(), bytes(got).hex() if isinstance(got, (bytes, bytearray)) else got,
                          case=[n, n + 1])
            reported += 1
    # cross-check of the unrolled reference against the loop form on the block borders
    for n in (lo, hi - 1):
        if smf.vlq_encode(n) != ref(n):
            raise engine.HarnessError("reference VLQ encoders disagree on %d" % n)
    S.trans(hi - lo)
    S.count("vlq_values", hi - lo)
    S.outcome((len(ref(lo)), len(ref(hi - 1))))


# ---------------------------------------------------------------------------------------
# clause: bfs over the MidiTrack writer state machine
# ---------------------------------------------------------------------------------------
BFS_TRACKS = [
    {"name": "T0", "instrument": None, "bars": [2, 4]},              # leading rest ... trailing rest
    {"name": "T1", "instrument": ["midi", 13], "bars": [2, 4]},      # the same with an instrument change
    {"name": "T2", "instrument": ["midi", 7], "bars": [5]},          # only rests: instrument stays pending
    {"name": "T3", "instrument": "Piano", "bars": [0]},              # not a MIDI instrument
]


def bfs_track_recipe(j):
    t = BFS_TRACKS[j]
    return {"name": t["name"], "instrument": t["instrument"], "bars": [Z.bar_recipe(Z.PATTERNS[p], key=("C", "eb")[i % 2]) for i, p in enumerate(t["bars"])]}


class WriterState(object):
    def __init__(self, bpm):
        self.track = MidiTrack(bpm)
        self.models = [TL.Timeline("even")]
        self.tie = False


class WriterSpec(BfsSpec):
    """State = a live MidiTrack (delta_time, delay, pending instrument, bytes so far) + the expected
    timeline; actions = play_Bar(b) for the 12-pattern zoo, play_Track(t) for 4 tracks."""

    def __init__(self, bpm=120):
        self.bpm = bpm

    def params(self):
        return {"bpm": self.bpm}

    def init(self):
        return WriterState(self.bpm)

    def actions(self):
        return [["bar", i] for i in range(len(Z.PATTERNS))] + [["track", j] for j in range(len(BFS_TRACKS))]

    def step(self, st, act, check=True):
        if act[0] == "bar":
            recipe = Z.bar_recipe(Z.PATTERNS[act[1]], key=("C", "f#", "Bb")[act[1] % 3])
            bar = Z.build_bar(recipe)
            sc = Z.score_of_bar(bar)
            st.track.play_Bar(bar)
            for m in st.models:
                m.play_bar(sc)
            st.tie = st.tie or TL.has_tie([sc])
        elif act[0] == "track":
            recipe = bfs_track_recipe(act[1])
            track = Z.build_track(recipe)
            sc = Z.score_of_track(track, recipe)
            st.track.play_Track(track)
            for m in st.models:
                m.play_track(sc)
            st.tie = st.tie or TL.has_tie(sc["bars"])
        else:
            raise engine.HarnessError("bad action %r" % (act,))

    def invariant(self, st):
        S = engine.S
        m = MFO.MidiFile()
        m.tracks = [st.track]
        data = m.get_midi_data()
        check_bytes("MidiTrack history", data, [st.models if st.tie else st.models[:1]], self.bpm)
        S.outcome((zlib.crc32(data), len(data)))

    def canon(self, st):
        # Everything a later play_* call reads: the pending delta bytes, the accumulated rest ticks,
        # the pending instrument change; bpm is only written.  track_data is included because the
        # oracle judges the whole file: two histories are merged only when they produced identical
        # bytes *and* identical writer state, hence have identical futures.
        # (read through deep_key: every attribute the writer object or its class holds, whatever it is called)
        return engine.deep_key(st.track)


def run_writer_bfs(case):
    engine.bfs_execute(WriterSpec(case.get("bpm", 120)), case["history"], check_prefix=True)


CLAUSES = {
    "bars": run_program,
    "tracks": run_program,
    "compositions": run_program,
    "deviations": run_program,
    "rest_ticks": run_program,
    "rewrite": run_rewrite,
    "tempo_carriers": run_program,
    "standalone": run_standalone,
    "writer_bfs": run_writer_bfs,
    "vlq": run_vlq,
}


# ---------------------------------------------------------------------------------------
# enumeration
# ---------------------------------------------------------------------------------------
BAR_VALUES = [4, 8, 2]
BAR_MAX = 3
BAR_EARLIER = []


def gen_bars(shard):
    """shard = (first symbol, first value): every reachable bar starting with that entry (and, for
    the shard ("", 0), the empty bar), written through every API, once and repeated."""
    k0, v0 = shard
    if k0 == "":
        pats = [[]]
    else:
        pats = Z.reachable_bars(Z.SYMBOLS, BAR_VALUES, BAR_MAX, first=(k0, v0))
    for pat in pats:
        if any(len(pat) <= mx and all(v in vals for (_k, v) in pat) for (vals, mx) in BAR_EARLIER):
            continue                                    # already enumerated by an earlier pass
        comp = {"tracks": [{"name": None, "instrument": None, "bars": [Z.bar_recipe(pat)]}]}
        yield {"comp": comp, "bpm": 120, "repeat": 0, "apis": ["bar", "track", "composition"]}
        yield {"comp": comp, "bpm": 120, "repeat": 1, "apis": ["bar", "track"]}


def gen_tempo_carriers(bpm):
    """containers that carry a `bpm` attribute (the tempo of the file, so that every tempo event has the written value):
    after rests, after notes, at the start of a bar, twice in a row -- the notes stand where their entries start"""
    def T(kind):
        return {"notes": Z.content(kind), "bpm": bpm}
    pats = [[[4, None], [4, T("N")], [2, Z.content("M")]],
            [[4, Z.content("N")], [8, None], [8, T("CH")], [2, Z.content("M")]],
            [[4, T("N")], [4, None], [4, T("M")], [4, None]],
            [[2, None], [4, None], [4, T("N")]],
            [[4, T("N")], [4, T("M")], [2, None]]]
    for ents in pats:
        bar = {"key": "C", "meter": [4, 4], "entries": ents}
        comp = {"tracks": [{"name": None, "instrument": None, "bars": [bar]}]}
        yield {"comp": comp, "bpm": bpm, "repeat": 0, "apis": ["bar", "track", "composition"]}
        two = {"tracks": [{"name": "T", "instrument": ["midi", 5], "bars": [Z.bar_recipe(Z.PATTERNS[5]), bar, bar]}]}
        yield {"comp": two, "bpm": bpm, "repeat": 1, "apis": ["track", "composition"]}


def gen_rest_ticks(shard):
    """every whole number of ticks in the shard as the length of a rest (one rest of value 288.0/t, and the same length
    split over two rests) in front of a note, and as the length of a note: every delta time 1..N is written"""
    for t in shard:
        beats = max(2, -(-(t + 80) // 72))
        pats = [[("R", ["ticks", t]), ("N", 4)], [("N", ["ticks", t]), ("M", 4)]]
        if t >= 2:
            pats.append([("R", ["ticks", t // 2]), ("R", ["ticks", t - t // 2]), ("CH", 4)])
        for pat in pats:
            comp = {"tracks": [{"name": None, "instrument": None, "bars": [Z.bar_recipe(pat, meter=(beats, 4))]}]}
            yield {"comp": comp, "bpm": 120, "repeat": 0, "apis": ["bar", "track"]}
    if 1 in shard:
        # values so short that they round to no tick at all (a 1024th note: 288/1024 -> 0): the note starts and ends on
        # the same tick and nothing after it moves
        for pat in ([("N", 1024), ("M", 4)], [("N", 1024), ("N", 1024), ("CH", 4)], [("R", 1024), ("N", 4)], [("N", 4), ("CH", 2048), ("M", 4)],
                    [("N", 600), ("M", 4)], [("N", 575), ("M", 4)]):
            comp = {"tracks": [{"name": None, "instrument": None, "bars": [Z.bar_recipe(pat)]}]}
            yield {"comp": comp, "bpm": 120, "repeat": 0, "apis": ["bar", "track"]}
            yield {"comp": comp, "bpm": 120, "repeat": 1, "apis": ["track"]}
    if 1 in shard:
        # full bars whose entries round down, so that the bar is a tick or two shorter than its meter says: the next bar
        # (and the next pass) starts where the entries end
        for pat, m in (([("N", 64), ("M", 64)], (1, 32)), ([("N", 28)] * 7, (1, 4)), ([("N", 128), ("R", 128), ("CH", 128), ("M", 128)], (1, 32)),
                       ([("N", 64)] * 4 + [("R", 64)] * 4, (1, 8)), ([("N", 28), ("R", 28)] * 7, (2, 4))):
            bars = [Z.bar_recipe(pat, meter=m), Z.bar_recipe([("N", 4)], meter=(1, 4)), Z.bar_recipe(pat, meter=m)]
            for repeat in (0, 1):
                yield {"comp": {"tracks": [{"name": None, "instrument": None, "bars": bars}]}, "bpm": 120, "repeat": repeat, "apis": ["track"]}
    if 1 in shard:
        # long silences: whole bars of rest in front of a note (delta times around the 2-byte / 3-byte boundary 16384)
        for nb in (1, 14, 15, 56, 57, 58):
            bars = [Z.bar_recipe([("R", 1)]) for _ in range(nb)] + [Z.bar_recipe([("R", ["ticks", 32]), ("N", 4)])]
            yield {"comp": {"tracks": [{"name": None, "instrument": None, "bars": bars}]}, "bpm": 120, "repeat": 0, "apis": ["track"]}


TRACK_BAR_SETTINGS = [("C", (4, 4)), ("f#", (4, 4)), ("Bb", (12, 8))]
KEY_SEQUENCES = [["C", "a"], ["a", "C"], ["f#", "A", "f#"], ["Eb", "c", "Eb"], ["A", "a"], ["c", "C", "c"], ["Cb", "ab"], ["a#", "C#"]]


def gen_tracks(shard):
    """shard = first pattern index: tracks of 1..3 bars drawn from the 12-pattern zoo; the bars of
    one track differ in key (and the third in meter)."""
    import itertools
    p0 = shard
    n = len(Z.PATTERNS)
    for length in (1, 2, 3):
        for rest in itertools.product(range(n), repeat=length - 1):
            pats = (p0,) + rest
            bars = [Z.bar_recipe(Z.PATTERNS[p], key=TRACK_BAR_SETTINGS[i][0], meter=TRACK_BAR_SETTINGS[i][1])
                    for i, p in enumerate(pats)]
            for instr in (None, ["midi", 13]):
                for repeat in (0, 1):
                    yield {"comp": {"tracks": [{"name": "Tr", "instrument": instr, "bars": bars}]},
                           "bpm": 120, "repeat": repeat, "apis": ["track"] if repeat else ["track", "composition"]}
    # one Bar object standing at several places of a track (a riff, a bar of rest), and bars whose notes sound on
    # different channels (the instrument belongs on the channel of the track's first note)
    for p1 in range(n):
        two = [Z.bar_recipe(Z.PATTERNS[p0], key="G", meter=(4, 4)), Z.bar_recipe(Z.PATTERNS[p1], key="G", meter=(4, 4))]
        for order in ([0, 0], [0, 1, 0], [0, 1, 1], [1, 0, 0], [0, 0, 1, 1]):
            for instr in (None, ["midi", 13]):
                yield {"comp": {"tracks": [{"name": "Sh", "instrument": instr, "bars": two, "order": order}]},
                       "bpm": 120, "repeat": 0, "apis": ["track", "composition"]}
        chans = [Z.bar_recipe(Z.PATTERNS[p0], key="C", meter=(4, 4), channel=3), Z.bar_recipe(Z.PATTERNS[p1], key="C", meter=(4, 4), channel=5),
                 Z.bar_recipe(Z.PATTERNS[p0], key="C", meter=(4, 4), channel=0)]
        yield {"comp": {"tracks": [{"name": "Ch", "instrument": ["midi", 40], "bars": chans}]},
               "bpm": 120, "repeat": 0, "apis": ["track", "composition"]}
    # one track passing through keys that share a signature (relative keys) or a tonic (parallel keys)
    for keyseq in KEY_SEQUENCES:
        bars = [Z.bar_recipe(Z.PATTERNS[p0], key=k, meter=(4, 4)) for k in keyseq]
        yield {"comp": {"tracks": [{"name": "Keys", "instrument": None, "bars": bars}]},
               "bpm": 120, "repeat": 0, "apis": ["track", "composition"]}


COMPOSITION_TRACKS = [
    {"name": "a", "instrument": None, "bars": [0]},
    {"name": "b", "instrument": ["midi", 1], "bars": [2, 4]},
    {"name": "c", "instrument": None, "bars": [5, 1]},
    {"name": "d", "instrument": ["midi", 127], "bars": [9, 9]},
    {"name": "e", "instrument": "Guitar", "bars": [7, 8]},
    {"name": "f", "instrument": None, "bars": []},
]


def _comp_track(j):
    t = COMPOSITION_TRACKS[j]
    return {"name": t["name"], "instrument": t["instrument"],
            "bars": [Z.bar_recipe(Z.PATTERNS[p], channel=(j + 1) % 16) for p in t["bars"]]}


def gen_compositions(shard):
    import itertools
    j0 = shard
    n = len(COMPOSITION_TRACKS)
    if j0 == -1:
        for repeat in (0, 1, 2):
            yield {"comp": {"tracks": []}, "bpm": 120, "repeat": repeat, "apis": ["composition"]}
        return
    for length in (1, 2, 3):
        for rest in itertools.product(range(n), repeat=length - 1):
            comp = {"tracks": [_comp_track(j) for j in (j0,) + rest]}
            for repeat in (0, 1, 2):
                yield {"comp": comp, "bpm": 120, "repeat": repeat, "apis": ["composition"]}


DEV_DEPTH = 2
DEV_DIMS = None
DEV_STRIDE = 4


def dev_dims(thorough):
    d = collections.OrderedDict()
    d["key"] = Z.KEYS30
    # ... and counts that need the whole data byte of the time signature event (128..255)
    d["meter"] = Z.METERS + [(128, 128), (200, 128), (255, 64)]
    d["channel"] = [1, 0, 9, 15] if not thorough else [1, 0] + list(range(2, 16))
    d["velocity"] = [64, 0, 1, 127]
    d["instrument"] = Z.INSTRUMENTS
    d["bpm"] = [120, 60, 121, 240, 4, 1000]
    d["repeat"] = [0, 1, 2]
    d["tracks"] = [1, 2, 3]
    d["nbars"] = [1, 2, 3]
    d["register"] = ["mid", "low", "high", "flat"]
    d["name"] = Z.NAMES
    return d


def gen_deviations(shard):
    pattern, r = shard
    for i, (a, k) in enumerate(Z.deviations(DEV_DIMS, DEV_DEPTH)):
        if i % DEV_STRIDE != r:
            continue
        a = dict(a, pattern=pattern)
        comp = Z.program_from_assignment(a, Z.PATTERNS)
        apis = ["composition"]
        if a["tracks"] == 1:
            apis.append("track")
            if a["nbars"] == 1:
                apis.append("bar")
        yield {"comp": comp, "bpm": a["bpm"], "repeat": a["repeat"], "apis": apis}


STANDALONE_NAMES = ["C", "C#", "Db", "D", "D#", "Eb", "E", "F", "F#", "Gb", "G", "G#", "Ab", "A", "A#", "Bb", "B", "Cb", "B#"]
STANDALONE_CHANNELS = [0, 1, 9, 15]


def gen_standalone(shard):
    octave = shard
    if octave == "nc":
        for reg in sorted(Z.REGISTERS):
            for kind in ("E", "N", "M", "CH", "X"):
                for ch in STANDALONE_CHANNELS:
                    for vel in (0, 1, 64, 127):
                        for repeat in (0, 1, 2):
                            yield {"api": "nc", "notes": Z.content(kind, reg, ch, vel), "bpm": (120, 4, 1000)[repeat], "repeat": repeat}
        return
    for name in STANDALONE_NAMES:
        key = TL.midi_key(name, octave)
        if not 0 <= key <= 127:
            continue                                    # "within MIDI range"
        for ch in STANDALONE_CHANNELS:
            for vel in (0, 1, 64, 127):
                for repeat in (0, 1, 2):
                    yield {"api": "note", "notes": [[name, octave, ch, vel]], "bpm": 120, "repeat": repeat}


def vlq_ranges(thorough):
    block = 1 << 16
    if thorough:
        return [[lo, lo + block] for lo in range(0, 1 << 28, block)]
    out = [[lo, lo + 4096] for lo in range(0, 1 << 17, 4096)]
    for k in (14, 21, 28):                 # 2^14 +- 2048 already lies inside the dense range
        for lo, hi in ([(1 << k) - 2048, 1 << k], [1 << k, min((1 << k) + 2048, 1 << 28)]):
            lo = max(lo, 1 << 17)
            if lo < hi:
                out.append([lo, hi])
    return out


def explore(ctx):
    global BAR_VALUES, BAR_MAX, BAR_EARLIER, DEV_DEPTH, DEV_DIMS, STANDALONE_CHANNELS
    thorough = not ctx.quick
    if ctx.want("vlq"):
        ranges = vlq_ranges(thorough)
        ctx.bound("vlq_values", "all of 0 .. 2^28-1" if thorough else "[0, 2^17) and +-2048 around 2^14, 2^21, 2^28")
        nsh = 64 if thorough else 8
        shards = [ranges[i::nsh] for i in range(nsh)]
        ctx.product("vlq", shards, lambda rs: iter(rs))
    if ctx.want("standalone"):
        STANDALONE_CHANNELS = list(range(16)) if thorough else [0, 1, 9, 15]
        ctx.bound("standalone", {"names": STANDALONE_NAMES, "octaves": "0-9 within MIDI range", "channels": STANDALONE_CHANNELS,
                                 "velocities": [0, 1, 64, 127], "repeat": [0, 1, 2]})
        ctx.product("standalone", list(range(10)) + ["nc"], gen_standalone)
    if ctx.want("bars"):
        passes = [([4, 8, 2], ctx.pick(3, 4))]
        # values whose tick length is not integral (57.6, 28.8, 4.5 ticks): consecutive rests must each be rounded
        passes.append(([5, 10, 64], ctx.pick(3, 3)))
        if thorough:
            passes.append(([4, 8, 2, "4.", 6, 20, 64, 10], 3))
        ctx.bound("bars", [{"symbols": Z.SYMBOLS, "values": v, "max_entries": m} for v, m in passes])
        for i, (vals, mx) in enumerate(passes):
            BAR_VALUES, BAR_MAX, BAR_EARLIER = vals, mx, passes[:i]
            ctx.product("bars", [("", 0)] + [(k, v) for k in Z.SYMBOLS for v in vals], gen_bars)
    if ctx.want("tempo_carriers"):
        ctx.product("tempo_carriers", [120, 90, 250], gen_tempo_carriers)
    if ctx.want("rewrite"):
        ctx.bound("rewrite", {"patterns": REWRITE_PATTERNS, "edits": REWRITE_EDITS, "routes": ["write_Track", "constructor"]})
        ctx.serial("rewrite", [[pi, e, r] for pi in REWRITE_PATTERNS for e in REWRITE_EDITS for r in ("write_Track", "constructor")])
    if ctx.want("rest_ticks"):
        tmax = ctx.pick(600, 1152)
        ctx.bound("rest_ticks", "rests and notes of every whole tick length 1..%d; 1-58 whole bars of rest before a note" % tmax)
        ctx.product("rest_ticks", [list(range(1 + i, tmax + 1, 16)) for i in range(16)], gen_rest_ticks)
    if ctx.want("tracks"):
        ctx.bound("tracks", "1..3 bars from the 12-pattern zoo x {no instrument, MIDI 13} x repeat {0,1}")
        ctx.product("tracks", list(range(len(Z.PATTERNS))), gen_tracks)
    if ctx.want("compositions"):
        ctx.bound("compositions", "0..3 tracks from a 6-track zoo x repeat {0,1,2}")
        ctx.product("compositions", [-1] + list(range(len(COMPOSITION_TRACKS))), gen_compositions)
    if ctx.want("deviations"):
        DEV_DEPTH = ctx.pick(2, 3)
        DEV_DIMS = dev_dims(thorough)
        ctx.bound("deviation_depth", DEV_DEPTH)
        ctx.bound("deviation_dims", {k: len(v) for k, v in DEV_DIMS.items()})
        ctx.bound("deviation_assignments_per_pattern", Z.count_deviations(DEV_DIMS, DEV_DEPTH))
        ctx.product("deviations", [(p, r) for p in range(len(Z.PATTERNS)) for r in range(DEV_STRIDE)], gen_deviations)
    if ctx.want("writer_bfs"):
        depth = ctx.pick(3, 4)
        ctx.bound("writer_bfs_depth", depth)
        ctx.bfs("writer_bfs", WriterSpec(120), depth)
    if not ctx.only:
        ctx.guard("files parsed by the strict reader", ctx.counter("files_parsed"), 10000)
        ctx.guard("note events checked", ctx.counter("notes_checked"), 50000)
        ctx.guard("rest entries checked", ctx.counter("rest_entries_checked"), 10000)
        ctx.guard("bars with a leading rest", ctx.counter("bars_with_leading_rest"), 500)
        ctx.guard("bars with a trailing rest", ctx.counter("bars_with_trailing_rest"), 500)
        ctx.guard("whole-bar rests", ctx.counter("bars_all_rest"), 100)
        ctx.guard("bars with chords", ctx.counter("bars_with_chords"), 500)
        ctx.guard("instrument changes checked", ctx.counter("instrument_changes_checked"), 500)
        ctx.guard("tracks on a rounding tie checked", ctx.counter("tie_tracks_checked"), 100)
        ctx.guard("repeated programs", ctx.counter("repeated_programs"), 1000)
        ctx.guard("stand-alone notes/containers", ctx.counter("standalone_written"), 1000)
        ctx.guard("vlq values", ctx.counter("vlq_values"), 1 << 17)


KNOWN = {}
