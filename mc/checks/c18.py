# -*- coding: utf-8 -*-
"""C18 -- sequencer playback emits a balanced, ordered, correctly timed event stream
(DESIGN.md section 4, C18).

Harness: a recording ``Sequencer`` subclass (the five hook methods only append to a list, so no
real time passes) plus two recording observers (a ``SequencerObserver`` subclass and a bare object
with ``notify``).  The hook stream is folded into absolute seconds (sum of the sleeps so far) and
judged against ``mc.ref.seqtimeline`` -- an independent model with exact rational times."""
import itertools
from fractions import Fraction

from mc import engine
from mc.engine import BfsSpec
from mc.ref import values as V
from mc.ref import seqtimeline as T

from mingus.containers.bar import Bar
from mingus.containers.note import Note
from mingus.containers.note_container import NoteContainer
from mingus.containers.track import Track
from mingus.containers.composition import Composition
from mingus.containers import instrument as INSTR
from mingus.midi.sequencer import Sequencer
from mingus.midi.sequencer_observer import SequencerObserver

PROPERTY = "C18"
RULE = ("every case of the stated spaces (notes x channels x velocities; all containers over a note pool; every bar "
        "of <= n entries over kinds x values x one tempo carrier; every track of <= 3 bars over a bar set; every "
        "ordered pair / triple of rhythm patterns incl. all partial bars; every listener-registry history; the whole "
        "control-change grid) is played once through the recording sequencer; distinct_nontrivial = distinct observed "
        "(clause, shape of the event stream) keys")
ASSUMPTIONS = [
    "play_Note/play_NoteContainer have no duration of their own: 'exactly one play event' is checked on the play call, "
    "'exactly one stop event' on the matching stop_Note/stop_NoteContainer call; the 'after the entry's duration' part is "
    "checked where entries exist (bars, tracks)",
    "time is what the sleep hook is told: the absolute time of an event is the sum of the sleeps emitted before it; "
    "times are compared to 1e-7 s + 1e-9 relative (smallest genuine error in the explored spaces: 1/128 note at 240 bpm > 5e-3 s)",
    "a container carrying bpm sets the tempo from its own onset on (for every voice when bars are played together); the final "
    "tempo is the one of the last carrier in time, else the tempo passed in; programs with two different tempi at one instant are not generated",
    "'whole notes of music' of a partially filled bar = the sum of its entries; voices played together start bar k together "
    "when the longest bar k-1 has ended; programs where a voice continues after a bar shorter than its neighbours (where "
    "'each voice runs on its own' would differ) are not judged",
    "within one instant the order of events is only constrained per (key, channel): stop before the next play of the same key; "
    "for a single voice the play events must come in score order (entry order, then the container's own iteration order); "
    "stop events of one chord may come in any order",
    "when the score itself has the same key sounding twice at once on one channel (two voices) only counts and times are checked for that key",
    "'the MIDI instrument's program': the 0-based GM number of the instrument's name or its instrument_nr are both accepted where they "
    "differ; the bank is not checked; instrument events are required of play_Tracks and play_Composition, ignored for play_Track",
    "'return value reports the final tempo' = a dict whose 'bpm' item equals the final tempo",
    "control changes with number and value inside 0..128 are expected to be delivered (one cc event, truthy return); refused ones "
    "return a falsy value and emit nothing; integer arguments only",
    "detaching an object that is not attached may do nothing or raise -- not judged; the listeners stay as they were",
    "observer equivalence is judged on the five low-level messages that have a hook (play, stop, cc, instrument, sleep), "
    "event by event with equal arguments; the high level messages (play_Bar, ...) have no hook counterpart and are not judged",
]

HOOK_LIMIT = 4000


# ---------------------------------------------------------------------------------------
# recorders
# ---------------------------------------------------------------------------------------
class RecSeq(Sequencer):
    def init(self):
        self.stream = []

    def _rec(self, ev):
        # deterministic termination horizon: no explored program has more than a few hundred events
        if len(self.stream) >= HOOK_LIMIT:
            raise engine.StepBudgetExceeded("more than %d events emitted" % HOOK_LIMIT)
        self.stream.append(ev)

    def play_event(self, note, channel, velocity):
        self._rec(("on", note, channel, velocity))

    def stop_event(self, note, channel):
        self._rec(("off", note, channel))

    def cc_event(self, channel, control, value):
        self._rec(("cc", channel, control, value))

    def instr_event(self, channel, instr, bank):
        self._rec(("instr", channel, instr, bank))

    def sleep(self, seconds):
        self._rec(("sleep", seconds))


class RecObs(SequencerObserver):
    def __init__(self):
        self.stream = []

    def play_int_note_event(self, int_note, channel, velocity):
        self.stream.append(("on", int_note, channel, velocity))

    def stop_int_note_event(self, int_note, channel):
        self.stream.append(("off", int_note, channel))

    def cc_event(self, channel, control, value):
        self.stream.append(("cc", channel, control, value))

    def instr_event(self, channel, instr, bank):
        self.stream.append(("instr", channel, instr, bank))

    def sleep(self, seconds):
        self.stream.append(("sleep", seconds))


class NotesOnlyObs(SequencerObserver):
    """An observer class that cares about notes only ..."""

    def __init__(self):
        self.stream = []

    def play_int_note_event(self, int_note, channel, velocity):
        self.stream.append(("on", int_note, channel, velocity))

    def stop_int_note_event(self, int_note, channel):
        self.stream.append(("off", int_note, channel))


class DerivedObs(NotesOnlyObs):
    """... and a class derived from it that adds the rest (an observer class two levels below SequencerObserver)."""

    def cc_event(self, channel, control, value):
        self.stream.append(("cc", channel, control, value))

    def instr_event(self, channel, instr, bank):
        self.stream.append(("instr", channel, instr, bank))

    def sleep(self, seconds):
        self.stream.append(("sleep", seconds))


class RawListener(object):
    """Anything with notify(msg_type, params) may be attached."""

    def __init__(self):
        self.stream = []

    def notify(self, msg_type, params):
        if msg_type == Sequencer.MSG_PLAY_INT:
            self.stream.append(("on", params["note"], params["channel"], params["velocity"]))
        elif msg_type == Sequencer.MSG_STOP_INT:
            self.stream.append(("off", params["note"], params["channel"]))
        elif msg_type == Sequencer.MSG_CC:
            self.stream.append(("cc", params["channel"], params["control"], params["value"]))
        elif msg_type == Sequencer.MSG_INSTR:
            self.stream.append(("instr", params["channel"], params["instr"], params["bank"]))
        elif msg_type == Sequencer.MSG_SLEEP:
            self.stream.append(("sleep", params["s"]))


def new_sequencer(where):
    """A separately created sequencer starts with no listeners: observers attached to *other* sequencers
    (every case of this run created its own) must not be registered with it."""
    # every case first creates another sequencer with an observer of its own (so that the case is
    # self-contained and replays alone), then the one it works with
    decoy = RecSeq()
    decoy.attach(RecObs())
    seq = RecSeq()
    seq._decoy = decoy                     # keep it alive for the duration of the case
    inherited = list(getattr(seq, "listeners", []))
    if inherited:
        engine.S.problem("Sequencer() created for %s: listeners of the new object" % where, [],
                         ["%s attached to an earlier sequencer" % type(l).__name__ for l in inherited[:4]],
                         detail="observers attached to one sequencer are registered with another one", tags={"what": "shared listeners"})
        # contain the damage (else every later case notifies every observer ever attached): detach them here
        del seq.listeners[:]
    return seq


def rig():
    seq = new_sequencer("a playback case")
    o1, o2, o3 = RecObs(), RawListener(), DerivedObs()
    # a do-nothing observer and one that listens to notes only come first (they are not judged): whichever class is
    # notified first in a process, every observer gets its own events
    seq.attach(SequencerObserver())
    seq.attach(NotesOnlyObs())
    seq.attach(o1)
    seq.attach(o2)
    seq.attach(o3)
    return seq, [("SequencerObserver subclass", o1), ("notify object", o2), ("subclass of an observer subclass", o3)]


def _window(stream, i):
    return [list(e) for e in stream[max(0, i - 2):i + 3]]


def first_diff(a, b):
    for i, (x, y) in enumerate(zip(a, b)):
        if x != y:
            return i
    return min(len(a), len(b))


def check_observers(S, seq, observers, site, tags=None):
    for name, o in observers:
        if o.stream != seq.stream:
            i = first_diff(seq.stream, o.stream)
            S.problem("%s: events received by the attached %s" % (site, name),
                      {"same as the hooks; hook events": len(seq.stream), "around index %d" % i: _window(seq.stream, i)},
                      {"observer events": len(o.stream), "around index %d" % i: _window(o.stream, i)}, tags=tags)


def shape(stream):
    """Short description of a stream for outcome counting."""
    n = {"on": 0, "off": 0, "sleep": 0, "instr": 0, "cc": 0}
    for e in stream:
        n[e[0]] += 1
    return (n["on"], n["off"], n["sleep"], n["instr"])


# ---------------------------------------------------------------------------------------
# building real objects from a JSON-able program
# ---------------------------------------------------------------------------------------
def build_note(d):
    name, octave, ch, vel = d
    return Note(name, octave, velocity=vel, channel=ch)


def build_nc(notes, bpm=None):
    """-> (NoteContainer, notes in the container's own iteration order)."""
    nc = NoteContainer()
    for d in notes:
        nc.add_note(build_note(d))
    got = [[n.name, n.octave, n.channel, n.velocity] for n in nc]
    if sorted(got) != sorted(list(d) for d in notes):
        raise engine.HarnessError("container does not hold the notes it was given: %r vs %r" % (got, notes))
    if bpm is not None:
        nc.bpm = bpm
    return nc, got


def build_bar(entries, meter):
    """-> (Bar, entries with the notes in container order) or (None, None) when the real bar refuses a placement."""
    bar = Bar("C", tuple(meter))
    norm = []
    for (label, notes, bpm) in entries:
        v = V.BY_LABEL[label][1]
        if notes is None:
            ok = bar.place_rest(v)
            norm.append([label, None, None])
        else:
            nc, got = build_nc(notes, bpm)
            ok = bar.place_notes(nc, v)
            norm.append([label, got, bpm])
        if not ok:
            return None, None
    return bar, norm


def build_voices(voices, meter):
    bars, norm = [], []
    for v in voices:
        bl, nl = [], []
        for entries in v:
            b, n = build_bar(entries, meter)
            if b is None:
                return None, None
            bl.append(b)
            nl.append(n)
        bars.append(bl)
        norm.append(nl)
    return bars, norm


def build_instrument(d):
    if d is None:
        return None
    if d[0] == "plain":
        return {"Instrument": INSTR.Instrument, "Piano": INSTR.Piano, "Guitar": INSTR.Guitar}[d[1]]()
    if d[0] == "bank":
        m = INSTR.MidiInstrument(d[1])
        m.names = list(d[3])
        m.instrument_nr = d[2]
        return m
    if d[0] == "midi":
        m = INSTR.MidiInstrument(d[1])
        if d[2] is not None:
            m.instrument_nr = d[2]
        return m
    raise engine.HarnessError("bad instrument %r" % (d,))


# ---------------------------------------------------------------------------------------
# common judgement of a played program
# ---------------------------------------------------------------------------------------
def judge_play(S, site, exp, seq, observers, ret, sequential, tags=None, want_instr=None):
    """exp: T.Expected.  want_instr: None (not judged) or list of (channel or None, acceptable programs)."""
    stream = seq.stream
    for (what, want, got) in T.judge(exp, stream, sequential):
        S.problem("%s: %s" % (site, what), want, got, tags=tags,
                  detail={"stream": [list(e) for e in stream[:60]], "events": len(stream)})
    if not (isinstance(ret, dict) and "bpm" in ret and ret["bpm"] == exp.final_bpm):
        S.problem("%s: return value" % site, {"bpm": exp.final_bpm}, ret, tags=tags)
    if want_instr is not None:
        instr = [(i, e) for i, e in enumerate(stream) if e[0] == "instr"]
        other = [i for i, e in enumerate(stream) if e[0] != "instr"]
        if len(instr) != len(want_instr):
            S.problem("%s: number of instrument changes" % site, len(want_instr), [list(e) for _, e in instr], tags=tags)
        else:
            if instr and other and instr[-1][0] > other[0]:
                S.problem("%s: instrument changes come first" % site, "all instrument events before any other event",
                          [list(e) for e in stream[:12]], tags=tags)
            ok = False
            for perm in itertools.permutations(range(len(instr))):
                if all((want_instr[t][0] is None or instr[perm[t]][1][1] == want_instr[t][0])
                       and instr[perm[t]][1][2] in want_instr[t][1] for t in range(len(want_instr))):
                    ok = True
                    break
            if not ok:
                S.problem("%s: instrument change per track (channel, program)" % site,
                          [[w[0], sorted(w[1])] for w in want_instr], [list(e[1:3]) for _, e in instr], tags=tags)
    check_observers(S, seq, observers, site, tags=tags)
    S.outcome(shape(stream) + (exp.final_bpm,))


# ---------------------------------------------------------------------------------------
# clause: note  (play_Note / stop_Note)
# ---------------------------------------------------------------------------------------
NOTE_NAMES = ["C", "C#", "Db", "E", "Fb", "B", "B#", "Cb", "F##", "Abb"]
CHANNELS = [0, 1, 9, 15]
VELOCITIES = [0, 1, 64, 127]


def run_note(case):
    """case = [name, octave, channel, velocity, args] ; args = None | [channel argument, velocity argument]"""
    S = engine.S
    S.sample(case)
    name, octave, ch, vel, args = case
    seq, observers = rig()
    key = T.midi_key(name, octave)
    n = build_note([name, octave, ch, vel])
    if args is None:
        seq.play_Note(n)
    else:
        seq.play_Note(n, args[0], args[1])
    want = [("on", key, ch, vel)]
    if seq.stream != want:
        S.problem("play_Note: hook events", want, seq.stream)
    check_observers(S, seq, observers, "play_Note")
    if args is None:
        seq.stop_Note(n)
    else:
        seq.stop_Note(n, args[0])
    want = want + [("off", key, ch)]
    if seq.stream != want:
        S.problem("play_Note, stop_Note: hook events", want, seq.stream)
    check_observers(S, seq, observers, "stop_Note")
    S.trans(2)
    S.outcome((key, ch, vel))


def gen_note(octave):
    for name in NOTE_NAMES:
        for ch in CHANNELS:
            for vel in VELOCITIES:
                for args in (None, [5, 33]):
                    yield [name, octave, ch, vel, args]


# ---------------------------------------------------------------------------------------
# clause: container  (play_NoteContainer / stop_NoteContainer)
# ---------------------------------------------------------------------------------------
POOL = [["C", 4, 1, 64], ["E", 4, 0, 127], ["G", 4, 9, 1], ["Bb", 4, 15, 0], ["D", 5, 1, 100], ["C", 2, 3, 64]]


def run_container(case):
    """case = [notes or None, args]"""
    S = engine.S
    S.sample(case)
    notes, args = case
    seq, observers = rig()
    if notes is None:
        nc, got = None, []
    else:
        nc, got = build_nc(notes)
    a = [] if args is None else list(args)
    seq.play_NoteContainer(nc, *a)
    want_on = [("on", T.midi_key(d[0], d[1]), d[2], d[3]) for d in got]
    if seq.stream != want_on:
        S.problem("play_NoteContainer: hook events", want_on, seq.stream)
    check_observers(S, seq, observers, "play_NoteContainer")
    k = len(seq.stream)
    seq.stop_NoteContainer(nc, *a[:1])
    want_off = sorted(("off", T.midi_key(d[0], d[1]), d[2]) for d in got)
    if sorted(seq.stream[k:]) != want_off:
        S.problem("stop_NoteContainer: hook events", want_off, seq.stream[k:])
    check_observers(S, seq, observers, "stop_NoteContainer")
    S.trans(2)
    S.count("containers_played")
    S.outcome(tuple(seq.stream))


def gen_container(size):
    if size == 0:
        for args in (None, [5, 33]):
            yield [None, args]
            yield [[], args]
        return
    for combo in itertools.combinations(range(len(POOL)), size):
        for order in (combo, tuple(reversed(combo))):
            for args in (None, [5, 33]):
                yield [[POOL[i] for i in order], args]


# ---------------------------------------------------------------------------------------
# clause: bar  (play_Bar over the bar zoo)
# ---------------------------------------------------------------------------------------
KIND_NOTES = {
    "n": [["C", 4, 1, 64]],                                     # the library's default channel/velocity
    "m": [["E", 5, 9, 127]],
    "c": [["C", 4, 0, 1], ["G", 4, 15, 0], ["Bb", 4, 1, 100]],
    "e": [],                                                    # an empty container
    "r": None,                                                  # a rest
}
BAR_KINDS = ["n", "m", "c", "r", "e"]


def run_bar(case):
    """case = {"bar": entries, "meter": [a, b], "bpm": x, "channel": c}"""
    S = engine.S
    S.sample(case)
    bar, norm = build_bar(case["bar"], case["meter"])
    if bar is None:
        S.count("bar_refused_a_placement")
        return
    exp = T.Expected([[norm]], case["bpm"])
    seq, observers = rig()
    ret = seq.play_Bar(bar, case["channel"], case["bpm"])
    S.trans(1)
    S.count("bars_played")
    if exp.rests:
        S.count("bars_with_rests")
    if len(exp.tmap) > 1 or exp.tmap[0][1] != case["bpm"]:
        S.count("bars_with_tempo_change")
    if exp.end != Fraction(case["meter"][0], case["meter"][1]):
        S.count("partial_bars_played")
    judge_play(S, "play_Bar", exp, seq, observers, ret, True)


def bar_sequences(kinds, labels, maxn, length):
    """every sequence of <= maxn (kind, value) entries whose exact total fits the bar (every prefix of every
    bar is itself in the set)."""
    out = []

    def rec(cur, tot):
        out.append(list(cur))
        if len(cur) == maxn:
            return
        for lab in labels:
            ln = T.entry_length(lab)
            if tot + ln <= length:
                for k in kinds:
                    rec(cur + [(k, lab)], tot + ln)
    rec([], Fraction(0))
    return out


def tempo_variants(seq, bpms):
    """the sequence without a tempo carrier and with one carrier at every position that is a container."""
    yield [[lab, KIND_NOTES[k], None] for (k, lab) in seq]
    for i, (k, lab) in enumerate(seq):
        if k == "r":
            continue
        for b in bpms:
            yield [[l2, KIND_NOTES[k2], (b if j == i else None)] for j, (k2, l2) in enumerate(seq)]


BAR_CFG = {}


def gen_bar(shard):
    first_kind, first_label = shard
    cfg = BAR_CFG
    meter = cfg["meter"]
    length = Fraction(meter[0], meter[1])
    if first_kind is None:
        seqs = [[]]
    else:
        ln = T.entry_length(first_label)
        rest = bar_sequences(BAR_KINDS, cfg["labels"], cfg["maxn"] - 1, length - ln)
        seqs = [[(first_kind, first_label)] + s for s in rest]
    for s in seqs:
        for i, entries in enumerate(tempo_variants(s, cfg["bpms"])):
            yield {"bar": entries, "meter": list(meter), "bpm": 120 if i % 2 == 0 else 90, "channel": 1 + (len(s) % 3)}


# ---------------------------------------------------------------------------------------
# clause: track  (play_Track: every track of <= 3 bars over a bar set)
# ---------------------------------------------------------------------------------------
def _e(label, kind, bpm=None):
    return [label, KIND_NOTES[kind], bpm]


TRACK_BARS = [
    [_e("4", "n"), _e("4", "m"), _e("4", "c"), _e("4", "n")],                    # full, plain
    [_e("2", "c"), _e("4", "r"), _e("8", "n"), _e("8", "n")],                    # full, rest inside, repeated key
    [_e("4", "n", 60), _e("4", "m"), _e("2", "r")],                              # tempo 60 from the start, ends in a rest
    [_e("4", "n"), _e("4", "c", 240), _e("4*3:2", "m"), _e("4*3:2", "m"), _e("4*3:2", "m")],   # tempo 240 mid-bar, triplets
    [_e("4", "r"), _e("4", "n")],                                                # partial, rest first
    [_e("8", "m"), _e("8.", "c")],                                               # partial, dotted
    [_e("4", "e", 200)],                                                         # partial, an empty container carrying a tempo
    [],                                                                          # empty bar
    [_e("1", "c")],                                                              # one whole-note chord
    [_e("16*5:4", "n")] * 5 + [_e("4", "r", None), _e("2", "m", 90)],            # quintuplets, tempo on the last entry
]


def run_track(case):
    """case = {"bars": [index into TRACK_BARS, ...], "bpm": x, "channel": c}"""
    S = engine.S
    S.sample(case)
    voices = [[TRACK_BARS[i] for i in case["bars"]]]
    bars, norm = build_voices(voices, (4, 4))
    if bars is None:
        S.count("bar_refused_a_placement")
        return
    exp = T.Expected(norm, case["bpm"])
    t = Track()
    for b in bars[0]:
        t.add_bar(b)
    seq, observers = rig()
    ret = seq.play_Track(t, case["channel"], case["bpm"])
    S.trans(1)
    S.count("tracks_played")
    judge_play(S, "play_Track", exp, seq, observers, ret, True)


def gen_track(first):
    n = len(TRACK_BARS)
    for k in (1, 2, 3):
        for rest in itertools.product(range(n), repeat=k - 1):
            idx = [first] + list(rest)
            yield {"bars": idx, "bpm": 120 if sum(idx) % 2 == 0 else 75, "channel": 1 + sum(idx) % 4}


# ---------------------------------------------------------------------------------------
# parallel playback: rhythm patterns, kind cyclings, voices
# ---------------------------------------------------------------------------------------
R24 = ["4", "8", "4*3:2", "8*3:2"]            # values 4, 8, 6, 12 in a 2/4 bar
R44 = ["2", "4", "8"]                         # in a 4/4 bar

VOICE_NOTES = [
    {"n": [["C", 4, 1, 64]], "c": [["C", 4, 1, 64], ["E", 4, 1, 64], ["G", 4, 1, 64]]},
    {"n": [["D", 5, 2, 80]], "c": [["D", 5, 2, 80], ["F#", 5, 2, 80], ["A", 5, 2, 80]]},
    {"n": [["Bb", 2, 9, 127]], "c": [["Bb", 2, 9, 127], ["D", 3, 9, 127], ["F", 3, 9, 127]]},
    {"n": [["E", 6, 15, 1]], "c": [["E", 6, 15, 1], ["G#", 6, 15, 1], ["B", 6, 15, 1]]},
]
CYCLES = {"A": ["n"], "B": ["n", "c", "r"], "C": ["r", "n", "c"]}


def rhythm_patterns(labels, maxn, length):
    """every sequence of <= maxn values whose exact total fits: all full patterns and every prefix of them."""
    out = []

    def rec(cur, tot):
        out.append(list(cur))
        if len(cur) == maxn:
            return
        for lab in labels:
            ln = T.entry_length(lab)
            if tot + ln <= length:
                rec(cur + [lab], tot + ln)
    rec([], Fraction(0))
    return out


def voice_bar(pattern, cycle, voice, same_keys=False):
    kinds = CYCLES[cycle]
    notes = VOICE_NOTES[0 if same_keys else voice]
    out = []
    for i, lab in enumerate(pattern):
        k = kinds[i % len(kinds)]
        out.append([lab, None if k == "r" else notes[k], None])
    return out


def f18_reasons(norm, meter):
    """Why today's play_Bars scheduler is expected to go wrong on this program (used only to key the fallback
    known-finding predicate; never to excuse anything else)."""
    why = set()
    if not meter[1]:
        return ["free meter"]
    length = Fraction(meter[0], meter[1])
    nb = max(len(v) for v in norm)
    if len(set(len(v) for v in norm)) > 1:
        why.add("tracks with different numbers of bars")
    for k in range(nb):
        bars = [v[k] for v in norm if k < len(v)]
        onsets = []
        for b in bars:
            pos, s = Fraction(0), set()
            for e in b:
                s.add(pos)
                pos += T.entry_length(e[0])
            onsets.append(s)
            if not b:
                why.add("empty bar")
            elif pos != length:
                why.add("bar not full")
        if any(o != onsets[0] for o in onsets):
            why.add("different onsets")
        tick = 0.0
        for e in bars[0]:
            tick += 1.0 / V.BY_LABEL[e[0]][1]
        first_total = sum((T.entry_length(e[0]) for e in bars[0]), Fraction(0))
        if first_total == length and tick != meter[0] * (1.0 / meter[1]):
            why.add("float ticks do not sum to the bar length")
    return sorted(why)


PAR_CFG = {}


def run_bars(case):
    """case = {"voices": [bar entries per voice], "meter": m, "bpm": x, "channels": [...]}  (one bar per voice)"""
    S = engine.S
    S.sample(case)
    voices = [[b] for b in case["voices"]]
    bars, norm = build_voices(voices, case["meter"])
    if bars is None:
        S.count("bar_refused_a_placement")
        return
    try:
        exp = T.Expected(norm, case["bpm"])
    except T.Ambiguous:
        S.count("ambiguous_program_skipped")
        return
    tags = {"f18": f18_reasons(norm, case["meter"]), "call": "play_Bars"}
    seq, observers = rig()
    S.trans(1)
    try:
        ret = seq.play_Bars([b[0] for b in bars], case["channels"], case["bpm"])
    except (engine.StepBudgetExceeded, engine.HarnessError):
        raise
    except Exception as e:                                         # noqa -- reported with the tags of the program
        S.problem("play_Bars raised", "no exception", "%s: %s" % (type(e).__name__, e), tags=tags)
        return
    S.count("parallel_programs_played")
    if "different onsets" in tags["f18"]:
        S.count("unequal_rhythm_programs")
    else:
        S.count("equal_rhythm_programs")
    if "bar not full" in tags["f18"]:
        S.count("parallel_with_partial_bar")
    if "float ticks do not sum to the bar length" in tags["f18"]:
        S.count("parallel_inexact_float_ticks")
    if len(exp.tmap) > 1 or exp.tmap[0][1] != case["bpm"]:
        S.count("parallel_with_tempo_change")
    if len(norm) >= 3:
        S.count("parallel_three_or_more_voices")
    judge_play(S, "play_Bars", exp, seq, observers, ret, len(norm) == 1, tags=tags)


def gen_bars_pairs(shard):
    """shard = (set name, index of the first pattern); every second pattern x the configured cycle combinations."""
    setname, ia = shard
    cfg = PAR_CFG[setname]
    pats = cfg["patterns"]
    a = pats[ia]
    for ib, b in enumerate(pats):
        for (ca, cb) in cfg["cycles"]:
            yield {"voices": [voice_bar(a, ca, 0), voice_bar(b, cb, 1)], "meter": list(cfg["meter"]),
                   "bpm": 120, "channels": [1, 2]}
    if cfg.get("same_keys"):
        # both voices on the same keys and channel: overlapping identical notes are legal in the score
        for ib, b in enumerate(pats):
            yield {"voices": [voice_bar(a, "B", 0, True), voice_bar(b, "C", 1, True)], "meter": list(cfg["meter"]),
                   "bpm": 90, "channels": [1, 1]}


def gen_bars_single(shard):
    setname, ia = shard
    cfg = PAR_CFG[setname]
    a = cfg["patterns"][ia]
    for c in "ABC":
        yield {"voices": [voice_bar(a, c, 0)], "meter": list(cfg["meter"]), "bpm": 100, "channels": [4]}


def gen_bars_triples(shard):
    setname, ia, ib = shard
    cfg = PAR_CFG[setname]
    pats = cfg["patterns"]
    a, b = pats[ia], pats[ib]
    for c in pats:
        yield {"voices": [voice_bar(a, "A", 0), voice_bar(b, "B", 1), voice_bar(c, "C", 2)],
               "meter": list(cfg["meter"]), "bpm": 120, "channels": [1, 2, 9]}


def gen_bars_quads(shard):
    setname, ia, ib = shard
    cfg = PAR_CFG[setname]
    pats = cfg["patterns"]
    a, b = pats[ia], pats[ib]
    for c in pats:
        for d in pats:
            yield {"voices": [voice_bar(a, "B", 0), voice_bar(b, "A", 1), voice_bar(c, "C", 2), voice_bar(d, "A", 3)],
                   "meter": list(cfg["meter"]), "bpm": 150, "channels": [1, 2, 9, 15]}


def gen_bars_tempo(shard):
    """one tempo-carrying container at every (container) position of either bar."""
    setname, ia = shard
    cfg = PAR_CFG[setname]
    pats = cfg["patterns"]
    a = pats[ia]
    for b in pats:
        for (ca, cb) in cfg["cycles"]:
            va, vb = voice_bar(a, ca, 0), voice_bar(b, cb, 1)
            for which, bar in ((0, va), (1, vb)):
                for i, e in enumerate(bar):
                    if e[1] is None:
                        continue
                    for bpm in cfg["bpms"]:
                        v = [[list(x) for x in va], [list(x) for x in vb]]
                        v[which][i][2] = bpm
                        yield {"voices": v, "meter": list(cfg["meter"]), "bpm": 120, "channels": [1, 2]}


def gen_bars_tempo2(shard):
    """two tempo-carrying containers, one in each bar, at every pair of (container) positions with different
    onsets: the earlier carrier may still sound, or end on the very beat, when the later one sets its tempo."""
    setname, ia = shard
    cfg = PAR_CFG[setname]
    pats = cfg["patterns"]
    a = pats[ia]
    for b in pats:
        ca, cb = cfg["cycles"][0]
        va, vb = voice_bar(a, ca, 0), voice_bar(b, cb, 1)
        ona = [sum((T.entry_length(e[0]) for e in va[:i]), Fraction(0)) for i in range(len(va))]
        onb = [sum((T.entry_length(e[0]) for e in vb[:j]), Fraction(0)) for j in range(len(vb))]
        for i, ea in enumerate(va):
            if ea[1] is None:
                continue
            for j, eb in enumerate(vb):
                if eb[1] is None or ona[i] == onb[j]:      # two tempi at one instant: no reading (see ASSUMPTIONS)
                    continue
                for (x, y) in ((60, 240), (200, 80)):
                    v = [[list(e) for e in va], [list(e) for e in vb]]
                    v[0][i][2] = x
                    v[1][j][2] = y
                    yield {"voices": v, "meter": list(cfg["meter"]), "bpm": 120, "channels": [1, 2]}


# ---------------------------------------------------------------------------------------
# clause: tracks  (play_Tracks / play_Composition)
# ---------------------------------------------------------------------------------------
def _pe(label, kind, bpm=None):
    return (label, kind, bpm)


# bars of a 2/4 meter as (label, kind, bpm); the notes depend on the voice
PT_BARS = [
    [_pe("4", "n"), _pe("4", "c")],                                        # 0 full
    [_pe("8", "n"), _pe("8", "r"), _pe("8", "c"), _pe("8", "n")],          # 1 full, other rhythm
    [_pe("4*3:2", "n"), _pe("4*3:2", "n"), _pe("4*3:2", "c")],             # 2 full, triplets
    [_pe("4", "n", 240), _pe("4", "n")],                                   # 3 full, tempo 240 at its start
    [_pe("4", "r"), _pe("8", "n"), _pe("8", "c", 60)],                     # 4 full, tempo 60 on the last entry
    [_pe("4", "c")],                                                       # 5 partial
    [_pe("8", "r"), _pe("8*3:2", "n")],                                    # 6 partial, rest first
    [],                                                                    # 7 empty
]
PT_FULL = [0, 1, 2, 3, 4]
INSTRUMENTS = [None, ["midi", "Violin", 40], ["plain", "Piano"], ["midi", "", 13], ["midi", "Gunshot", 127],
               ["plain", "Guitar"], ["midi", "Acoustic Grand Piano", 0], ["midi", "Flute", None], ["plain", "Instrument"],
               ["midi", "Church Organ", 19], ["midi", "Harpsichord", 6], ["midi", "", None],
               # MIDI instruments that carry a name table of their own (a sound bank), next to stock ones of the same names
               ["bank", "Violin", 3, ["Kazoo", "Piano", "Drum", "Violin"]], ["midi", "Kazoo", 1], ["bank", "Kazoo", 0, ["Kazoo", "Piano", "Drum", "Violin"]],
               ["bank", "Flute", 2, ["Piano", "Violin", "Flute"]]]
PT_CHANNELS = [3, 7, 11, 0]


def pt_voice(bar_ids, voice):
    out = []
    for bi in bar_ids:
        out.append([[lab, None if k == "r" else VOICE_NOTES[voice][k], bpm] for (lab, k, bpm) in PT_BARS[bi]])
    return out


def pt_voice_ids(maxbars, bar_ids=None):
    """every bar-id sequence of 1..maxbars bars whose non-last bars are full (so no ambiguity can arise from
    a track that continues after a partial bar)."""
    ids = list(range(len(PT_BARS))) if bar_ids is None else bar_ids
    out = []
    for n in range(1, maxbars + 1):
        for head in itertools.product([i for i in PT_FULL if i in ids], repeat=n - 1):
            for last in ids:
                out.append(list(head) + [last])
    return out


def run_tracks(case):
    """case = {"voices": [[bar id, ...] per track], "instruments": [index into INSTRUMENTS per track],
               "channels": [...] | None, "via": "tracks" | "composition", "bpm": x}"""
    S = engine.S
    S.sample(case)
    voices = [pt_voice(ids, vi) for vi, ids in enumerate(case["voices"])]
    bars, norm = build_voices(voices, (2, 4))
    if bars is None:
        S.count("bar_refused_a_placement")
        return
    try:
        exp = T.Expected(norm, case["bpm"])
    except T.Ambiguous:
        S.count("ambiguous_program_skipped")
        return
    tracks = []
    for vi, bl in enumerate(bars):
        t = Track(build_instrument(INSTRUMENTS[case["instruments"][vi]]))
        for b in bl:
            t.add_bar(b)
        tracks.append(t)
    channels = case["channels"]
    want_instr = [(None if channels is None else channels[vi], T.expected_program(INSTRUMENTS[case["instruments"][vi]]))
                  for vi in range(len(tracks))]
    tags = {"f18": f18_reasons(norm, (2, 4)), "call": "play_Tracks"}
    seq, observers = rig()
    S.trans(1)
    site = "play_Composition" if case["via"] == "composition" else "play_Tracks"
    try:
        if case["via"] == "composition":
            comp = Composition()
            for t in tracks:
                comp.add_track(t)
            if channels is None:
                ret = seq.play_Composition(comp, bpm=case["bpm"])
            else:
                ret = seq.play_Composition(comp, channels, case["bpm"])
        else:
            ret = seq.play_Tracks(tracks, channels, case["bpm"])
    except (engine.StepBudgetExceeded, engine.HarnessError):
        raise
    except Exception as e:                                         # noqa -- reported with the tags of the program
        S.problem("%s raised" % site, "no exception", "%s: %s" % (type(e).__name__, e), tags=tags)
        return
    S.count("track_sets_played")
    S.count("instrument_changes_expected", len(tracks))
    if len(set(len(v) for v in norm)) > 1:
        S.count("track_sets_with_unequal_bar_counts")
    if len(tracks) >= 3:
        S.count("track_sets_of_three_or_more")
    judge_play(S, site, exp, seq, observers, ret, len(norm) == 1, tags=tags, want_instr=want_instr)


TRK_CFG = {}


def _tracks_case(combo, n):
    """deterministic choice of instruments / entry point / tempo as a function of the case"""
    h = sum((i + 1) * sum(ids) + len(ids) for i, ids in enumerate(combo)) + n
    instruments = [(h + 5 * i) % len(INSTRUMENTS) for i in range(len(combo))]
    via = "composition" if h % 3 == 0 else "tracks"
    channels = PT_CHANNELS[:len(combo)]
    if via == "composition" and h % 2 == 0:
        channels = None
    return {"voices": [list(c) for c in combo], "instruments": instruments, "channels": channels, "via": via,
            "bpm": 120 if h % 5 else 96}


def gen_tracks(shard):
    """shard = (number of tracks, index of the first track's bar ids)"""
    ntracks, first = shard
    cfg = TRK_CFG[ntracks]
    vids = cfg["voices"]
    for n, rest in enumerate(itertools.product(vids, repeat=ntracks - 1)):
        yield _tracks_case([vids[first]] + list(rest), n)


# ---------------------------------------------------------------------------------------
# clause: observers  (bfs over the listener registry)
# ---------------------------------------------------------------------------------------
class ObsState(object):
    def __init__(self, nobs):
        self.seq = new_sequencer("the observer bfs")
        self.obs = {"o1": RecObs(), "o2": RawListener()}
        if nobs >= 3:
            self.obs["o3"] = RecObs()
        self.model = []            # names attached, in attach order


PROBE_NOTE = ["F#", 3, 4, 99]


class ObserverSpec(BfsSpec):
    """State = the listener list.  The Sequencer has no other attribute (``listeners`` is the only thing
    ``__init__`` creates; the recorders' lists are emptied before every step), so the listener tuple is all that
    future behaviour can depend on."""

    def __init__(self, nobs):
        self.nobs = nobs

    def params(self):
        return {"observers": self.nobs}

    def init(self):
        return ObsState(self.nobs)

    def actions(self):
        names = ["o1", "o2"] + (["o3"] if self.nobs >= 3 else [])
        acts = [["attach", n] for n in names] + [["detach", n] for n in names]
        acts += [["play_Note"], ["control_change"], ["control_change_refused"], ["play_Bar"], ["set_instrument"]]
        return acts

    def _clear(self, st):
        del st.seq.stream[:]
        for o in st.obs.values():
            del o.stream[:]

    def _delivery(self, st, site, want_stream):
        S = engine.S
        if want_stream is not None and st.seq.stream != want_stream:
            S.problem("%s: hook events" % site, want_stream, st.seq.stream)
        for name in sorted(st.obs):
            o = st.obs[name]
            if name in st.model:
                if o.stream != st.seq.stream:
                    S.problem("%s: events received by attached observer %s (attached: %s)" % (site, name, st.model),
                              st.seq.stream, o.stream)
            elif o.stream:
                S.problem("%s: events received by %s, which is not attached (attached: %s)" % (site, name, st.model),
                          [], o.stream)

    def step(self, st, act, check=True):
        S = engine.S
        self._clear(st)
        seq = st.seq
        kind = act[0]
        if kind == "attach":
            seq.attach(st.obs[act[1]])
            if act[1] in st.model:
                if check:
                    S.count("attached_twice")
            else:
                st.model.append(act[1])
        elif kind == "detach":
            if act[1] in st.model:
                seq.detach(st.obs[act[1]])
                st.model.remove(act[1])
                if check:
                    S.count("detached")
            else:
                try:
                    seq.detach(st.obs[act[1]])
                except Exception:                                  # noqa -- not judged (see ASSUMPTIONS)
                    if check:
                        S.count("detach_of_unattached_raised")
        elif kind == "play_Note":
            n = build_note(PROBE_NOTE)
            seq.play_Note(n)
            seq.stop_Note(n)
            if check:
                key = T.midi_key(PROBE_NOTE[0], PROBE_NOTE[1])
                self._delivery(st, "play_Note, stop_Note", [("on", key, 4, 99), ("off", key, 4)])
        elif kind == "control_change":
            ret = seq.control_change(2, 7, 128)
            if check:
                if not ret:
                    S.problem("control_change(2, 7, 128) return value", "accepted", ret)
                self._delivery(st, "control_change(2, 7, 128)", [("cc", 2, 7, 128)])
        elif kind == "control_change_refused":
            ret = seq.control_change(2, 129, 5)
            if check:
                if ret:
                    S.problem("control_change(2, 129, 5) return value", "refused", ret)
                self._delivery(st, "control_change(2, 129, 5)", [])
        elif kind == "play_Bar":
            bar, norm = build_bar([_e("4", "c"), _e("8", "r"), _e("8", "m", 60)], (4, 4))
            ret = seq.play_Bar(bar)
            if check:
                exp = T.Expected([[norm]], 120)
                for (what, want, got) in T.judge(exp, seq.stream, True):
                    S.problem("play_Bar: %s" % what, want, got)
                self._delivery(st, "play_Bar", None)
        elif kind == "set_instrument":
            seq.set_instrument(5, 40)
            if check:
                self._delivery(st, "set_instrument(5, 40)", None)
                if [e[:3] for e in seq.stream] != [("instr", 5, 40)]:
                    S.problem("set_instrument(5, 40): hook events", [("instr", 5, 40, "any bank")], seq.stream)
        else:
            raise engine.HarnessError("bad action %r" % (act,))
        if check:
            S.outcome((kind, tuple(st.model), tuple(len(st.obs[n].stream) for n in sorted(st.obs))))

    def invariant(self, st):
        """a probe after every step: attached observers get every event exactly once, the others nothing."""
        S = engine.S
        self._clear(st)
        n = build_note(PROBE_NOTE)
        st.seq.play_Note(n)
        st.seq.stop_Note(n)
        st.seq.control_change(1, 0, 0)
        st.seq.control_change(1, -1, 0)
        key = T.midi_key(PROBE_NOTE[0], PROBE_NOTE[1])
        self._delivery(st, "probe", [("on", key, 4, 99), ("off", key, 4), ("cc", 1, 0, 0)])
        if st.model:
            S.count("probes_with_an_observer_attached")
        if len(st.model) < len(st.obs):
            S.count("probes_with_an_observer_not_attached")
        real = self.canon(st)[0]
        if sorted(real) != sorted(st.model):
            S.problem("listeners after %s" % "the history", sorted(st.model), list(real))

    def canon(self, st):
        names = dict((id(o), n) for n, o in st.obs.items())
        # listener tuple, plus every other attribute of the sequencer object and its class (the
        # recording stream is cleared before each step and is not state)
        return (tuple(names.get(id(l), "?") for l in st.seq.listeners),
                engine.deep_key(st.seq, exclude=("stream", "listeners")))


def run_observers(case):
    engine.bfs_execute(ObserverSpec(case["observers"]), case["history"], check_prefix=True)


# ---------------------------------------------------------------------------------------
# clause: cc  (control_change on the whole grid)
# ---------------------------------------------------------------------------------------
CC_LO, CC_HI = -2, 130


def run_cc(case):
    S = engine.S
    S.sample(case)
    channel, control, value = case[:3]
    via = case[3] if len(case) > 3 else "control_change"
    seq, observers = rig()
    if via == "control_change":
        ret = seq.control_change(channel, control, value)
    else:
        # the named controllers: modulation = 1, main volume = 7, pan = 10
        if CC_NAMED[via] != control:
            raise engine.HarnessError("named controller %r is not number %r" % (via, control))
        ret = getattr(seq, via)(channel, value)
        S.count("cc_through_named_method")
    S.trans(1)
    refused = control < 0 or control > 128 or value < 0 or value > 128
    if refused:
        S.count("cc_refused")
        if ret:
            S.problem("%s return value" % via, "refused (False)", ret)
        if seq.stream:
            S.problem("%s: hook events of a refused control change" % via, [], seq.stream)
        for name, o in observers:
            if o.stream:
                S.problem("%s: events received by the attached %s for a refused control change" % (via, name), [], o.stream)
    elif isinstance(control, float) or isinstance(value, float):
        # fractional numbers inside the range: the statement only says what must be refused
        S.count("cc_fractional_in_range_not_judged")
    else:
        S.count("cc_accepted")
        if not ret:
            S.problem("%s return value" % via, "accepted (True)", ret)
        want = [("cc", channel, control, value)]
        if seq.stream != want:
            S.problem("%s: hook events" % via, want, seq.stream)
        check_observers(S, seq, observers, "control_change")
    S.outcome((bool(ret), len(seq.stream)))


CC_NAMED = {"modulation": 1, "main_volume": 7, "pan": 10}
CC_FRACTIONS = [-1.5, -0.5, -0.001, 0.5, 127.5, 128.001, 128.5, 129.5]


def gen_cc(control):
    for value in range(CC_LO, CC_HI + 1):
        for channel in (0, 1, 15):
            yield [channel, control, value]
            for via, nr in sorted(CC_NAMED.items()):
                if nr == control:
                    yield [channel, control, value, via]
    # numbers just outside the bounds that are not integers ("below 0 or above 128" is said of numbers)
    for x in CC_FRACTIONS:
        yield [1, control, x]
        if control in (0, 7, 128):
            yield [1, x, control]


# ---------------------------------------------------------------------------------------
# clause: replay -- one sequencer plays one bar object again after the bar was edited in place; one bar object
# standing in two voices
# ---------------------------------------------------------------------------------------
REPLAY_BARS = [
    [["4", [["C", 4, 1, 64]], None], ["4", [["E", 4, 1, 64], ["G", 4, 2, 90]], None], ["4", None, None], ["4", [["A", 3, 1, 70]], None]],
    [["8*3:2", [["D", 5, 1, 64]], None], ["8*3:2", [["F", 5, 1, 64]], None], ["8*3:2", [["A", 5, 3, 64]], None], ["2", [["Bb", 2, 1, 64]], None], ["4", [["G", 3, 1, 64]], None]],
    [["2", [["F#", 4, 1, 64], ["A", 4, 1, 64]], None], ["2", [["C", 5, 1, 100]], None]],
]
REPLAY_EDITS = [["none"], ["setitem", 0, [["G", 2, 1, 64]]], ["setitem", 1, [["Eb", 6, 1, 64], ["Bb", 6, 2, 64]]], ["swap_last", "8", [["B", 4, 1, 64]]],
                ["swap_last", "4.", [["D", 3, 1, 64]]], ["transpose", "3"], ["note_octave_up"], ["carrier", 0, 60]]
REPLAY_VIAS = ["play_Bar", "play_Bars", "play_Track", "play_Bars_doubled", "play_Tracks_doubled", "play_Tracks_unequal", "play_Composition_unequal"]


def _norm_of(bar, labels):
    out = []
    for e, lab in zip(bar.bar, labels):
        if e[2] is None:
            out.append([lab, None, None])
        else:
            out.append([lab, [[n.name, n.octave, n.channel, n.velocity] for n in e[2]], getattr(e[2], "bpm", None)])
    return out


def _replay_once(S, site, via, seq, observers, bar, labels, bpm):
    norm = _norm_of(bar, labels)
    doubled = via.endswith("_doubled")
    exp = T.Expected([[norm], [norm]] if doubled else [[norm]], bpm)
    del seq.stream[:]
    for _, o in observers:
        del o.stream[:]
    if via == "play_Bar":
        ret = seq.play_Bar(bar, 1, bpm)
    elif via == "play_Bars":
        ret = seq.play_Bars([bar], [1], bpm)
    elif via == "play_Track":
        t = Track()
        t.add_bar(bar)
        ret = seq.play_Track(t, 1, bpm)
    elif via == "play_Bars_doubled":
        ret = seq.play_Bars([bar, bar], [1, 2], bpm)              # the same Bar object in both voices
    elif via == "play_Tracks_doubled":
        t1, t2 = Track(), Track()
        t1.add_bar(bar)
        t2.add_bar(bar)
        ret = seq.play_Tracks([t1, t2], [1, 2], bpm)
        seq.stream[:] = [e for e in seq.stream if e[0] != "instr"]
        for _, o in observers:
            o.stream[:] = [e for e in o.stream if e[0] != "instr"]
    else:
        raise engine.HarnessError("unknown via %r" % via)
    S.trans(1)
    judge_play(S, site, exp, seq, observers, ret, not doubled)


def _replay_unequal(S, via, bi, edit):
    """A short track listed before a longer one, played twice from the same list / Composition object: the second playback
    is the first one again, and the caller's list is what it was."""
    short_entries, long_entries = REPLAY_BARS[bi], [REPLAY_BARS[(bi + 1) % len(REPLAY_BARS)], REPLAY_BARS[(bi + 2) % len(REPLAY_BARS)]]
    bars, norm = build_voices([[short_entries], long_entries], (4, 4))
    if bars is None:
        raise engine.HarnessError("replay bars refused a placement")
    tracks = []
    for bl in bars:
        t = Track()
        for b in bl:
            t.add_bar(b)
        tracks.append(t)
    comp = Composition()
    for t in tracks:
        comp.add_track(t)
    exp = T.Expected(norm, 120)
    seq, observers = rig()
    caller_list = list(tracks)
    for attempt in ("first time", "again from the same list"):
        del seq.stream[:]
        for _, o in observers:
            del o.stream[:]
        if via == "play_Tracks_unequal":
            ret = seq.play_Tracks(caller_list, [1, 2], 120)
        else:
            ret = seq.play_Composition(comp, [1, 2], 120)
        S.trans(1)
        seq.stream[:] = [e for e in seq.stream if e[0] != "instr"]
        for _, o in observers:
            o.stream[:] = [e for e in o.stream if e[0] != "instr"]
        judge_play(S, "%s (%s)" % (via, attempt), exp, seq, observers, ret, False)
        if len(caller_list) != 2 or caller_list[0] is not tracks[0] or caller_list[1] is not tracks[1] or len(comp.tracks) != 2:
            S.problem("%s: the caller's list of tracks afterwards" % via, "the two tracks it held", [len(caller_list), len(comp.tracks)])
            return
    S.count("replays")


def run_replay(case):
    """case = [bar index, via, edit]"""
    S = engine.S
    S.sample(case)
    bi, via, edit = case
    if via.endswith("_unequal"):
        if edit[0] == "none":
            _replay_unequal(S, via, bi, edit)
        return
    entries = REPLAY_BARS[bi]
    bar, norm = build_bar(entries, (4, 4))
    if bar is None:
        raise engine.HarnessError("replay bar refused a placement")
    labels = [e[0] for e in entries]
    seq, observers = rig()
    _replay_once(S, "%s (first time)" % via, via, seq, observers, bar, labels, 120)
    how = edit[0]
    if how == "setitem":
        nc, _ = build_nc(edit[2])
        bar[edit[1]] = nc
    elif how == "swap_last":
        bar.remove_last_entry()
        nc, _ = build_nc(edit[2])
        lab = edit[1]
        if not bar.place_notes(nc, V.BY_LABEL[lab][1]):
            lab = "16"                                   # the longer value does not fit this bar: a shorter one
            if not bar.place_notes(nc, V.BY_LABEL[lab][1]):
                raise engine.HarnessError("replay edit does not fit")
        labels = labels[:-1] + [lab]
    elif how == "transpose":
        bar.transpose(edit[1])
    elif how == "note_octave_up":
        bar.bar[0][2].notes[0].octave_up()
    elif how == "carrier":
        bar.bar[edit[1]][2].bpm = edit[2]
    elif how != "none":
        raise engine.HarnessError("unknown edit %r" % (edit,))
    _replay_once(S, "%s by the same sequencer again after %r on the bar" % (via, edit), via, seq, observers, bar, labels, 120)
    S.count("replays")


# ---------------------------------------------------------------------------------------
CLAUSES = {
    "replay": run_replay,
    "note": run_note,
    "container": run_container,
    "bar": run_bar,
    "track": run_track,
    "bars": run_bars,
    "bars_tempo": run_bars,
    "tracks": run_tracks,
    "observers": run_observers,
    "cc": run_cc,
}


def explore(ctx):
    # -- sequential ---------------------------------------------------------------------
    if ctx.want("note"):
        octaves = ctx.pick([0, 4, 8, 9, 10], list(range(0, 12)))        # "any note": key numbers above 127 included
        ctx.bound("note", {"names": NOTE_NAMES, "octaves": octaves, "channels": CHANNELS, "velocities": VELOCITIES,
                           "call arguments": [None, [5, 33]]})
        ctx.product("note", octaves, gen_note)
    if ctx.want("container"):
        ctx.bound("container", {"pool": POOL, "sizes": [0, 1, 2, 3], "orders": "ascending and descending"})
        ctx.product("container", [0, 1, 2, 3], gen_container)
    if ctx.want("bar"):
        BAR_CFG.update(meter=(4, 4), maxn=ctx.pick(3, 4),
                       labels=["2", "4", "8.", "4*3:2"],
                       bpms=ctx.pick([60], [60, 240]))
        ctx.bound("bar", dict(BAR_CFG, kinds=BAR_KINDS, initial_bpm=[120, 90]))
        shards = [(None, None)] + [(k, l) for k in BAR_KINDS for l in BAR_CFG["labels"]]
        ctx.product("bar", shards, gen_bar)
    if ctx.want("track"):
        ctx.bound("track", {"bar set": len(TRACK_BARS), "bars per track": [1, 2, 3]})
        ctx.product("track", list(range(len(TRACK_BARS))), gen_track)
    # -- parallel -----------------------------------------------------------------------
    p24 = rhythm_patterns(R24, 6, Fraction(1, 2))
    p44 = rhythm_patterns(R44, 6, Fraction(1))
    all_cycles = [(a, b) for a in "ABC" for b in "ABC"]
    PAR_CFG["p24"] = {"patterns": p24, "meter": (2, 4), "same_keys": True,
                      "cycles": ctx.pick([("A", "A"), ("B", "C"), ("C", "B")], all_cycles)}
    PAR_CFG["p44"] = {"patterns": p44, "meter": (4, 4), "same_keys": False,
                      "cycles": ctx.pick([("B", "A")], [("A", "A"), ("B", "C"), ("C", "B"), ("B", "A")])}
    PAR_CFG["t24"] = {"patterns": rhythm_patterns(R24, ctx.pick(2, 3), Fraction(1, 2)), "meter": (2, 4)}
    PAR_CFG["q24"] = {"patterns": rhythm_patterns(R24, ctx.pick(1, 2), Fraction(1, 2)), "meter": (2, 4)}
    PAR_CFG["m24"] = {"patterns": rhythm_patterns(R24, ctx.pick(4, 5), Fraction(1, 2)), "meter": (2, 4),
                      "cycles": ctx.pick([("A", "B")], [("A", "B"), ("C", "A")]), "bpms": ctx.pick([60], [60, 240])}
    # very short entries (128th, 64th, 32nd notes): shorter than any tolerance a scheduler may use for "the same beat"
    fine = rhythm_patterns(["128", "64", "32", "4"], 3, Fraction(1, 2))
    PAR_CFG["f24"] = {"patterns": fine, "meter": (2, 4), "same_keys": True, "cycles": [("A", "A"), ("B", "C")]}
    # bars in the free meter (0, 0), whose length attribute is 0: entries last as long as their values say
    free = rhythm_patterns(R24, 3, Fraction(1, 2))
    PAR_CFG["z00"] = {"patterns": free, "meter": (0, 0), "same_keys": False, "cycles": [("A", "B")]}
    if ctx.want("bars"):
        ctx.product("bars", [("z00", i) for i in range(len(free))], gen_bars_single)
        ctx.product("bars", [("z00", i) for i in range(len(free))], gen_bars_pairs)
        ctx.product("bars", [("f24", i) for i in range(len(fine))], gen_bars_single)
        ctx.product("bars", [("f24", i) for i in range(len(fine))], gen_bars_pairs)
        ctx.bound("bars", {"2/4 patterns over 4,8,6,12 (<=6 entries, every prefix)": len(p24),
                           "4/4 patterns over 2,4,8 (<=6 entries, every prefix)": len(p44),
                           "kind cycles per pair (2/4)": PAR_CFG["p24"]["cycles"], "kind cycles per pair (4/4)": PAR_CFG["p44"]["cycles"],
                           "triples: 2/4 patterns": len(PAR_CFG["t24"]["patterns"]),
                           "quadruples: 2/4 patterns": len(PAR_CFG["q24"]["patterns"])})
        ctx.product("bars", [("p24", i) for i in range(len(p24))] + [("p44", i) for i in range(len(p44))], gen_bars_single)
        ctx.product("bars", [("p24", i) for i in range(len(p24))] + [("p44", i) for i in range(len(p44))], gen_bars_pairs)
        nt = len(PAR_CFG["t24"]["patterns"])
        ctx.product("bars", [("t24", i, j) for i in range(nt) for j in range(nt)], gen_bars_triples)
        nq = len(PAR_CFG["q24"]["patterns"])
        ctx.product("bars", [("q24", i, j) for i in range(nq) for j in range(nq)], gen_bars_quads)
    if ctx.want("bars_tempo"):
        ctx.bound("bars_tempo", {"2/4 patterns": len(PAR_CFG["m24"]["patterns"]), "cycles": PAR_CFG["m24"]["cycles"],
                                 "carried bpm": PAR_CFG["m24"]["bpms"]})
        ctx.product("bars_tempo", [("m24", i) for i in range(len(PAR_CFG["m24"]["patterns"]))], gen_bars_tempo)
        PAR_CFG["m24b"] = dict(PAR_CFG["m24"], patterns=rhythm_patterns(R24, ctx.pick(3, 4), Fraction(1, 2)))
        ctx.bound("bars_tempo two carriers", {"2/4 patterns": len(PAR_CFG["m24b"]["patterns"]), "carried bpm pairs": [[60, 240], [200, 80]]})
        ctx.product("bars_tempo", [("m24b", i) for i in range(len(PAR_CFG["m24b"]["patterns"]))], gen_bars_tempo2)
    if ctx.want("tracks"):
        TRK_CFG[1] = {"voices": pt_voice_ids(3)}
        TRK_CFG[2] = {"voices": pt_voice_ids(2)}
        TRK_CFG[3] = {"voices": pt_voice_ids(ctx.pick(1, 2), ctx.pick(None, [0, 2, 3, 5, 6, 7]))}
        TRK_CFG[4] = {"voices": pt_voice_ids(1, [0, 1, 3, 6, 7])}
        ctx.bound("tracks", dict(("%d track(s): voices" % k, len(v["voices"])) for k, v in TRK_CFG.items()))
        shards = [(k, i) for k in sorted(TRK_CFG) for i in range(len(TRK_CFG[k]["voices"]))]
        ctx.product("tracks", shards, gen_tracks)
        # every ordered pair of instruments on two one-bar tracks (and every ordered triple of five of them): what one
        # track's instrument is never leaks into the announcement of the next
        ni = len(INSTRUMENTS)
        pairs = [{"voices": [[0], [1]], "instruments": [a, b], "channels": PT_CHANNELS[:2], "via": via, "bpm": 120}
                 for a in range(ni) for b in range(ni) for via in ("tracks", "composition")]
        sub = [0, 1, 2, 7, 12]
        triples = [{"voices": [[0], [1], [3]], "instruments": [a, b, c], "channels": PT_CHANNELS[:3], "via": "tracks", "bpm": 120}
                   for a in sub for b in sub for c in sub]
        ctx.bound("tracks_instrument_pairs", {"ordered pairs": ni * ni, "ordered triples of": [INSTRUMENTS[i] for i in sub]})
        ctx.serial("tracks", pairs + triples)
        # tracks without a single bar among the others (and alone): they take no time, but each is announced on its channel
        empties = [[[]], [[], []], [[], [0]], [[0], []], [[3, 1], []], [[], [0], [3]], [[0], [], [6]], [[0], [1], []], [[], [], [7]]]
        ctx.serial("tracks", [_tracks_case(c, n) for c in empties for n in range(8)])
    if ctx.want("replay"):
        ctx.bound("replay", {"bars": len(REPLAY_BARS), "edits": REPLAY_EDITS, "calls": REPLAY_VIAS})
        ctx.product("replay", list(range(len(REPLAY_BARS))), lambda bi: ([bi, via, e] for via in REPLAY_VIAS for e in REPLAY_EDITS))
    # -- observers, control changes -------------------------------------------------------
    if ctx.want("observers"):
        ctx.bound("observers", {"observers": [2, 3], "depth": ctx.pick(4, 6), "actions": ObserverSpec(3).actions(),
                                "state": "listener tuple (fix-point reached below the depth bound)"})
        for nobs in (2, 3):
            ctx.bfs("observers", ObserverSpec(nobs), ctx.pick(4, 6), label="observers (%d)" % nobs)
    if ctx.want("cc"):
        ctx.bound("cc", {"control": [CC_LO, CC_HI], "value": [CC_LO, CC_HI], "channels": [0, 1, 15]})
        ctx.product("cc", list(range(CC_LO, CC_HI + 1)), gen_cc)
    # -- vacuity --------------------------------------------------------------------------
    if not ctx.only:
        ctx.guard("bars played", ctx.counter("bars_played"), 1000)
        ctx.guard("bars with rests", ctx.counter("bars_with_rests"), 100)
        ctx.guard("bars with a tempo change", ctx.counter("bars_with_tempo_change"), 100)
        ctx.guard("partial bars played", ctx.counter("partial_bars_played"), 100)
        ctx.guard("tracks played", ctx.counter("tracks_played"), 1000)
        ctx.guard("unequal-rhythm parallel programs", ctx.counter("unequal_rhythm_programs"), 1000)
        ctx.guard("equal-rhythm parallel programs", ctx.counter("equal_rhythm_programs"), 100)
        ctx.guard("parallel programs with a partial bar", ctx.counter("parallel_with_partial_bar"), 1000)
        ctx.guard("parallel programs whose float ticks do not sum to the bar", ctx.counter("parallel_inexact_float_ticks"), 10)
        ctx.guard("parallel programs with a tempo change", ctx.counter("parallel_with_tempo_change"), 1000)
        ctx.guard("parallel programs of three or more voices", ctx.counter("parallel_three_or_more_voices"), 1000)
        ctx.guard("track sets played", ctx.counter("track_sets_played"), 1000)
        ctx.guard("track sets with unequal bar counts", ctx.counter("track_sets_with_unequal_bar_counts"), 100)
        ctx.guard("control changes accepted", ctx.counter("cc_accepted"), 10000)
        ctx.guard("control changes refused", ctx.counter("cc_refused"), 1000)
        ctx.guard("observer probes with an observer attached", ctx.counter("probes_with_an_observer_attached"), 10)
        ctx.guard("observer probes with an observer not attached", ctx.counter("probes_with_an_observer_not_attached"), 10)
        ctx.guard("second attach of an attached observer", ctx.counter("attached_twice"), 2)
        ctx.guard("detach of an attached observer", ctx.counter("detached"), 2)
    for name in ("bar_refused_a_placement", "ambiguous_program_skipped"):
        if ctx.counter(name):
            ctx.note("%d generated cases were not judged: %s" % (ctx.counter(name), name))
    if not ctx.only:
        ctx.guard("cases not judged stay below 1% of the parallel programs",
                  ctx.counter("parallel_programs_played") - 100 * (ctx.counter("bar_refused_a_placement") + ctx.counter("ambiguous_program_skipped")), 0)


# ---------------------------------------------------------------------------------------
# fallback known-finding predicates.  Two fixes are proposed (fixes_proposed/c18_*.diff); these predicates exist
# only so that a defect can be recorded instead, should a fix not be taken.  They look at nothing but the tags the
# runner computed from the *program* (never at what was observed), and never match observer-delivery problems.
# ---------------------------------------------------------------------------------------
_SCHEDULER_REASONS = {"different onsets", "bar not full", "empty bar", "float ticks do not sum to the bar length"}


def _f18(rec):
    if rec.get("clause") not in ("bars", "bars_tempo", "tracks") or "events received" in rec.get("site", ""):
        return set()
    return set((rec.get("tags") or {}).get("f18") or [])


def _known_play_bars_scheduler(rec):
    return bool(_f18(rec) & _SCHEDULER_REASONS)


def _known_play_tracks_unequal_bar_counts(rec):
    return "tracks with different numbers of bars" in _f18(rec)


KNOWN = {"play_bars_scheduler": _known_play_bars_scheduler,
         "play_tracks_unequal_bar_counts": _known_play_tracks_unequal_bar_counts}
