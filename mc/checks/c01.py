# -*- coding: utf-8 -*-
"""C01 -- note names and pitch classes agree for every spelling (DESIGN.md section 4, C01).

Exhaustive product over the name grammar  letter x {#, b}^(<= k)  (every order of accidentals),
every name driven through the real mingus.core.notes functions and compared with the arithmetic
reference mc.ref.pitch; all ordered name pairs for is_enharmonic; an integer x style grid for
int_to_note; every short string over a malformed-input alphabet for the rejecting clauses.
"""
import itertools

from mc import engine
from mc.ref import pitch as P

from mingus.core import notes
from mingus.core.mt_exceptions import NoteFormatError, RangeError, FormatError

PROPERTY = "C01"
RULE = ("product over the grammar letter x {#,b}^(<=k) (all 2^k orders), one case per name / ordered name pair / "
        "(integer, style) / malformed string; distinct_nontrivial counts distinct observed outcome keys, e.g. "
        "(letter, net accidentals, note_to_int, reduce_accidentals result) per name")
ASSUMPTIONS = [
    "the empty string is outside the statement ('every other non-empty string') and is not enumerated",
    "only str arguments are given to the name functions and only int (not bool/float) to int_to_note",
    "reduce_accidentals with net accidentals 0 (e.g. 'C#b'): the statement fixes the accidental only for a net raise "
    "or lowering, so any name with the same pitch class and at most one accidental is accepted there",
    "int_to_note without a style argument: only validity and the round trip are required (the statement describes the "
    "sharp and the flat style, not which one is the default)",
    "an out-of-range integer combined with an unknown style may be refused with either RangeError or FormatError",
    "augment/diminish results must themselves be names of the grammar (otherwise 'its pitch class' is undefined)",
    "malformed input is decided on every string up to a length bound over an alphabet holding one representative of "
    "each way of being malformed (wrong letter, lower-case letter, accidental first, foreign symbol, digit, blank, "
    "dash, non-ASCII sharp, newline)",
]

MAL_ALPHABET_QUICK = "CBHcb#x 1-\n|"
MAL_ALPHABET_THOROUGH = "CBHcb#x 1-♯\n\t|^]"
DEFAULT = "<default>"
STYLES_OK = ["#", "b", DEFAULT]
STYLES_BAD = ["x", "", None, "##", "bb", "B", "♯", "sharp", "flat", " #", "#b", 1, 0]


# ------------------------------------------------------------------------------------------
def run_name(name):
    """All single-name clauses on one name of the grammar."""
    S = engine.S
    if not P.is_name(name):
        raise engine.HarnessError("case %r is not a name of the grammar" % (name,))
    L, n, p = name[0], P.net(name), P.pc(name)

    v = notes.is_valid_note(name)
    if v is not True:
        S.problem("is_valid_note(%r)" % name, True, v)

    got = notes.note_to_int(name)
    if isinstance(got, bool) or got != p:
        S.problem("note_to_int(%r)" % name, p, got)

    for fn, d in ((notes.augment, 1), (notes.diminish, -1)):
        r = fn(name)
        site = "%s(%r)" % (fn.__name__, name)
        if not P.is_name(r):
            S.problem(site, "a name: letter + accidentals", r)
        else:
            if r[0] != L:
                S.problem(site + " letter", L, r)
            if P.pc(r) != (p + d) % 12:
                S.problem(site + " pitch class", (p + d) % 12, {"result": r, "pc": P.pc(r)})

    rra = notes.remove_redundant_accidentals(name)
    if rra != P.spell(L, n):
        S.problem("remove_redundant_accidentals(%r)" % name, P.spell(L, n), rra)

    red = notes.reduce_accidentals(name)
    site = "reduce_accidentals(%r)" % name
    if not P.is_name(red):
        S.problem(site, "a name", red)
    else:
        if P.pc(red) != p:
            S.problem(site + " pitch class", p, {"result": red, "pc": P.pc(red)})
        if len(red) > 2:
            S.problem(site + " accidental count", "at most one accidental", red)
        if n > 0 and "b" in red[1:]:
            S.problem(site + " accidental kind", "no flat for a net raise of %d" % n, red)
        if n < 0 and "#" in red[1:]:
            S.problem(site + " accidental kind", "no sharp for a net lowering of %d" % -n, red)
        if n == 0:
            S.count("reduce_net_zero")
    # second pass, reverse order: every answer must be the same whatever was asked before on this
    # name (a memo filled by one function and read by another would show up here)
    again = (notes.reduce_accidentals(name), notes.remove_redundant_accidentals(name), notes.diminish(name),
             notes.augment(name), notes.note_to_int(name), notes.is_valid_note(name))
    first = (red, rra, r, None, got, v)
    for label, a, b in (("reduce_accidentals", again[0], first[0]), ("remove_redundant_accidentals", again[1], first[1]),
                        ("diminish", again[2], first[2]), ("note_to_int", again[4], first[4]), ("is_valid_note", again[5], first[5])):
        if a != b or type(a) is not type(b):
            S.problem("%s(%r) asked again after the other five functions" % (label, name), b, a)
    e = notes.is_enharmonic(name, name)
    if e is not True:
        S.problem("is_enharmonic(%r, %r) after the single-name functions" % (name, name), True, e)
    S.trans(13)
    S.count("names")
    if not P.homogeneous(name):
        S.count("names_mixing_sharps_and_flats")
    S.outcome((L, n, got, red))
    if len(name) >= 4 and not P.homogeneous(name):
        S.sample(name)


def run_malformed(s):
    """A non-empty string that is not a name: predicate false, conversions raise NoteFormatError."""
    S = engine.S
    if not isinstance(s, str) or s == "" or P.is_name(s):
        raise engine.HarnessError("case %r is not a malformed non-empty string" % (s,))
    v = notes.is_valid_note(s)
    if v:
        S.problem("is_valid_note(%r)" % s, False, v)
    for fn in (notes.note_to_int, notes.reduce_accidentals):
        site = "%s(%r)" % (fn.__name__, s)
        try:
            r = fn(s)
        except NoteFormatError:
            S.count("malformed_rejected")
        except Exception as e:                      # noqa -- any other error type is not the documented one
            S.problem(site, "NoteFormatError", e)
        else:
            S.problem(site, "NoteFormatError", {"returned": r})
    # the other functions of the module are handed the same string (what they do with it is not stated and not
    # judged); afterwards the string must still not be a note
    for fn in (notes.remove_redundant_accidentals, notes.augment, notes.diminish, lambda x: notes.is_enharmonic(x, "C"),
               lambda x: notes.is_enharmonic("C", x)):
        try:
            fn(s)
        except Exception:                           # noqa
            pass
    v2 = notes.is_valid_note(s)
    if v2:
        S.problem("is_valid_note(%r) after the string was handed to the other functions of the module" % s, False, v2)
    for fn in (notes.note_to_int, notes.reduce_accidentals):
        try:
            r = fn(s)
        except NoteFormatError:
            pass
        except Exception as e:                      # noqa
            S.problem("%s(%r) after the string was handed to the other functions of the module" % (fn.__name__, s), "NoteFormatError", e)
        else:
            S.problem("%s(%r) after the string was handed to the other functions of the module" % (fn.__name__, s),
                      "NoteFormatError", {"returned": r})
    # and valid names are still answered as ever right after the refusals
    for nm in ("Eb", "C##", "Fb", "B#b"):
        want_pc = P.pc(nm)
        got = {}
        for fname in ("note_to_int", "reduce_accidentals", "remove_redundant_accidentals"):
            try:
                got[fname] = getattr(notes, fname)(nm)
            except Exception as e:                  # noqa
                got[fname] = e
        ok = (got["note_to_int"] == want_pc and P.is_name(got["reduce_accidentals"]) and P.pc(got["reduce_accidentals"]) == want_pc
              and got["remove_redundant_accidentals"] == P.canonical(nm))
        if not ok:
            S.problem("note_to_int / reduce_accidentals / remove_redundant_accidentals of %r right after the refused string %r" % (nm, s),
                      {"pitch class": want_pc, "remove_redundant_accidentals": P.canonical(nm)},
                      dict((k, v if isinstance(v, (int, str)) else repr(v)) for k, v in got.items()))
            break
    S.trans(23)
    S.count("malformed")
    S.outcome((s[0] in P.NAT, bool(v)))
    if len(s) == 3:
        S.sample(s)


def run_enharmonic(case):
    S = engine.S
    a, b = case
    want = P.pc(a) == P.pc(b)
    got = notes.is_enharmonic(a, b)
    if bool(got) is not want:
        S.problem("is_enharmonic(%r, %r)" % (a, b), want, got, detail={"pc": [P.pc(a), P.pc(b)]})
    S.trans(1)
    S.count("enharmonic_true" if want else "enharmonic_false")
    S.outcome((P.pc(a), P.pc(b), bool(got)))


def run_int_to_note(case):
    S = engine.S
    i, style = case
    args = (i,) if style == DEFAULT else (i, style)
    in_range = 0 <= i <= 11
    style_ok = style in ("#", "b", DEFAULT)
    site = "int_to_note(%s)" % ", ".join(repr(a) for a in args)
    S.trans(1)
    try:
        r = notes.int_to_note(*args)
        err = None
    except (RangeError, FormatError) as e:
        r, err = None, e
    except Exception as e:                          # noqa
        S.problem(site, "a name, RangeError or FormatError", e)
        return
    S.outcome((in_range, style_ok, type(err).__name__ if err else r))
    if in_range and style_ok:
        if err is not None:
            S.problem(site, "a note name", err)
            return
        S.count("int_accepted")
        if not P.is_name(r):
            S.problem(site, "a name", r)
            return
        back = notes.note_to_int(r)
        S.trans(1)
        if back != i or P.pc(r) != i:
            S.problem(site + " round trip", i, {"name": r, "note_to_int": back, "pc": P.pc(r)})
        if style == "#" and r[1:] not in ("", "#"):
            S.problem(site + " spelling", "a natural or a single sharp", r)
        if style == "b" and r[1:] not in ("", "b"):
            S.problem(site + " spelling", "a natural or a single flat", r)
        return
    if err is None:
        S.problem(site, "RangeError" if not in_range else "FormatError", {"returned": r})
        return
    if not in_range and style_ok:
        S.count("int_range_refused")
        if not isinstance(err, RangeError):
            S.problem(site, "RangeError", err)
    elif in_range and not style_ok:
        S.count("int_style_refused")
        if not isinstance(err, FormatError):
            S.problem(site, "FormatError", err)
    else:
        S.count("int_both_refused")                 # either documented error type is accepted


LH_NAMES = ["C", "B#", "Cb", "F##", "Abb", "E#b", "G", "Db#b"]


def run_long_history(case):
    """case = number of accidentals k: in a freshly loaded notes module a list of questions is asked, then every name with up to
    k accidentals goes through note_to_int / is_valid_note, then the same questions again -- same answers, and the right ones."""
    import importlib
    S = engine.S
    importlib.reload(notes)

    def ask():
        out = []
        for nm in LH_NAMES:
            out.append((notes.note_to_int(nm), notes.is_valid_note(nm), notes.reduce_accidentals(nm), notes.remove_redundant_accidentals(nm),
                        notes.is_enharmonic(nm, "C"), notes.augment(nm), notes.diminish(nm)))
        return out

    first = ask()
    sweep = P.names(case)
    for nm in sweep:
        notes.note_to_int(nm)
        notes.is_valid_note(nm)
    S.trans(2 * len(sweep) + 14 * len(LH_NAMES))
    again = ask()
    for nm, a, b in zip(LH_NAMES, first, again):
        if a != b:
            S.problem("the single-name functions on %r asked again after %d other names were converted" % (nm, len(sweep)), list(a), list(b))
            break
        if a[0] != P.pc(nm) or a[1] is not True or a[3] != P.canonical(nm) or a[4] is not (P.pc(nm) == 0):
            S.problem("the single-name functions on %r at the start of a fresh process" % nm,
                      {"pc": P.pc(nm), "canonical": P.canonical(nm)}, list(a))
            break
    S.count("long_histories")
    S.outcome(("long_history", case, len(sweep)))


CLAUSES = {
    "names": run_name,
    "malformed": run_malformed,
    "enharmonic": run_enharmonic,
    "int_to_note": run_int_to_note,
    "long_history": run_long_history,
}


# ------------------------------------------------------------------------------------------
_K = [0]
_MAL = ["", 0]
_PAIR_NAMES = [[]]


def _tails(n):
    for m in range(n + 1):
        for acc in itertools.product("#b", repeat=m):
            yield "".join(acc)


def gen_names(shard):
    """shard = [letter, prefix]: prefix None -> the names with < 2 accidentals; else a 2-character
    accidental prefix followed by every accidental string of length <= k-2."""
    L, prefix = shard
    k = _K[0]
    if prefix is None:
        for t in _tails(min(k, 1)):
            yield L + t
    else:
        for t in _tails(k - 2):
            yield L + prefix + t


def gen_malformed(first):
    alphabet, maxlen = _MAL
    for n in range(0, maxlen):
        for rest in itertools.product(alphabet, repeat=n):
            s = first + "".join(rest)
            if not P.is_name(s):
                yield s


def gen_pairs(a):
    for b in _PAIR_NAMES[0]:
        yield [a, b]


def explore(ctx):
    ctx.use_thorough_bounds('thorough bounds take about ten seconds')
    k = ctx.pick(12, 16)
    kp = ctx.pick(4, 6)
    _K[0] = k
    ctx.bound("names_max_accidentals", k)
    ctx.bound("names", 7 * (2 ** (k + 1) - 1))
    ctx.bound("enharmonic_pairs_max_accidentals", kp)
    if ctx.want("names"):
        shards = [[L, pre] for L in P.LETTERS for pre in (None, "##", "#b", "b#", "bb")]
        ctx.product("names", shards, gen_names)
    if ctx.want("names"):
        # very long names ("for any length"): runs and alternations of hundreds and thousands of accidentals
        longs = []
        for L in "CFB":
            for n in (40, 200, 999, 1500, 4000):
                longs += [L + "#" * n, L + "b" * n, L + "#b" * (n // 2), L + "b" * n + "#" * (n - 1)]
        ctx.bound("very_long_names", "%d names of 40..7999 accidentals" % len(longs))
        ctx.serial("names", longs)
    if ctx.want("long_history"):
        ctx.product("long_history", [4, 6, 8], lambda k: [k])
    if ctx.want("enharmonic"):
        _PAIR_NAMES[0] = P.names(kp)
        ctx.bound("enharmonic_pairs", len(_PAIR_NAMES[0]) ** 2)
        ctx.product("enharmonic", list(_PAIR_NAMES[0]), gen_pairs)
        # pure runs of sharps or flats up to 14 accidentals: pairs whose unfolded semitone counts lie several octaves apart
        runs = [L + acc * n for L in P.LETTERS for acc in "#b" for n in range(0, 15)]
        runs = sorted(set(runs))
        ctx.bound("enharmonic_long_runs", "%d names (7 letters x up to 14 sharps or 14 flats), all ordered pairs" % len(runs))
        ctx.product("enharmonic", runs, lambda a: ([a, b] for b in runs))
    if ctx.want("int_to_note"):
        ints = list(range(-30, 31)) + [-2 ** 63, -2 ** 31, -123, 100, 123123, 2 ** 31, 2 ** 63, 10 ** 20]
        ctx.bound("int_to_note_integers", "-30..30 and %r" % (ints[61:],))
        ctx.bound("int_to_note_styles", STYLES_OK + STYLES_BAD)
        ctx.serial("int_to_note", [[i, s] for i in ints for s in STYLES_OK + STYLES_BAD])
    if ctx.want("malformed"):
        alphabet = ctx.pick(MAL_ALPHABET_QUICK, MAL_ALPHABET_THOROUGH)
        maxlen = ctx.pick(5, 6)
        _MAL[0], _MAL[1] = alphabet, maxlen
        ctx.bound("malformed_alphabet", alphabet)
        ctx.bound("malformed_max_length", maxlen)
        ctx.product("malformed", list(alphabet), gen_malformed)
        # one foreign character at a time, every code point up to U+024F and a few beyond, in six positions of a name
        foreign = [chr(i) for i in range(0, 0x250)] + ["\u266d", "\u266f", "\u2028", "\uff23", "\U0001d12a", "%s", "%d", "{0}", "\\"]
        texts = []
        for c in foreign:
            for t in (c, "C" + c, "C#" + c, c + "#", "C" + c + "#", c + "b", "Gb" + c + "b"):
                if P.is_name(t) or not t:
                    continue
                texts.append(t)
        ctx.bound("malformed_foreign_characters", {"characters": len(foreign), "texts": len(texts)})
        ctx.serial("malformed", texts)
    if not ctx.only:
        ctx.guard("names checked", ctx.counter("names"), 7 * (2 ** (k + 1) - 1))
        ctx.guard("names mixing sharps and flats", ctx.counter("names_mixing_sharps_and_flats"), 1000)
        ctx.guard("reduce_accidentals on net-zero names", ctx.counter("reduce_net_zero"), 100)
        ctx.guard("malformed strings", ctx.counter("malformed"), 5000)
        ctx.guard("malformed conversions rejected", ctx.counter("malformed_rejected"), 10000)
        ctx.guard("enharmonic pairs", ctx.counter("enharmonic_true"), 500)
        ctx.guard("non-enharmonic pairs", ctx.counter("enharmonic_false"), 5000)
        ctx.guard("int_to_note accepted", ctx.counter("int_accepted"), 36)
        ctx.guard("int_to_note out of range refused", ctx.counter("int_range_refused"), 100)
        ctx.guard("int_to_note unknown style refused", ctx.counter("int_style_refused"), 100)
