# -*- coding: utf-8 -*-
"""C08 -- diatonic harmony: functions, numerals and substitutions denote the right chords
(DESIGN.md section 4, C08).

Clauses
  diatonic    30 keys: triads()/sevenths()/triad()/seventh(), the 14 function names, the numeral alias
              functions and numeral strings in either case (string and list form) against the stacks of
              thirds inside the key's notes computed by mc/ref/harmony.py.
  prefix      30 keys x 7 degrees x {triad, seventh} x {upper, lower} x accidental prefix: every chord
              note moved by one semitone per accidental on its own letter.
  suffix      30 keys x 7 degrees x 51 chord suffixes x prefix x case: the chord type built on the
              degree's root (reference formula table), cross-checked with chords.from_shorthand.
  unknown     every I/V-letter string of length 0..4 that is not I..VII (both cases, with prefixes and
              suffixes) and a few other non-numerals: to_chords returns [].
  function    15 major keys: progressions.determine on every diatonic triad/seventh (long and short
              answers, single-chord and list form) contains the function name / numeral; numeral -> chord
              -> numeral and chord -> numeral -> chord are identities.
  roundtrip   prefix x numeral x suffix strings: tuple_to_string(parse_string(s)) == s.
  rules       the five substitute_* functions on every numeral x suffix x prefix x ignore_suffix x position:
              results well-formed, denote a chord in every major key, satisfy the rule's promise, argument
              list unchanged.
  substitute  substitute(progression, index, depth 0..2): results well-formed and denoting, equal to the
              documented recursive unrolling, argument list unchanged.
"""
import itertools

from mc import engine
from mc.ref import pitch as P
from mc.ref import harmony as H

from mingus.core import chords as mchords
from mingus.core import progressions as mprog

PROPERTY = "C08"
RULE = ("exhaustive products over (key x degree x chord size x spelling of the numeral x prefix x suffix) and over "
        "(substitution function x numeral x suffix x prefix x ignore_suffix x position x depth); every case is "
        "evaluated on the real library and compared with the reference harmony model; distinct_nontrivial = "
        "distinct observed outcome keys per clause (denoted chords, returned answer lists, substitution result lists)")
ASSUMPTIONS = [
    "note names are compared by what they denote (letter, net accidental), not by the order in which accidentals are written",
    "'shifts every chord note by one semitone' is read as: the same letter with the net accidental changed by one per prefix sign (homogeneous prefixes -3..+3 as in the quantifier; -6..+6 in the thorough tier)",
    "'a chord suffix rebuilds that chord type' uses the chord types as the chords module documents them (reference table in mc/ref/harmony.py); the four suffixes 7sus4/add9/add11/add13, whose constructibility is the subject of C06, are skipped when the library cannot construct them (KeyError) and checked when it can",
    "'an unrecognised numeral' = a string whose run of I/V letters after the accidentals is not one of I..VII (so 'IX' = numeral I with an unknown suffix is not enumerated); the documented empty answer is [] for a single string / one-element list",
    "'returns its function name or numeral' is read as: the returned list contains it; numerals are compared case-insensitively (ii == II); for sevenths the long answer '<function> seventh' or '<function>7' is accepted",
    "parse/format round trip is stated on upper-case numerals with homogeneous prefixes (parse_string upper-cases the numeral); lower-case strings only need to denote the same chords after the round trip",
    "a substitution rule may return no substitute for an input ([]): only what is returned is judged; vacuity guards make sure each rule returned many non-empty answers",
    "'share two notes with the original triad': the substitute chord as denoted by to_chords has >= 2 pitch classes in common with the diatonic triad on the (prefixed) original numeral; with ignore_suffix the original's suffix is ignored, as the flag says",
    "'roots lie a minor third / major sixth above': root pitch class +3 / +9 and root letter +2 / +5 relative to the original's root, in every major key (the rules are stated for major keys only)",
    "'diminished substitutes cycle by minor thirds': every returned root lies j stacked minor thirds (3j semitones, 2j letters, j = 1..4) above the original root; the order of the returned list is not constrained",
    "substitute_diminished_for_dominant has no documentation and no promise in the statement: only well-formedness, denotation and the untouched argument are checked",
    "substitute(): 'the substitutions of each result will be recursively added' is checked as equality of the *sets* of results with the unrolling res0 + U substitute(p[i:=x], i, depth-1)",
    "the caller's progression is unchanged = the list compares equal to a copy taken before the call",
    "substitution inputs are valid numerals I..VII in either case; progressions of length 1..3 with the subject at every index",
]

MAJOR_KEYS = P.KEYS30[:15]
UPPER_ALIASES = ["I", "II", "III", "IV", "V", "VI", "VII"]
REQUIRED_LOWER = ["ii", "iii", "vi", "vii"]
OPTIONAL_LOWER = ["i", "iv", "v"]


def pre(k):
    return "#" * k if k > 0 else "b" * (-k)


def call(site, fn, *args):
    """(True, value) or (False, None) after reporting the exception as a violation at `site`."""
    try:
        return True, fn(*args)
    except engine.StepBudgetExceeded:
        raise
    except Exception as e:                                       # noqa -- no error is documented for these inputs
        engine.S.problem(site, "no exception", "%s: %s" % (type(e).__name__, e), tags={"how": "exception"})
        return False, None


def expect_chords(site, got, want, tags=None):
    """got must be a list of chords equal (by denotation) to want."""
    ok = isinstance(got, list) and len(got) == len(want) and all(H.same_notes(g, w) for g, w in zip(got, want))
    if not ok:
        engine.S.problem(site, want, got, tags=tags)
    return ok


# ---------------------------------------------------------------------------------------
# diatonic
# ---------------------------------------------------------------------------------------
def run_diatonic(case):
    S = engine.S
    S.sample(case)
    key = case[0]
    notes = H.key_notes(key)
    T, V7 = H.triads(key), H.sevenths(key)
    n = 0
    for rnd in ("first call", "second call"):
        ok, got = call("chords.triads(%r)" % key, mchords.triads, key)
        if ok:
            expect_chords("chords.triads(%r) [%s]" % (key, rnd), got, T)
        ok, got = call("chords.sevenths(%r)" % key, mchords.sevenths, key)
        if ok:
            expect_chords("chords.sevenths(%r) [%s]" % (key, rnd), got, V7)
        n += 2
    for i, note in enumerate(notes):
        ok, got = call("chords.triad(%r, %r)" % (note, key), mchords.triad, note, key)
        if ok:
            expect_chords("chords.triad(%r, %r)" % (note, key), [got], [T[i]])
        ok, got = call("chords.seventh(%r, %r)" % (note, key), mchords.seventh, note, key)
        if ok:
            expect_chords("chords.seventh(%r, %r)" % (note, key), [got], [V7[i]])
        n += 2
    # function names and numeral alias functions
    names = []
    for i in range(7):
        names.append((H.FUNCTIONS[i], T[i], True))
        names.append((H.FUNCTIONS[i] + "7", V7[i], True))
        names.append((UPPER_ALIASES[i], T[i], True))
        names.append((UPPER_ALIASES[i] + "7", V7[i], True))
        low = UPPER_ALIASES[i].lower()
        required = low in REQUIRED_LOWER
        names.append((low, T[i], required))
        names.append((low + "7", V7[i], required))
    for name, want, required in names:
        fn = getattr(mchords, name, None)
        if fn is None:
            if required:
                S.problem("chords.%s" % name, "a function", "missing")
            else:
                S.count("optional_alias_absent")
            continue
        ok, got = call("chords.%s(%r)" % (name, key), fn, key)
        n += 1
        if ok:
            expect_chords("chords.%s(%r)" % (name, key), [got], [want], tags={"alias": name})
            S.outcome((key, name, tuple(got) if isinstance(got, list) else repr(got)))
        S.count("alias_calls")
    # numeral strings in either case, string form, one-element list, and all at once
    for seventh in (False, True):
        rows = V7 if seventh else T
        for lower in (False, True):
            strings = [H.fmt(i, 0, "7" if seventh else "", lower) for i in range(7)]
            for i, s in enumerate(strings):
                ok, got = call("progressions.to_chords(%r, %r)" % (s, key), mprog.to_chords, s, key)
                if ok:
                    expect_chords("progressions.to_chords(%r, %r)" % (s, key), got, [rows[i]])
                ok, got = call("progressions.to_chords([%r], %r)" % (s, key), mprog.to_chords, [s], key)
                if ok:
                    expect_chords("progressions.to_chords([%r], %r)" % (s, key), got, [rows[i]])
                n += 2
            ok, got = call("progressions.to_chords(%r, %r)" % (strings, key), mprog.to_chords, list(strings), key)
            n += 1
            if ok:
                expect_chords("progressions.to_chords(%r, %r)" % (strings, key), got, rows)
    if key == "C":
        # the key argument defaults to C
        ok, got = call("progressions.to_chords(['I', 'V7'])", mprog.to_chords, ["I", "V7"])
        n += 1
        if ok:
            expect_chords("progressions.to_chords(['I', 'V7'])", got, [T[0], V7[4]])
    S.trans(n)
    S.count("diatonic_keys")


# ---------------------------------------------------------------------------------------
# prefix
# ---------------------------------------------------------------------------------------
_PREFIX = {"kmax": 3}


def run_prefix(case):
    """case = [key, degree, seventh, lower, k]"""
    S = engine.S
    S.sample(case)
    key, deg, seventh, lower, k = case
    base = (H.sevenths(key) if seventh else H.triads(key))[deg]
    want = [H.shift(x, k) for x in base]
    s = H.fmt(deg, k, "7" if seventh else "", lower)
    ok, got = call("progressions.to_chords(%r, %r)" % (s, key), mprog.to_chords, s, key)
    S.trans(1)
    if not ok:
        return
    expect_chords("progressions.to_chords(%r, %r)" % (s, key), got, [want], tags={"k": k})
    S.outcome((key, s, repr(got)))
    S.count("prefixed_chords" if k else "unprefixed_chords")
    # the same numeral several times in one progression, each time under another prefix (and in the other case)
    others = [j for j in (-k, 0, k + 1, k - 1) if j != k and abs(j) <= 3]
    prog = [s] + [H.fmt(deg, j, "7" if seventh else "", not lower if i % 2 else lower) for i, j in enumerate(others)]
    wants = [want] + [[H.shift(x, j) for x in base] for j in others]
    ok, got = call("progressions.to_chords(%r, %r)" % (prog, key), mprog.to_chords, prog, key)
    S.trans(1)
    if ok:
        expect_chords("progressions.to_chords(%r, %r)" % (prog, key), got, wants, tags={"k": k, "how": "repeated numeral"})
        S.count("progressions_repeating_a_numeral")
        # the caller edits its own list object in place (entries swapped, one made unrecognisable) and asks again
        if len(prog) >= 2:
            prog[0], prog[-1] = prog[-1], prog[0]
            wants2 = [wants[-1]] + wants[1:-1] + [wants[0]]
            ok, got = call("progressions.to_chords(<the same list object, first and last entry swapped> %r, %r)" % (prog, key), mprog.to_chords, prog, key)
            S.trans(1)
            if ok:
                expect_chords("progressions.to_chords(the same list object after its first and last entry were swapped: %r, %r)" % (prog, key),
                              got, wants2, tags={"k": k, "how": "list edited in place"})
            prog[0] = "VIII"
            ok, got = call("progressions.to_chords(<the same list object, first entry unrecognisable> %r, %r)" % (prog, key), mprog.to_chords, prog, key)
            S.trans(1)
            if ok and got != []:
                S.problem("progressions.to_chords(the same list object after its first entry became 'VIII': %r, %r)" % (prog, key), [], got,
                          tags={"k": k, "how": "list edited in place"})


def gen_prefix(key):
    kmax = _PREFIX["kmax"]
    for deg in range(7):
        for seventh in (0, 1):
            for lower in (0, 1):
                for k in range(-kmax, kmax + 1):
                    yield [key, deg, seventh, lower, k]


# ---------------------------------------------------------------------------------------
# suffix
# ---------------------------------------------------------------------------------------
_SUFFIX = {"ks": [-1, 0, 1]}


def run_suffix(case):
    """case = [key, degree, suffix, k, lower]"""
    S = engine.S
    S.sample(case)
    key, deg, suffix, k, lower = case
    root = H.key_notes(key)[deg]
    if suffix == "":
        base = H.triads(key)[deg]
    elif suffix == "7":
        base = H.sevenths(key)[deg]            # the classic reading documented by to_chords
    else:
        base = H.build(root, suffix)
    want = [H.shift(x, k) for x in base]
    s = H.fmt(deg, k, suffix, lower)
    S.trans(1)
    try:
        got = mprog.to_chords(s, key)
    except KeyError as e:
        if suffix in H.C06_SUBJECT and e.args and e.args[0] == suffix:
            S.count("suffix_not_constructible_skipped(C06)")
            return
        S.problem("progressions.to_chords(%r, %r)" % (s, key), [want], "KeyError: %s" % e, tags={"suffix": suffix})
        return
    except Exception as e:                                       # noqa
        S.problem("progressions.to_chords(%r, %r)" % (s, key), [want], "%s: %s" % (type(e).__name__, e), tags={"suffix": suffix})
        return
    expect_chords("progressions.to_chords(%r, %r)" % (s, key), got, [want], tags={"suffix": suffix, "k": k})
    S.outcome((suffix, key, deg, k, repr(got)))
    S.count("suffixed_chords")
    if isinstance(got, list) and len(got) == 1:
        # inside a longer progression the numeral means the same, and so do its neighbours -- before and after it
        plain = H.fmt((deg + 3) % 7, 0, "", lower)
        plain7 = H.fmt((deg + 4) % 7, 0, "7", lower)
        prog = [plain, s, plain, plain7, s]
        parts = []
        for t in prog:
            okp, one = call("progressions.to_chords(%r, %r)" % (t, key), mprog.to_chords, t, key)
            parts.append(one[0] if okp and isinstance(one, list) and len(one) == 1 else None)
        if None not in parts:
            okl, whole = call("progressions.to_chords(%r, %r)" % (prog, key), mprog.to_chords, list(prog), key)
            S.trans(len(prog) + 1)
            if okl and whole != parts:
                S.problem("progressions.to_chords(%r, %r)" % (prog, key), parts, whole, tags={"suffix": suffix, "how": "numeral inside a progression"})
            S.count("suffixed_chords_inside_progressions")
    if suffix not in ("", "7") and k == 0 and not lower:
        # the same chord type through the chords module: "rebuilds that chord type on the degree's root"
        ok, direct = call("chords.from_shorthand(%r)" % (root + suffix), mchords.from_shorthand, root + suffix)
        S.trans(1)
        if ok and isinstance(got, list) and len(got) == 1 and got[0] != direct:
            S.problem("progressions.to_chords(%r, %r)[0] vs chords.from_shorthand(%r)" % (s, key, root + suffix), direct, got[0],
                      tags={"suffix": suffix})


def gen_suffix(key):
    for deg in range(7):
        for suffix in H.SUFFIXES:
            for k in _SUFFIX["ks"]:
                for lower in (0, 1):
                    yield [key, deg, suffix, k, lower]


# ---------------------------------------------------------------------------------------
# unknown numerals
# ---------------------------------------------------------------------------------------
def unknown_numerals():
    out = []
    for n in range(0, 5):
        for t in itertools.product("IV", repeat=n):
            s = "".join(t)
            if s not in H.NUMERALS:
                out.append(s)
    return out


def run_unknown(case):
    """case = [string, key, as_list]"""
    S = engine.S
    S.sample(case)
    s, key, as_list = case
    if H.parse(s)[1] is not None:
        raise engine.HarnessError("%r is a recognised numeral" % s)
    if as_list >= 2:
        # the unrecognised numeral inside a longer progression: either the whole answer is the documented
        # empty one, or (weaker reading) only that numeral's slot is empty and every other chord is there
        arg = {2: ["I", s], 3: ["I", s, "V7"], 4: [s, "IV"]}[as_list]
        ok, got = call("progressions.to_chords(%r, %r)" % (arg, key), mprog.to_chords, arg, key)
        S.trans(1)
        if not ok:
            return
        S.count("unknown_numerals_in_longer_progressions")
        per_slot = []
        for x in arg:
            if x == s:
                per_slot.append([])
            else:
                ok2, one = call("progressions.to_chords(%r, %r)" % (x, key), mprog.to_chords, x, key)
                if not ok2 or len(one) != 1:
                    return
                per_slot.append(one[0])
        S.outcome(("longer", as_list, got == []))
        if got != [] and got != per_slot:
            S.problem("progressions.to_chords(%r, %r)" % (arg, key), "[] (or an empty slot for the unrecognised numeral: %r)" % (per_slot,), got)
        return
    arg = [s] if as_list else s
    ok, got = call("progressions.to_chords(%r, %r)" % (arg, key), mprog.to_chords, arg, key)
    S.trans(1)
    if not ok:
        return
    S.outcome(repr(got))
    S.count("unknown_numerals")
    if got != []:
        S.problem("progressions.to_chords(%r, %r)" % (arg, key), [], got)


def gen_unknown(key):
    cores = unknown_numerals() + [c.lower() for c in unknown_numerals() if c]
    for core in cores:
        for p in ("", "b", "#", "bb"):
            for suf in ("", "7", "m7", "dim"):
                for as_list in (0, 1):
                    yield [p + core + suf, key, as_list]
    for other in ("X", "x", "N", "1", "C", "bX7", "?", " I", "-I"):
        for as_list in (0, 1, 2, 3, 4):
            yield [other, key, as_list]
    for core in ("VIII", "IIII", "viii"):
        for as_list in (2, 3, 4):
            yield [core, key, as_list]
            yield ["b" + core + "7", key, as_list]


# ---------------------------------------------------------------------------------------
# function (chord -> numeral and back), major keys
# ---------------------------------------------------------------------------------------
def _long_ok(answers, deg, seventh):
    if not isinstance(answers, list):
        return False
    f = H.FUNCTIONS[deg]
    accepted = [f + " seventh", f + "7"] if seventh else [f]
    return any(a in accepted for a in answers if isinstance(a, str))


def _short_hits(answers, deg, seventh):
    if not isinstance(answers, list):
        return []
    want = (0, deg, "7" if seventh else "")
    return [a for a in answers if isinstance(a, str) and H.parse(a) == want]


def run_function(case):
    """case = [key, 'single', degree, seventh] | [key, 'list', seventh] | [key, 'numeral', degree, seventh, lower]"""
    S = engine.S
    S.sample(case)
    key, form = case[0], case[1]
    if form == "single":
        deg, seventh = case[2], case[3]
        root_position = (H.sevenths(key) if seventh else H.triads(key))[deg]
        rot = case[4] if len(case) > 4 else 0                # the same chord in its rot-th inversion
        chord = list(root_position[rot:]) + list(root_position[:rot])
        if rot:
            S.count("function_of_inverted_chords")
        ok, long_ = call("progressions.determine(%r, %r)" % (chord, key), mprog.determine, list(chord), key)
        S.trans(1)
        if ok:
            S.outcome(("long", deg, seventh, repr(long_)))
            if not _long_ok(long_, deg, seventh):
                S.problem("progressions.determine(%r, %r)" % (chord, key),
                          "a list containing %r" % (H.FUNCTIONS[deg] + (" seventh" if seventh else "")), long_)
        ok, short = call("progressions.determine(%r, %r, True)" % (chord, key), mprog.determine, list(chord), key, True)
        S.trans(1)
        if not ok:
            return
        S.outcome(("short", deg, seventh, repr(short)))
        hits = _short_hits(short, deg, seventh)
        if not hits:
            S.problem("progressions.determine(%r, %r, True)" % (chord, key),
                      "a list containing %r (either case)" % H.fmt(deg, 0, "7" if seventh else ""), short)
            return
        S.count("function_hits")
        for h in hits:                                   # chord -> numeral -> chord
            ok, back = call("progressions.to_chords(%r, %r)" % (h, key), mprog.to_chords, h, key)
            S.trans(1)
            if ok:
                expect_chords("progressions.to_chords(%r, %r)  [numeral returned for %r]" % (h, key, chord), back, [root_position])
        # a pivot chord: the same notes are asked about in every other major key that holds them, each time straight
        # after the question in this key
        for key2 in MAJOR_KEYS:
            rows2 = H.sevenths(key2) if seventh else H.triads(key2)
            if key2 == key or list(root_position) not in [list(r) for r in rows2]:
                continue
            deg2 = [list(r) for r in rows2].index(list(root_position))
            call("progressions.determine(%r, %r, True)" % (chord, key), mprog.determine, list(chord), key, True)
            ok, short2 = call("progressions.determine(%r, %r, True)" % (chord, key2), mprog.determine, list(chord), key2, True)
            S.trans(2)
            if ok and not _short_hits(short2, deg2, seventh):
                S.problem("progressions.determine(%r, %r, True) asked straight after the same notes in %r" % (chord, key2, key),
                          "a list containing %r (either case)" % H.fmt(deg2, 0, "7" if seventh else ""), short2, tags={"how": "pivot chord"})
                return
            S.count("pivot_chords_checked")
    elif form == "list":
        seventh = case[2]
        rows = H.sevenths(key) if seventh else H.triads(key)
        for sh in (False, True):
            arg = [list(c) for c in rows]
            ok, got = call("progressions.determine(%r, %r, %r)" % (arg, key, sh), mprog.determine, arg, key, sh)
            S.trans(1)
            if not ok:
                continue
            S.outcome(("list", seventh, sh, repr(got)))
            good = isinstance(got, list) and len(got) == 7
            if good:
                for deg in range(7):
                    good = good and bool(_short_hits(got[deg], deg, seventh) if sh else _long_ok(got[deg], deg, seventh))
            if not good:
                S.problem("progressions.determine(<the 7 diatonic %s of %s>, %r, %r)" % ("sevenths" if seventh else "triads", key, key, sh),
                          "7 answer lists, the i-th containing the i-th function", got)
            S.count("function_list_forms")
    elif form == "numeral":                              # numeral -> chord -> numeral
        deg, seventh, lower = case[2], case[3], case[4]
        s = H.fmt(deg, 0, "7" if seventh else "", lower)
        ok, ch = call("progressions.to_chords(%r, %r)" % (s, key), mprog.to_chords, s, key)
        S.trans(1)
        if not ok:
            return
        if not (isinstance(ch, list) and len(ch) == 1 and isinstance(ch[0], list) and ch[0]):
            S.problem("progressions.to_chords(%r, %r)" % (s, key), "one chord", ch)
            return
        chord = list(ch[0])
        ok, short = call("progressions.determine(%r, %r, True)" % (chord, key), mprog.determine, chord, key, True)
        S.trans(1)
        if ok:
            S.outcome(("numeral", s, repr(short)))
            if not _short_hits(short, deg, seventh):
                S.problem("progressions.determine(to_chords(%r, %r)[0], %r, True)" % (s, key, key),
                          "a list containing %r (either case)" % s, short, detail={"chord": chord})
            S.count("numeral_roundtrips")
    else:
        raise engine.HarnessError("bad form %r" % (form,))


def gen_function(key):
    for deg in range(7):
        for seventh in (0, 1):
            yield [key, "single", deg, seventh]
            for rot in range(1, 4 if seventh else 3):
                yield [key, "single", deg, seventh, rot]
            for lower in (0, 1):
                yield [key, "numeral", deg, seventh, lower]
    for seventh in (0, 1):
        yield [key, "list", seventh]


# ---------------------------------------------------------------------------------------
# roundtrip
# ---------------------------------------------------------------------------------------
_ROUND = {"kmax": 3}


def run_roundtrip(case):
    """case = [degree, k, suffix]"""
    S = engine.S
    S.sample(case)
    deg, k, suffix = case
    s = H.fmt(deg, k, suffix)
    ok, t = call("progressions.parse_string(%r)" % s, mprog.parse_string, s)
    S.trans(1)
    if not ok:
        return
    ok, back = call("progressions.tuple_to_string(%r)" % (t,), mprog.tuple_to_string, t)
    S.trans(1)
    if not ok:
        return
    S.outcome((repr(t), back))
    S.count("roundtrips")
    if back != s:
        S.problem("progressions.tuple_to_string(progressions.parse_string(%r))" % s, s, back, detail={"parsed": repr(t)})
    # lower case: the round trip must at least denote the same chords
    low = H.fmt(deg, k, suffix, lower=True)
    ok, t2 = call("progressions.parse_string(%r)" % low, mprog.parse_string, low)
    if not ok:
        return
    ok, back2 = call("progressions.tuple_to_string(%r)" % (t2,), mprog.tuple_to_string, t2)
    S.trans(2)
    if not ok:
        return
    if not isinstance(back2, str) or H.parse(back2) != H.parse(low):
        S.problem("progressions.tuple_to_string(progressions.parse_string(%r))" % low, "a string denoting %r" % low, back2)


def gen_roundtrip(deg):
    for k in range(-_ROUND["kmax"], _ROUND["kmax"] + 1):
        for suffix in H.SUFFIXES:
            yield [deg, k, suffix]


# ---------------------------------------------------------------------------------------
# substitution rules
# ---------------------------------------------------------------------------------------
RULES = ["substitute_harmonic", "substitute_minor_for_major", "substitute_major_for_minor",
         "substitute_diminished_for_diminished", "substitute_diminished_for_dominant"]
FILLERS = ["I", "V7", "bIIm7"]
POSITIONS = [(1, 0), (2, 0), (2, 1), (3, 0), (3, 1), (3, 2)]
DIM_CYCLE = {(3, 2), (6, 4), (9, 6), (0, 1)}            # (semitones, letters) of j stacked minor thirds, j = 1..4


def make_progression(subject, length, index):
    fill = FILLERS[:length - 1]
    return fill[:index] + [subject] + fill[index:]


def well_formed(r):
    """A numeral string: accidentals, I..VII in either case, a chord suffix the chords module documents."""
    if not isinstance(r, str):
        return False
    acc, deg, suffix = H.parse(r)
    return deg is not None and suffix in H.FORMULAS


def denoted_in(r, key, site):
    """The chord the real to_chords gives for numeral string r in key; None (after reporting) when it does
    not denote exactly one chord; 'skip' for the four suffixes that are C06's subject."""
    S = engine.S
    S.trans(1)
    try:
        got = mprog.to_chords(r, key)
    except KeyError as e:
        if H.parse(r)[2] in H.C06_SUBJECT and e.args and e.args[0] == H.parse(r)[2]:
            S.count("result_suffix_not_constructible_skipped(C06)")
            return "skip"
        S.problem(site, "a numeral that to_chords(.., %r) can realise" % key, "to_chords(%r, %r) raised KeyError: %s" % (r, key, e))
        return None
    except Exception as e:                                       # noqa
        S.problem(site, "a numeral that to_chords(.., %r) can realise" % key,
                  "to_chords(%r, %r) raised %s: %s" % (r, key, type(e).__name__, e))
        return None
    if not (isinstance(got, list) and len(got) == 1 and isinstance(got[0], list) and len(got[0]) >= 2
            and all(P.is_name(x) for x in got[0])):
        S.problem(site, "a numeral denoting one chord in %r" % key, {"result": r, "to_chords": got})
        return None
    want = H.denote(r, key)
    if want is not None and not H.same_notes(got[0], want):
        S.problem(site, "result %r denotes %r in %r" % (r, want, key), got[0])
        return None
    return got[0]


def check_results_shape(site, res):
    S = engine.S
    if not isinstance(res, list):
        S.problem(site, "a list of numeral strings", res)
        return False
    bad = [r for r in res if not well_formed(r)]
    if bad:
        S.problem(site, "only well-formed numerals (prefix, I..VII, known chord suffix)", res, detail={"ill-formed": bad})
        return False
    return True


_RULES = {"other_position_keys": MAJOR_KEYS}


def run_rules(case):
    """case = [rule, degree, k, suffix, lower, ignore_suffix, length, index]"""
    S = engine.S
    S.sample(case)
    rule, deg, k, suffix, lower, ignore, length, index = case
    subject = H.fmt(deg, k, suffix, lower)
    prog = make_progression(subject, length, index)
    before = list(prog)
    fn = getattr(mprog, rule)
    args = (prog, index, True) if ignore else (prog, index)
    site = "progressions.%s(%r, %d%s)" % (rule, before, index, ", True" if ignore else "")
    ok, res = call(site, fn, *args)
    S.trans(1)
    if prog != before:
        S.problem(site + " argument afterwards", before, prog, tags={"how": "argument modified"})
    if not ok:
        return
    S.outcome((rule, subject, ignore, repr(res)))
    # the same question again after the general substitute() (and the other four rules) worked on the same
    # progression: a rule's answer is a function of its arguments, not of what was asked before
    for other in ("substitute", "substitute_harmonic", "substitute_minor_for_major", "substitute_major_for_minor",
                  "substitute_diminished_for_diminished", "substitute_diminished_for_dominant"):
        if other != rule:
            try:
                getattr(mprog, other)(list(before), index)
            except Exception:                                   # noqa -- judged in their own cases
                pass
    ok2, res2 = call(site + " [asked again after the other substitution functions]", fn, *((list(before), index, True) if ignore else (list(before), index)))
    S.trans(7)
    if ok2 and res2 != res:
        S.problem(site + " asked again after the other substitution functions ran on the same progression", res, res2,
                  tags={"how": "history dependent"})
        return
    if not check_results_shape(site, res):
        return
    # the answer belongs to the caller: extending it in place (alts = rule_a(..); alts += rule_b(..)) must not change what any
    # rule answers afterwards -- this rule on the same chord, and this and another rule on a chord they do not apply to
    snapshot = list(res)
    res += ["<added by the caller 1>", "<added by the caller 2>"]
    probes = [(rule, list(before), index, bool(ignore), snapshot)]
    for other in ("substitute_harmonic", "substitute_diminished_for_dominant"):
        for numeral in ("Vm", "IIaug"):
            try:
                base = getattr(mprog, other)([numeral], 0)
            except Exception:                                   # noqa
                continue
            probes.append((other, [numeral], 0, False, None))
    for (r2, p2, i2, ig2, want) in probes:
        ok3, got = call("progressions.%s(%r, %d) after a caller extended an earlier answer in place" % (r2, p2, i2),
                        getattr(mprog, r2), *((list(p2), i2, True) if ig2 else (list(p2), i2)))
        S.trans(1)
        if not ok3 or not isinstance(got, list):
            continue
        if "<added by the caller 1>" in got or "<added by the caller 2>" in got or (want is not None and got != want):
            S.problem("progressions.%s(%r, %d) after the caller extended the answer of %s in place" % (r2, p2, i2, site),
                      want if want is not None else "an answer without the caller's additions", got, tags={"how": "answer shared with the caller"})
            return
    res = snapshot
    if res:
        S.count("nonempty:" + rule)
    else:
        S.count("empty:" + rule)
        return
    for key in (MAJOR_KEYS if (length, index) == (1, 0) and not lower else _RULES["other_position_keys"]):
        oroot = H.degree_root(key, deg, k)
        otriad = [H.shift(x, k) for x in H.triads(key)[deg]]
        for j, r in enumerate(res):
            chord = denoted_in(r, key, site)
            if chord is None:
                return
            if chord == "skip":
                continue
            dpc = (P.pc(chord[0]) - P.pc(oroot)) % 12
            dlet = (P.letter_index(chord[0]) - P.letter_index(oroot)) % 7
            if rule == "substitute_harmonic":
                common = H.pcs(chord) & H.pcs(otriad)
                if len(common) < 2:
                    S.problem(site, ">= 2 notes shared between %r (original triad in %s) and the substitute %r" % (otriad, key, r),
                              {"substitute": chord, "shared pitch classes": sorted(common)}, tags={"rule": rule})
                    return
            elif rule == "substitute_minor_for_major":
                if (dpc, dlet) != (3, 2):
                    S.problem(site, "root of %r a minor third above %r (key %s)" % (r, oroot, key), chord[0], tags={"rule": rule})
                    return
            elif rule == "substitute_major_for_minor":
                if (dpc, dlet) != (9, 5):
                    S.problem(site, "root of %r a major sixth above %r (key %s)" % (r, oroot, key), chord[0], tags={"rule": rule})
                    return
            elif rule == "substitute_diminished_for_diminished":
                if (dpc, dlet) not in DIM_CYCLE:
                    S.problem(site, "root of %r on the minor-third cycle above %r (key %s)" % (r, oroot, key), chord[0], tags={"rule": rule})
                    return
            S.count("promises_checked")


def gen_rules(shard):
    rule, deg = shard
    for k in range(-3, 4):
        for suffix in H.SUFFIXES:
            for lower in (0, 1):
                for ignore in (0, 1):
                    for (length, index) in POSITIONS:
                        if lower and (length, index) != (1, 0):
                            continue
                        yield [rule, deg, k, suffix, lower, ignore, length, index]


# ---------------------------------------------------------------------------------------
# call_order: what a key's chords are does not depend on which of them a cold process asks for first
# ---------------------------------------------------------------------------------------
import importlib
from mingus.core import keys as _mkeys

FIRST_QUESTIONS = ["sevenths", "V7", "tonic7", "to_chords_sevenths", "triads", "vii", "to_chords_triads", "determine_seventh",
                   "triad_on_bare_letters", "seventh_on_bare_letters"]


def _cold_theory():
    """cold start without naming private tables: re-execute the modules that may keep memo tables"""
    importlib.reload(_mkeys)
    importlib.reload(mchords)
    importlib.reload(mprog)


def run_call_order(case):
    """case = [key, first question]: from a cold start ask that one thing first, then everything else."""
    S = engine.S
    key, first = case
    T, V7 = H.triads(key), H.sevenths(key)
    _cold_theory()
    try:
        if first == "sevenths":
            mchords.sevenths(key)
        elif first == "V7":
            mchords.V7(key)
        elif first == "tonic7":
            mchords.tonic7(key)
        elif first == "to_chords_sevenths":
            mprog.to_chords(["ii7", "V7", "I7"], key)
        elif first == "triads":
            mchords.triads(key)
        elif first == "vii":
            mchords.vii(key)
        elif first == "to_chords_triads":
            mprog.to_chords(["I", "IV", "V"], key)
        elif first == "determine_seventh":
            mprog.determine(list(V7[4]), key, True)
        elif first in ("triad_on_bare_letters", "seventh_on_bare_letters"):
            # chords.triad / chords.seventh on each of the seven letters, spelled without accidentals (in most keys some of
            # them are not the key's own spelling of that step; the functions find the step by its letter)
            for L in "CDEFGAB":
                try:
                    (mchords.triad if first.startswith("triad") else mchords.seventh)(L, key)
                except Exception:                               # noqa -- not the subject here
                    pass
        elif first.startswith("other:"):
            # the first key this process ever hears of is another one (its relative key, for instance)
            mchords.triads(first[6:])
            mchords.sevenths(first[6:])
            # ... and the caller writes on the lists it got about that other key
            for fn in (_mkeys.get_key_signature_accidentals, _mkeys.get_notes):
                try:
                    r = fn(first[6:])
                    r.append("Fx")
                    r[:1] = ["Zb", "Zb"]
                except Exception:                               # noqa
                    pass
        else:
            raise engine.HarnessError("unknown first question %r" % (first,))
    except Exception as e:                                   # noqa
        S.problem("first question %s in a cold process, key %r" % (first, key), "an answer", e)
        return
    site = " (cold process whose first question about %r was %s)" % (key, first)
    ok, got = call("chords.triads(%r)%s" % (key, site), mchords.triads, key)
    if ok:
        expect_chords("chords.triads(%r)%s" % (key, site), got, T)
    ok, got = call("chords.sevenths(%r)%s" % (key, site), mchords.sevenths, key)
    if ok:
        expect_chords("chords.sevenths(%r)%s" % (key, site), got, V7)
    for i in range(7):
        for name, want in ((H.FUNCTIONS[i], T[i]), (H.FUNCTIONS[i] + "7", V7[i]), (UPPER_ALIASES[i], T[i]), (UPPER_ALIASES[i] + "7", V7[i])):
            fn = getattr(mchords, name, None)
            if fn is None:
                continue
            ok, got = call("chords.%s(%r)%s" % (name, key, site), fn, key)
            if ok:
                expect_chords("chords.%s(%r)%s" % (name, key, site), [got], [want])
    numerals = [UPPER_ALIASES[i] for i in range(7)] + [UPPER_ALIASES[i] + "7" for i in range(7)]
    ok, got = call("progressions.to_chords(%r, %r)%s" % (numerals, key, site), mprog.to_chords, numerals, key)
    if ok:
        expect_chords("progressions.to_chords(all numerals, %r)%s" % (key, site), got, T + V7)
    S.trans(32)
    S.outcome((key, first))
    S.count("call_orders_checked")


# ---------------------------------------------------------------------------------------
# substitute (general, recursive)
# ---------------------------------------------------------------------------------------
_SUBST = {"keys": MAJOR_KEYS, "suffixes": H.SUFFIXES}


def run_substitute(case):
    """case = [degree, k, suffix, lower, length, index, depth]"""
    S = engine.S
    S.sample(case)
    deg, k, suffix, lower, length, index, depth = case
    subject = H.fmt(deg, k, suffix, lower)
    prog = make_progression(subject, length, index)
    before = list(prog)
    site = "progressions.substitute(%r, %d, %d)" % (before, index, depth)
    ok, res = call(site, mprog.substitute, prog, index, depth)
    S.trans(1)
    if prog != before:
        S.problem(site + " argument afterwards", before, prog, tags={"how": "argument modified", "depth": depth})
    if not ok:
        return
    S.outcome((subject, depth, len(res) if isinstance(res, list) else repr(res), repr(res)[:200]))
    if not check_results_shape(site, res):
        return
    S.count("substitute_nonempty" if res else "substitute_empty")
    S.count("substitute_results", len(res))
    for r in sorted(set(res)):
        for key in _SUBST["keys"]:
            if denoted_in(r, key, site) is None:
                return
    if depth == 0 and suffix in ("m", "m7", "M", "M7", "dim", "dim7"):
        # the general function applies the documented relative major / minor rule to a chord whose quality is spelled out:
        # what the rule itself answers for this chord is among the general answers
        rule = "substitute_major_for_minor" if suffix[0] == "M" else "substitute_minor_for_major" if suffix[0] == "m" else "substitute_diminished_for_diminished"
        ok, own = call("progressions.%s(%r, %d)" % (rule, before, index), getattr(mprog, rule), list(before), index)
        S.trans(1)
        if ok and isinstance(own, list):
            if not own or not set(own) <= set(res):
                S.problem(site + " vs progressions.%s" % rule, "a superset of %r" % (sorted(set(own)),), sorted(set(res)),
                          tags={"how": "rule not applied", "depth": depth})
            S.count("substitute_vs_rule_checked")
    if depth == 0 and suffix in ("dim", "dim7") and not lower:
        # the diminished answers of the general function are the documented cycle of minor thirds above the original root
        for key in _RULES["other_position_keys"]:
            oroot = H.degree_root(key, deg, k)
            for r in sorted(set(res)):
                if H.parse(r)[2] != suffix:
                    continue
                chord = denoted_in(r, key, site)
                if chord is None:
                    return
                if chord == "skip":
                    continue
                step = ((P.pc(chord[0]) - P.pc(oroot)) % 12, (P.letter_index(chord[0]) - P.letter_index(oroot)) % 7)
                if step not in DIM_CYCLE:
                    S.problem(site, "diminished answer %r with its root on the minor-third cycle above %r (key %s)" % (r, oroot, key), chord[0],
                              tags={"how": "diminished cycle", "depth": depth})
                    return
                S.count("substitute_diminished_cycle_checked")
    if depth > 0:
        ok, res0 = call(site, mprog.substitute, list(before), index, 0)
        S.trans(1)
        if not ok:
            return
        unrolled = list(res0)
        for x in res0:
            p = list(before)
            p[index] = x
            ok, sub = call("progressions.substitute(%r, %d, %d)" % (p, index, depth - 1), mprog.substitute, p, index, depth - 1)
            S.trans(1)
            if not ok:
                return
            unrolled += sub
        if set(res) != set(unrolled):
            S.problem(site, "the results of depth 0 plus the depth-%d substitutions of each of them" % (depth - 1),
                      sorted(set(res)), detail={"missing": sorted(set(unrolled) - set(res)), "extra": sorted(set(res) - set(unrolled))},
                      tags={"how": "unrolling"})
        S.count("unrollings_checked")
    # the last chord addressed from the end (index -1) is the same question as index len-1
    if index == length - 1:
        ok, neg = call("progressions.substitute(%r, -1, %d)" % (before, depth), mprog.substitute, list(before), -1, depth)
        S.trans(1)
        if ok and (not isinstance(neg, list) or set(neg) != set(res)):
            S.problem("progressions.substitute(%r, -1, %d) vs index %d" % (before, depth, index), sorted(set(res)),
                      sorted(set(neg)) if isinstance(neg, list) else neg, tags={"how": "negative index"})
        S.count("negative_index_checked")


def gen_substitute(shard):
    deg, depth = shard
    for k in range(-3, 4):
        for suffix in _SUBST["suffixes"]:
            for lower in (0, 1):
                for (length, index) in POSITIONS:
                    if (lower or depth == 2) and (length, index) not in ((1, 0), (3, 1)):
                        continue
                    yield [deg, k, suffix, lower, length, index, depth]


CLAUSES = {
    "diatonic": run_diatonic,
    "call_order": run_call_order,
    "prefix": run_prefix,
    "suffix": run_suffix,
    "unknown": run_unknown,
    "function": run_function,
    "roundtrip": run_roundtrip,
    "rules": run_rules,
    "substitute": run_substitute,
}


def explore(ctx):
    ctx.use_thorough_bounds('thorough bounds take about fifteen seconds')
    ctx.bound("keys", P.KEYS30)
    ctx.bound("major_keys", MAJOR_KEYS)
    ctx.bound("suffixes", len(H.SUFFIXES))
    if ctx.want("diatonic"):
        ctx.serial("diatonic", [[k] for k in P.KEYS30])
    if ctx.want("call_order"):
        ctx.product("call_order", list(P.KEYS30), lambda k: itertools.chain(([k, q] for q in FIRST_QUESTIONS if not (q == "determine_seventh" and k[0].islower())),
                                                                       ([k, "other:" + k2] for k2 in P.KEYS30 if k2 != k)))
    if ctx.want("prefix"):
        _PREFIX["kmax"] = ctx.pick(3, 6)
        ctx.bound("prefix_range", [-_PREFIX["kmax"], _PREFIX["kmax"]])
        ctx.product("prefix", P.KEYS30, gen_prefix)
    if ctx.want("suffix"):
        _SUFFIX["ks"] = ctx.pick([-1, 0, 1], [-3, -2, -1, 0, 1, 2, 3])
        ctx.bound("suffix_clause_prefixes", _SUFFIX["ks"])
        ctx.product("suffix", P.KEYS30, gen_suffix)
    if ctx.want("unknown"):
        keys = ctx.pick(["C", "f#", "Cb"], P.KEYS30)
        ctx.bound("unknown_numeral_keys", keys)
        ctx.product("unknown", keys, gen_unknown)
    if ctx.want("function"):
        ctx.product("function", MAJOR_KEYS, gen_function)
    if ctx.want("roundtrip"):
        _ROUND["kmax"] = ctx.pick(3, 6)
        ctx.bound("roundtrip_prefix_range", [-_ROUND["kmax"], _ROUND["kmax"]])
        ctx.product("roundtrip", list(range(7)), gen_roundtrip)
    if ctx.want("rules"):
        ctx.bound("rule_positions", POSITIONS)
        ctx.bound("rule_prefix_range", [-3, 3])
        _RULES["other_position_keys"] = ctx.pick(["C", "C#"], MAJOR_KEYS)
        ctx.bound("rule_keys_upper_case_subject_alone", MAJOR_KEYS)
        ctx.bound("rule_keys_other_positions_and_lower_case", _RULES["other_position_keys"])
        ctx.product("rules", [(r, d) for r in RULES for d in range(7)], gen_rules)
    if ctx.want("substitute"):
        ctx.bound("substitute_depths", [0, 1, 2])
        _SUBST["keys"] = ctx.pick(["C", "Cb", "C#", "F", "G"], MAJOR_KEYS)
        ctx.bound("substitute_denotation_keys", _SUBST["keys"])
        ctx.product("substitute", [(d, depth) for d in range(7) for depth in (0, 1, 2)], gen_substitute)
    if not ctx.only:
        ctx.guard("keys with all diatonic tables checked", ctx.counter("diatonic_keys"), 30)
        ctx.guard("alias/function-name calls", ctx.counter("alias_calls"), 30 * 36)
        ctx.guard("prefixed numerals", ctx.counter("prefixed_chords"), 5000)
        ctx.guard("suffixed numerals", ctx.counter("suffixed_chords"), 50000)
        ctx.guard("unknown numerals answered", ctx.counter("unknown_numerals"), 1000)
        ctx.guard("diatonic chords whose function was found", ctx.counter("function_hits"), 15 * 14)
        ctx.guard("numeral -> chord -> numeral round trips", ctx.counter("numeral_roundtrips"), 15 * 28)
        ctx.guard("parse/format round trips", ctx.counter("roundtrips"), 2000)
        for r in RULES:
            ctx.guard("non-empty answers of " + r, ctx.counter("nonempty:" + r), 200)
            ctx.guard("empty answers of " + r, ctx.counter("empty:" + r), 200)
        ctx.guard("rule promises checked (result x key)", ctx.counter("promises_checked"), 20000)
        ctx.guard("substitute() non-empty answers", ctx.counter("substitute_nonempty"), 1000)
        ctx.guard("substitute() unrollings checked", ctx.counter("unrollings_checked"), 1000)
    if ctx.counter("suffix_not_constructible_skipped(C06)"):
        ctx.note("%d numeral strings with a suffix in %r raised KeyError in to_chords and were skipped (constructibility of these "
                 "documented shorthands is C06's subject)" % (ctx.counter("suffix_not_constructible_skipped(C06)"), H.C06_SUBJECT))


KNOWN = {}
